from spec import H, KaniUnit, Property, VerusUnit

KC = "mithril-common/src/crypto_helper/cardano/key_certification.rs"
OC = "mithril-common/src/crypto_helper/cardano/opcert.rs"
KV = "mithril-common/src/crypto_helper/cardano/kes/verifier_standard.rs"
PROP = Property(
    "C07", "proof",
    verus=[
        VerusUnit("kes_window", "verus/C07/kes_window.tmpl.rs",
                  "extracted text of KesVerifierStandard::verify: Ok ==> OpCert::validate succeeded (signed by the cold key) and the KES signature verified under the KES key named in that certificate at an "
                  "evolution t with announced-1 <= t <= min(64, announced+1) (u64 fully general, incl. 0 and u64::MAX)",
                  ["KesVerifierStandard::verify"]),
        VerusUnit("registration", "verus/C07/registration.tmpl.rs",
                  "extracted text of KeyRegWrapper::register / verify_kes_signature / OpCert::validate: Ok(id) ==> opcert, KES evolutions and KES signature present; kes_verifier.verify(bytes of THE registered key, "
                  "that signature, THAT opcert, those evolutions) succeeded; id == pool id derived from the opcert's cold key; id is in the stake distribution; stm registration called with the distribution's "
                  "stake for id (never a registrant-supplied value) and the registrant's key; Err ==> registration set unchanged; OpCert::validate Ok ==> Ed25519(cold_vk, msg(kes_vk, issue_number, start_kes_period), cert_sig)",
                  ["KeyRegWrapper::register", "KeyRegWrapper::verify_kes_signature", "OpCert::validate", "OpCert::get_start_kes_period"]),
        VerusUnit("stm_registration", "verus/C07/stm_registration.tmpl.rs",
                  "extracted text (default features) of RegistrationEntry::new: Ok ==> proof of possession verified, entry == (vk, stake); KeyRegistration::register_by_entry: Err iff key already registered, on Ok exactly "
                  "this key / entry added and nothing else changes (frame); KeyRegistration::register composes the two",
                  ["RegistrationEntry::new", "RegistrationEntry::get_verification_key_for_concatenation", "RegistrationEntry::get_stake", "KeyRegistration::register_by_entry", "KeyRegistration::register"]),
        VerusUnit("aggregator_verifier", "verus/C07/aggregator_verifier.tmpl.rs",
                  "extracted text of mithril-aggregator MithrilSignerRegistrationVerifier::verify: Ok(s) ==> KeyRegWrapper::register accepted, against the round's stake distribution, the request built from the registrant's own key / key "
                  "signature / opcert with KES evolutions = chain's current KES period - opcert start; s.party_id is the id the registration returned; s.stake == stake_distribution[s.party_id]; key and opcert copied from the registrant",
                  ["MithrilSignerRegistrationVerifier::verify"]),
        VerusUnit("aggregator_leader", "verus/C07/aggregator_leader.tmpl.rs",
                  "extracted text of the aggregator's registration round: leader register_signer Ok(s) ==> a round is open, it is the round OF THE EPOCH the signer registers for, s is what the registration verifier returned for this "
                  "signer against the ROUND's stake distribution, s was recorded and saved under the round's epoch, and no registration of that party existed for that epoch; open / close_registration_round set / clear the round; "
                  "the runner opens the round for the recording epoch (current + 1) with the stake distribution stored under THAT epoch",
                  ["aggregator MithrilSignerRegistrationLeader::register_signer", "aggregator MithrilSignerRegistrationLeader::{open_registration_round, close_registration_round}",
                   "aggregator AggregatorRunner::open_signer_registration_round"]),
        VerusUnit("aggregator_follower", "verus/C07/aggregator_follower.tmpl.rs",
                  "extracted text of the follower aggregator's synchronization: synchronize_signers Ok ==> EVERY signer handed in was accepted by the registration verifier against the given stake distribution and exactly the verifier's "
                  "answer was recorded and saved under the epoch (loop with inductive invariant); synchronize_all_signers Ok ==> that holds for every signer the leader announced, against the follower's OWN stake distribution stored for the "
                  "synchronization epoch; a follower refuses every direct registration",
                  ["aggregator MithrilSignerRegistrationFollower::synchronize_signers", "aggregator MithrilSignerRegistrationFollower::synchronize_all_signers", "aggregator MithrilSignerRegistrationFollower::register_signer"]),
    ],
    replays=[dict(crate="mithril-aggregator", file="mithril-aggregator/src/services/signer_registration/leader.rs", module="replays/c07_leader.rs"),
             dict(crate="mithril-aggregator", file="mithril-aggregator/src/services/signer_registration/follower.rs", module="replays/c07_follower.rs"),
             dict(crate="mithril-aggregator", file="mithril-aggregator/src/runtime/runner.rs", module="replays/c07_runner.rs"),
             dict(crate="mithril-common", file=KC, module="replays/c07_registration.rs"),
             dict(crate="mithril-stm", file="mithril-stm/src/protocol/key_registration/register.rs", module="replays/c07_stm_registration.rs")],
    assumptions=[
        "aggregator_verifier rewrites: async/.await removed; the stake-distribution iterator expression, the `match party_id.as_str()` on string patterns, `unwrap_or_default() - start` on KES periods and Option/String clones -> contract fns; .with_context removed (the stake lookup's `.with_context(..)?` becomes a match returning Err); strip_cfg future_snark",
        "Ed25519 (dalek), Sum6KES (kes-summed-ed25519) and BLS proof of possession (blst) are assumed sound: callee contracts",
        "OpCert::compute_protocol_party_id = bech32(blake2b-224(cold key)) is a function of the cold key only (hash/encoding libraries: contract); OpCert::compute_message_to_sign's byte layout (array slicing) is a contract, not extracted",
        "std HashMap / HashSet / BTreeSet as mathematical maps / sets (assumed contract on std); the stake distribution map is abstract (StakeMap::get)",
        "default feature set: cfg!(not(feature = \"allow_skip_signer_certification\")) is true; items guarded by #[cfg(feature = \"future_snark\")] are dropped (strip_cfg) - those features are off in every default build and are not covered",
        "extraction rewrites (complete list in the templates): StdResult/StmResult<T> -> Result<T, E>; .with_context(..) removed; closure headers given types and ensures; Err(anyhow!(E)) -> Err(E); `Err(E.into())` -> Err(E); "
        "`a..=b` -> `a..(b + 1)` (Verus has no spec for inclusive ranges; the overflow obligation b + 1 is discharged); `if let Some(&x) = e {` -> `if let Some(r) = e { let x = *r;`; std::cmp::max/min on u64 -> contract fns",
        "SignerRegistrationParameters has no stake field (read off the struct): a registrant cannot supply a stake",
        "the aggregator-side leader / follower registration services (async, stores) are not under contract; the SignerRegistrationVerifier they call is (unit aggregator_verifier)",
    ],
    explanation="Every conjunct of the registration acceptance rule is a postcondition over uninterpreted cryptographic predicates, proved by Verus on the function text extracted from the working tree in both crates.",
    not_decided=["aggregator-side async registration services", "soundness of the cryptographic primitives"],
)

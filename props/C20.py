from spec import H, KaniUnit, Property, VerusUnit

EP = "mithril-common/src/entities/epoch.rs"
PROP = Property(
    "C20", "proof",
    kani=[KaniUnit(
        crate="mithril-common",
        jobs=8,
        attach=[(EP, "contracts/mithril-common/c20_epoch.rs", "verif_c20")],
        contracts=[dict(file=EP, fn="has_gap_with", within="impl Epoch",
                        attrs=["#[cfg_attr(kani, kani::ensures(|r: &bool| *r == !(self.0 == other.0 || (self.0 < u64::MAX && self.0 + 1 == other.0) || (other.0 < u64::MAX && other.0 + 1 == self.0))))]"])],
        anchors=[(EP, f, "impl Epoch") for f in ("offset_by", "offset_to_signer_retrieval_epoch", "offset_to_next_signer_retrieval_epoch",
                                                  "offset_to_recording_epoch", "offset_to_signer_signing_offset", "next", "previous")],
        harnesses=[
            H("c20_recording_epoch_is_retrieved_at_signing_offset", "full", "forall e < 2^63-8: e.offset_to_signer_signing_offset().offset_to_signer_retrieval_epoch() == Ok(e.offset_to_recording_epoch())",
              ["Epoch::offset_to_signer_signing_offset", "Epoch::offset_to_signer_retrieval_epoch", "Epoch::offset_to_recording_epoch"]),
            H("c20_next_signers_become_current_signers", "full", "forall e: e.next().offset_to_signer_retrieval_epoch() == Ok(e.offset_to_next_signer_retrieval_epoch()); e.offset_to_recording_epoch() == e.next().offset_to_next_signer_retrieval_epoch()",
              ["Epoch::next", "Epoch::offset_to_next_signer_retrieval_epoch", "Epoch::offset_to_signer_retrieval_epoch"]),
            H("c20_signer_retrieval_fails_exactly_at_epoch_zero", "full", "offset_to_signer_retrieval_epoch / previous are Err exactly for epoch 0, otherwise the previous epoch", ["Epoch::offset_to_signer_retrieval_epoch", "Epoch::previous"]),
            H("c20_offset_by_is_exact", "full", "offset_by(d) == Ok(e + d) iff e + d >= 0 (|d| < 2^62)", ["Epoch::offset_by"]),
            H("c20_offsets_are_monotone_additions", "full", "every unsigned offset function adds its documented constant; SIGNER_SIGNING_OFFSET == SIGNER_RECORDING_OFFSET - SIGNER_RETRIEVAL_OFFSET",
              ["Epoch::offset_to_recording_epoch", "Epoch::offset_to_signer_signing_offset", "Epoch::offset_to_epoch_settings_recording_epoch", "Epoch::offset_to_cardano_stake_distribution_snapshot_epoch", "Epoch::offset_to_leader_synchronization_epoch"]),
            H("c03_has_gap_with_contract", "contract", "#[kani::ensures] on the real Epoch::has_gap_with: result == (abs_diff > 1)", ["Epoch::has_gap_with"]),
        ])],
    verus=[VerusUnit("signer_gate", "verus/C20/signer_gate.tmpl.rs",
                     "extracted text of the signer's MithrilEpochService (mithril-signer/src/services/epoch_service.rs): can_signer_sign_current_epoch Ok(true) ==> key material (protocol initializer) is stored for the epoch AND the epoch's "
                     "current signer list names this party with exactly that initializer's verification key - the signer never signs before it has registered keys eligible for the current epoch; "
                     "inform_epoch_settings(e) Ok ==> e >= 1 and the key material in force is what the signer saved under the signer-retrieval epoch e - 1, signer lists and registration parameters are the ones handed in; "
                     "current_signers_with_stake / next_signers_with_stake use the stakes saved under e - 1 / e",
                     ["signer MithrilEpochService::can_signer_sign_current_epoch", "signer MithrilEpochService::is_signer_included_in_current_stake_distribution",
                      "signer MithrilEpochService::inform_epoch_settings", "signer MithrilEpochService::{current_signers_with_stake, next_signers_with_stake}",
                      "signer MithrilEpochService::{unwrap_data, epoch_of_current_data, protocol_initializer, current_signers, next_signers}"]),
           VerusUnit("aggregator_epoch_service", "verus/C20/aggregator_epoch_service.tmpl.rs",
                     "extracted text of the aggregator's MithrilEpochService (mithril-aggregator/src/services/epoch_service.rs): inform_epoch(e) Ok ==> e >= 1, the signer set in force is the one recorded in the "
                     "verification-key store under e - 1 (signer-retrieval epoch), the next signer set the one recorded under e, the configuration is the provider's for e, the registration settings are saved under the "
                     "recording epoch e + 1, previously computed keys are dropped; update_next_signers_with_stake re-reads the set recorded under e and recomputes; precompute_epoch_data Ok ==> both aggregate keys and "
                     "multi-signers are SignerBuilder's results for exactly (current signers, parameters for aggregation) and (next signers, parameters for next aggregation) (also the aggregator path of C06)",
                     ["aggregator MithrilEpochService::inform_epoch", "aggregator MithrilEpochService::update_next_signers_with_stake", "aggregator MithrilEpochService::precompute_epoch_data",
                      "aggregator MithrilEpochService::get_signers_with_stake_at_epoch", "aggregator MithrilEpochService::unwrap_data"]),
           VerusUnit("signer_certifier", "verus/C20/signer_certifier.tmpl.rs",
                     "extracted text of the signer's SignerCertifierService: get_beacon_to_sign Some(b) ==> b is for the time point's epoch and for a signed entity type that is allowed at that time point, not locked and NOT ALREADY SIGNED "
                     "according to the signed-beacon store (at most one signature per signed entity and beacon); compute_publish_single_signature Ok ==> the signature the single signer computed for THIS message (if any) was published under the "
                     "beacon's signed entity type and the beacon was marked as signed",
                     ["signer SignerCertifierService::get_beacon_to_sign", "signer SignerCertifierService::list_available_signed_entity_types", "signer SignerCertifierService::compute_publish_single_signature"]),
           VerusUnit("signer_runner", "verus/C20/signer_runner.tmpl.rs",
                     "extracted text of the signer's runner: register_signer_to_aggregator Ok ==> if no key material is stored for the recording epoch e + 1: new key material is built for THIS party's stake in the distribution stored under "
                     "e + 1 with the registration parameters, the registration sent to the aggregator is FOR e + 1 and carries the verification key and key signature of exactly that key material, and exactly that key material is saved under "
                     "e + 1; update_stake_distribution(e) Ok ==> a non-empty distribution is already stored under e + 1 (kept) or the chain's current one is saved there",
                     ["signer SignerRunner::register_signer_to_aggregator", "signer SignerRunner::update_stake_distribution"])],
    replays=[dict(crate="mithril-signer", file="mithril-signer/src/services/certifier.rs", module="replays/c20_signer_certifier.rs"),
             dict(crate="mithril-signer", file="mithril-signer/src/runtime/runner.rs", module="replays/c20_signer_runner.rs", inside_tests=True),
             dict(crate="mithril-aggregator", file="mithril-aggregator/src/services/epoch_service.rs", module="replays/c20_aggregator_epoch_service.rs"),
             dict(crate="mithril-signer", file="mithril-signer/src/services/epoch_service.rs", module="replays/c20_signer_epoch_service.rs")],
    assumptions=[
        "signer_gate: the `.iter().any(closure)` over the signer list is a contract fn; key equality (ProtocolKey ==) is an uninterpreted relation; debug!/warn! statements removed; that the state machine consults this gate before signing is read off the source (mithril-signer runtime/runner.rs can_sign_current_epoch)",
        "only the epoch-offset algebra shared by signer and aggregator and the signer-side eligibility gate are decided; epochs < 2^63 - 8 (offset_by casts to i64; real epochs are < 2^32)",
        "both epoch services and the signer's runner are under contract for WHICH offset function keys WHICH store access (units signer_gate, aggregator_epoch_service, signer_runner; the offset functions are callee contracts there, "
        "proved on the real code by the Kani unit); the aggregator's signer_registration_store / single_signature_repository call sites are read off the source, not proved",
        "signer_runner unit: the operational-certificate file parsing block and the KES-evolutions closure are replaced by contract fns; key generation (MithrilProtocolInitializerBuilder::build) is a callee contract; "
        "RunnerError constructors -> StdError; RwLock read guard -> reference; strip_cfg future_snark",
        "signer_certifier unit: signed-beacon store, configuration provider, entity lock, single signer and publisher (async trait objects) are contract stubs; that mark_beacon_as_signed comes AFTER a successful publish is implied for the Ok "
        "case only (an Err after marking is not excluded by the contract; the replay test checks it on the real code)",
        "epoch-service units: stores, providers and the era checker (async trait objects) are contract stubs over uninterpreted functions of their content; `.await`, debug!, with_context(..) removed; iterator expressions replaced by contract fns "
        "(Signer::vec_from(x.clone()), stake sums, discriminant intersection, Option::as_mut field assignment, associate_signers_with_stake); Option<..SigningConfig> / BTreeSet fields are opaque Clone types; "
        "inform_epoch requires epoch < u64::MAX (offset_to_recording_epoch adds 1)",
    ],
    explanation="Relational lemmas over the real Epoch offset functions for all epochs: a consistent renumbering of the constants still verifies, an off-by-one on either side fails.",
    not_decided=["at-most-once signing per beacon ACROSS restarts and for the SQL of the signed-beacon repository (the per-call rule - never propose an already signed entity, mark after publishing - is under contract)", "signing only after registration as a state-machine behaviour", "restart behaviour", "acceptance by the aggregator at run level (async state machines over SQLite)"],
)

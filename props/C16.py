from spec import H, KaniUnit, Property, VerusUnit

MS = "mithril-common/src/protocol/multi_signer.rs"
PROP = Property(
    "C16", "proof",
    verus=[VerusUnit(
        "verify_single_signature", "verus/C16/verify_single_signature.tmpl.rs",
        "extracted text of mithril-common MultiSigner::verify_single_signature: Ok ==> the signature verifies for this message under the (key, stake) registered at the slot the signature names, with the clerk's "
        "aggregate key and the configured parameters, AND the key at that slot is the key registered by the party the submission NAMES (party_id) - the obligation of C16 (finding F-C16-1, repaired)",
        ["MultiSigner::verify_single_signature", "MultiSigner::compute_aggregate_verification_key"]),
        VerusUnit(
        "aggregator_authenticator", "verus/C16/aggregator_authenticator.tmpl.rs",
        "extracted text of the aggregator side: SingleSignatureAuthenticator::authenticate marks a submission Authenticated EXACTLY when the common verification succeeds for the current or, failing that, the next stake distribution, "
        "Unauthenticated otherwise, and touches nothing else of the submission; MultiSignerImpl::verify_single_signature / ..for_next_stake_distribution Ok ==> the common verification accepted it with the epoch service's CURRENT / NEXT multi-signer",
        ["aggregator SingleSignatureAuthenticator::authenticate", "aggregator MultiSignerImpl::{run_verify_single_signature, verify_single_signature, verify_single_signature_for_next_stake_distribution}"]),
        VerusUnit(
        "buffered_certifier", "verus/C16/buffered_certifier.tmpl.rs",
        "extracted text of the aggregator's BufferedCertifierService::register_single_signature (the buffered path): Buffered ONLY when the decorated certifier found no open message AND the submission was authenticated beforehand, "
        "and then the signature is in the buffer; a successful answer of the decorated certifier is passed on unchanged; an unauthenticated submission the decorated certifier refused is refused",
        ["aggregator BufferedCertifierService::register_single_signature"])],
    replays=[dict(crate="mithril-aggregator", file="mithril-aggregator/src/services/certifier/buffered_certifier.rs", module="replays/c16_buffered.rs"),
             dict(crate="mithril-common", file=MS, module="replays/c16_multi_signer.rs"),
             dict(crate="mithril-aggregator", file="mithril-aggregator/src/tools/single_signature_authenticator.rs", module="replays/c16_authenticator.rs")],
    assumptions=[
        "PARTIAL: the common verification function, the aggregator's MultiSignerImpl wrappers and its SingleSignatureAuthenticator are under contract; the aggregator's buffered certifier / repository / HTTP and DMQ paths "
        "(async, SQLite), de-duplication and MultiSignerImpl::create_multi_signature (anyhow downcasting) are not decided; storing only accepted signatures is C14's register_single_signature contract",
        "buffered_certifier unit: anyhow::Error with downcast_ref::<CertifierServiceError>() is an enum (the service error variants or Other); the decorated certifier's answer is an uninterpreted function of (type, signature) "
        "(its contract is C14's register_single_signature); moving buffered signatures to a new open message (try_register_buffered_signatures_to_current_open_message: re-registration through the decorated certifier) is not under contract",
        "authenticator unit: the aggregator's `Arc<dyn MultiSigner>` is a contract stub whose two methods carry the postconditions proved on MultiSignerImpl in the same unit; RwLock read guard -> reference; debug! / with_context removed",
        "mithril-stm SingleSignature::verify is a callee contract (C01); the registration lookup by slot is a contract of the clerk",
        "entities::SingleSignature is declared with the two fields the function reads (party_id, protocol signature); to_protocol_signature returns that signature",
        "the party-id -> key table (HashMap) is an opaque map with one lookup contract; `map.get(&id) != Some(&vk)` -> contract fn; anyhow!(..) -> error constructor",
        "extraction rewrites: generic <T: ToMessage> -> an abstract message type; StdResult -> Result; the two .with_context(|| format!(..party_id..)) closures removed (party_id is used in error text only); strip_cfg future_snark",
    ],
    explanation="The one function at which 'attributed to the party whose registered key produced it' can be stated is verified on its extracted text: validity under the slot's key AND that this key is the one registered by the named party (the pinned code lacked the second part: finding F-C16-1, repaired by 5ac40c9ce; the party-id -> key table is built by SignerBuilder::new, C06 unit signer_builder).",
    not_decided=["storage under the party's name, buffering, de-duplication and the published signer list (aggregator async services)"],
)

from spec import H, KaniUnit, Property, VerusUnit

CM = "mithril-stm/src/membership_commitment/merkle_tree/commitment.rs"
TR = "mithril-stm/src/membership_commitment/merkle_tree/tree.rs"
COMP = "for every non-empty sorted selection: verify_leaves_membership_from_batch_path(selected, compute_merkle_tree_batch_path(selection)) is Ok (real generic code at an ideal hash)"
SOUND = "arbitrary MerkleBatchPath (symbolic values / indices) and claimed leaves: Ok ==> indices strictly increasing, < n, claimed[j] == leaves[indices[j]]"
FN = ["MerkleTree::new", "MerkleTree::compute_merkle_tree_batch_path", "MerkleTree::to_merkle_tree_batch_commitment", "MerkleTreeBatchCommitment::verify_leaves_membership_from_batch_path", "parent", "sibling", "left_child", "right_child"]
PROP = Property(
    "C09", "proof",
    kani=[KaniUnit(
        crate="mithril-stm",
        attach=[(CM, "contracts/mithril-stm/c09_merkle.rs", "verif_c09")],
        anchors=[(CM, "verify_leaves_membership_from_batch_path", None), (TR, "compute_merkle_tree_batch_path", None), (TR, "new", "MerkleTree<D, L>")],
        harnesses=[
            H("c09_completeness_n1", "bounded", COMP, FN, bound="n = 1 leaf", replay="none", timeout=900),
            H("c09_completeness_n2", "bounded", COMP, FN, bound="n = 2 leaves, all 3 selections, symbolic leaf bytes", replay="none", timeout=900),
            H("c09_completeness_n3", "bounded", COMP, FN, bound="n = 3 leaves, all 7 selections", replay="none", timeout=900),
            H("c09_completeness_n4", "bounded", COMP, FN, bound="n = 4 leaves, all 15 selections", replay="none", timeout=1500, tier="thorough"),
            H("c09_soundness_n2_k1", "bounded", SOUND, FN, bound="n = 2, 1 claimed leaf, <= 2 path values, index < 64", replay="none", timeout=900),
            H("c09_soundness_n3_k1", "bounded", SOUND, FN, bound="n = 3, 1 claimed leaf, <= 3 path values", replay="none", timeout=900),
            H("c09_soundness_n3_k2", "bounded", SOUND, FN, bound="n = 3, 2 claimed leaves, <= 3 path values", replay="none", timeout=1500),
            H("c09_soundness_n4_k2", "bounded", SOUND, FN, bound="n = 4, 2 claimed leaves, <= 3 path values", replay="none", timeout=3000, tier="thorough"),
        ])],
    verus=[VerusUnit("heap_index", "verus/C09/heap_index.tmpl.rs",
                     "extracted parent/left_child/right_child/sibling: parent(left_child(i)) == parent(right_child(i)) == i, sibling involutive, siblings share their parent, parity <=> left/right child, no overflow below usize::MAX/2; leaf layout lemma",
                     ["merkle_tree::parent", "merkle_tree::left_child", "merkle_tree::right_child", "merkle_tree::sibling"])],
    assumptions=[
        "hash = ideal (collision-free, memoised) function: the real generic tree/commitment code is executed at this Digest implementation; Blake2b itself is not verified",
        "tree size bounded (n <= 3 quick, n <= 4 thorough), claimed leaves <= 2, path values <= 3, wire indices < 64 (overflow of `i + next_power_of_two - 1` for huge indices is a C05 matter)",
        "generic Merkle tree / nested map in internal/mithril-merkle-tree delegate to ckb-merkle-mountain-range (external algorithm): NOT under contract here; MKProof/MKMapProof linking rules are not decided in this unit",
        "to_cbor_bytes (error decoration only) stubbed",
    ],
    explanation="Generate/verify of the signer-registration Merkle tree checked on the real generic code at an ideal hash for every tree up to the bound, every selection and every proof value; heap-index algebra proved without bound by Verus on the extracted helpers.",
    not_decided=["internal/mithril-merkle-tree MKTree / MKMap proofs (ckb-merkle-mountain-range is external code)", "trees larger than the bound"],
)

from spec import H, KaniUnit, Property, VerusUnit

CM = "mithril-stm/src/membership_commitment/merkle_tree/commitment.rs"
TR = "mithril-stm/src/membership_commitment/merkle_tree/tree.rs"
COMP = "for every non-empty sorted selection: verify_leaves_membership_from_batch_path(selected, compute_merkle_tree_batch_path(selection)) is Ok (real generic code at an ideal hash)"
SOUND = "arbitrary MerkleBatchPath of the stated shape (symbolic path values, concrete wire indices) and symbolic claimed leaves: Ok ==> indices strictly increasing, < n, claimed[j] == leaves[indices[j]]"
FN = ["MerkleTree::new", "MerkleTree::compute_merkle_tree_batch_path", "MerkleTree::to_merkle_tree_batch_commitment", "MerkleTreeBatchCommitment::verify_leaves_membership_from_batch_path", "parent", "sibling", "left_child", "right_child"]
SOUND_SHAPES = ["n2_k1_v1_i0", "n2_k1_v1_i1", "n2_k1_v1_i2", "n2_k1_v0_i0", "n2_k1_v2_i1", "n2_k2_v0_i01", "n2_k2_v0_i10", "n2_k2_v0_i00", "n2_k2_v0_i11", "n2_k2_v0_i02",
                "n2_k2_v2_i00", "n2_k2_v2_i11", "n2_k2_v1_i01", "n3_k1_v2_i0", "n3_k1_v2_i2", "n3_k1_v1_i2", "n3_k1_v2_i3", "n3_k2_v1_i01", "n3_k2_v1_i23", "n3_k2_v2_i02", "n3_k2_v3_i22"]
QUICK_SOUND = ["n2_k1_v1_i0", "n2_k1_v1_i2", "n2_k2_v0_i01", "n2_k2_v0_i10", "n2_k2_v0_i00", "n2_k2_v2_i00"]
PROP = Property(
    "C09", "proof",
    kani=[KaniUnit(
        crate="mithril-stm",
        cbmc_args=["--unwindset", "memcmp.0:34"],  # Vec<usize> / Vec<u8> equality of up to 4 indices compiles to memcmp over up to 32 bytes
        attach=[(CM, "contracts/mithril-stm/c09_merkle.rs", "verif_c09")],
        anchors=[(CM, "verify_leaves_membership_from_batch_path", None), (TR, "compute_merkle_tree_batch_path", None), (TR, "new", "MerkleTree<D, L>")],
        harnesses=[H("c09_heap_index_laws_all_indices", "full", "for all i < usize::MAX/2: parent(left_child(i)) == parent(right_child(i)) == i; children are siblings; sibling involutive; siblings share their parent; parity <=> left/right child; parent(i) < i",
                     ["merkle_tree::parent", "merkle_tree::left_child", "merkle_tree::right_child", "merkle_tree::sibling"], timeout=600)]
        + [H("c09_completeness_n%d_m%d" % sh, "bounded", COMP, FN, bound="n = %d leaves (symbolic bytes), selection mask %d" % sh, replay="none", timeout=1500,
                     tier=("quick" if sh in [(1, 1), (2, 1), (2, 2), (2, 3)] else "thorough")) for sh in [(1, 1), (2, 1), (2, 2), (2, 3), (3, 1), (3, 2), (3, 3), (3, 4), (3, 5), (3, 6), (3, 7), (4, 5), (4, 10), (4, 15)]]
        + [H("c09_length_binding_%s" % nm, "bounded", "a proof for ki indices presented with kc != ki claimed leaves is rejected (symbolic leaves, claims, path values)", FN,
             bound="shape %s" % nm, replay="none", timeout=1500, tier=("quick" if nm == "n2_i1_c2" else "thorough")) for nm in ["n2_i1_c2", "n2_i2_c1", "n3_i1_c2"]]
        + [H("c09_soundness_%s" % nm, "bounded", SOUND, FN, bound="shape %s: n leaves, k claimed leaves, v path values, wire indices concrete; leaf bytes / claimed leaves / path values symbolic" % nm, replay="none", timeout=1500,
             tier=("quick" if nm in QUICK_SOUND else "thorough")) for nm in SOUND_SHAPES]
        )],
    verus=[VerusUnit("heap_index", "verus/C09/heap_index.tmpl.rs",
                     "extracted parent/left_child/right_child/sibling: parent(left_child(i)) == parent(right_child(i)) == i, sibling involutive, siblings share their parent, parity <=> left/right child, no overflow below usize::MAX/2; leaf layout lemma",
                     ["merkle_tree::parent", "merkle_tree::left_child", "merkle_tree::right_child", "merkle_tree::sibling"], paired_kani=["c09_heap_index_laws_all_indices"], twins_equivalent=True)],
    assumptions=[
        "hash = ideal (collision-free, memoised) function: the real generic tree/commitment code is executed at this Digest implementation; Blake2b itself is not verified",
        "tree size bounded (n <= 2 quick, n <= 4 thorough), one harness per concrete shape (selection resp. number of claimed leaves / path values), contents symbolic; wire indices < 8 (overflow of `i + next_power_of_two - 1` for huge indices is a C05 matter)",
        "generic Merkle tree / nested map in internal/mithril-merkle-tree delegate to ckb-merkle-mountain-range (external algorithm): NOT under contract here; MKProof/MKMapProof linking rules are not decided in this unit",
        "to_cbor_bytes (error decoration only) stubbed",
    ],
    explanation="Generate/verify of the signer-registration Merkle tree checked on the real generic code at an ideal hash for every tree up to the bound, every selection and every proof value; heap-index algebra proved without bound by Verus on the extracted helpers.",
    not_decided=["internal/mithril-merkle-tree MKTree / MKMap proofs (ckb-merkle-mountain-range is external code)", "trees larger than the bound"],
)

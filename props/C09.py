from spec import H, KaniUnit, Property, VerusUnit

CM = "mithril-stm/src/membership_commitment/merkle_tree/commitment.rs"
TR = "mithril-stm/src/membership_commitment/merkle_tree/tree.rs"
COMP = "for every non-empty sorted selection: verify_leaves_membership_from_batch_path(selected, compute_merkle_tree_batch_path(selection)) is Ok (real generic code at an ideal hash)"
SOUND = "arbitrary MerkleBatchPath of the stated shape (symbolic path values, concrete wire indices) and symbolic claimed leaves: Ok ==> indices strictly increasing, < n, claimed[j] == leaves[indices[j]]"
FN = ["MerkleTree::new", "MerkleTree::compute_merkle_tree_batch_path", "MerkleTree::to_merkle_tree_batch_commitment", "MerkleTreeBatchCommitment::verify_leaves_membership_from_batch_path", "parent", "sibling", "left_child", "right_child"]
SOUND_SHAPES = ["n2_k1_v1_i0", "n2_k1_v1_i1", "n2_k1_v1_i2", "n2_k1_v0_i0", "n2_k1_v2_i1", "n2_k2_v0_i01", "n2_k2_v0_i10", "n2_k2_v0_i00", "n2_k2_v0_i11", "n2_k2_v0_i02",
                "n2_k2_v2_i00", "n2_k2_v2_i11", "n2_k2_v1_i01", "n3_k1_v2_i0", "n3_k1_v2_i2", "n3_k1_v1_i2", "n3_k1_v2_i3", "n3_k2_v1_i01", "n3_k2_v1_i23", "n3_k2_v2_i02", "n3_k2_v3_i22"]
QUICK_SOUND = ["n2_k1_v1_i0", "n2_k1_v1_i2", "n2_k2_v0_i01", "n2_k2_v0_i10", "n2_k2_v0_i00", "n2_k2_v2_i00"]
PROP = Property(
    "C09", "proof",
    kani=[KaniUnit(
        crate="mithril-stm",
        cbmc_args=["--unwindset", "memcmp.0:34"],  # Vec<usize> / Vec<u8> equality of up to 4 indices compiles to memcmp over up to 32 bytes
        attach=[(CM, "contracts/mithril-stm/c09_merkle.rs", "verif_c09")],
        anchors=[(CM, "verify_leaves_membership_from_batch_path", None), (TR, "compute_merkle_tree_batch_path", None), (TR, "new", "MerkleTree<D, L>")],
        harnesses=[H("c09_heap_index_laws_all_indices", "full", "for all i < usize::MAX/2: parent(left_child(i)) == parent(right_child(i)) == i; children are siblings; sibling involutive; siblings share their parent; parity <=> left/right child; parent(i) < i",
                     ["merkle_tree::parent", "merkle_tree::left_child", "merkle_tree::right_child", "merkle_tree::sibling"], timeout=600)]
        + [H("c09_completeness_n%d_m%d" % sh, "bounded", COMP, FN, bound="n = %d leaves (symbolic bytes), selection mask %d" % sh, replay="none", timeout=1500,
                     tier=("quick" if sh in [(1, 1), (2, 1), (2, 2), (2, 3)] else "thorough")) for sh in [(1, 1), (2, 1), (2, 2), (2, 3), (3, 1), (3, 2), (3, 3), (3, 4), (3, 5), (3, 6), (3, 7), (4, 5), (4, 10), (4, 15)]]
        + [H("c09_length_binding_%s" % nm, "bounded", "a proof for ki indices presented with kc != ki claimed leaves is rejected (symbolic leaves, claims, path values)", FN,
             bound="shape %s" % nm, replay="none", timeout=1500, tier=("quick" if nm == "n2_i1_c2" else "thorough")) for nm in ["n2_i1_c2", "n2_i2_c1", "n3_i1_c2"]]
        + [H("c09_soundness_%s" % nm, "bounded", SOUND, FN, bound="shape %s: n leaves, k claimed leaves, v path values, wire indices concrete; leaf bytes / claimed leaves / path values symbolic" % nm, replay="none", timeout=1500,
             tier=("quick" if nm in QUICK_SOUND else "thorough")) for nm in SOUND_SHAPES]
        )],
    verus=[VerusUnit("heap_index", "verus/C09/heap_index.tmpl.rs",
                     "extracted parent/left_child/right_child/sibling: parent(left_child(i)) == parent(right_child(i)) == i, sibling involutive, siblings share their parent, parity <=> left/right child, no overflow below usize::MAX/2; leaf layout lemma",
                     ["merkle_tree::parent", "merkle_tree::left_child", "merkle_tree::right_child", "merkle_tree::sibling"], paired_kani=["c09_heap_index_laws_all_indices"], twins_equivalent=True),
           VerusUnit("mkmap_proof", "verus/C11/mkmap_proof.tmpl.rs",
                     "nested Merkle map (internal/mithril-merkle-tree), extracted text: MKMapProof::verify() Ok ==> the master proof verifies, EVERY sub-proof verifies (recursive call under the same contract = induction hypothesis) and for "
                     "EVERY (key, sub-proof) pair the node key + root(sub-proof) is a leaf of the master proof (no detached, skipped or re-keyed sub-proof); compute_root() is the master proof's root (shared with C11)",
                     ["MKMapProof::verify", "MKMapProof::compute_root"])],
    replays=[dict(crate="mithril-merkle-tree", file="internal/mithril-merkle-tree/src/merkle_map.rs", module="replays/c11_mkmap.rs")],
    assumptions=[
        "hash = ideal (collision-free, memoised) function: the real generic tree/commitment code is executed at this Digest implementation; Blake2b itself is not verified",
        "tree size bounded (n <= 2 quick, n <= 4 thorough), one harness per concrete shape (selection resp. number of claimed leaves / path values), contents symbolic; wire indices < 8 (overflow of `i + next_power_of_two - 1` for huge indices is a C05 matter)",
        "generic Merkle tree in internal/mithril-merkle-tree delegates to ckb-merkle-mountain-range (external algorithm): MKProof::verify is an ASSUMED callee contract (uninterpreted `mkproof_valid`), MKProof::contains / MKMapProof::contains (closure scans) are assumed contracts; "
        "the nested map's linking rule MKMapProof::verify IS under contract (unit mkmap_proof; recursion verified modularly, partial correctness; rewrites: StdResult, for-loop over &Vec -> `for e in it: v.iter()`, .with_context removed, the map/collect expression -> contract fn link_nodes)",
        "to_cbor_bytes (error decoration only) stubbed",
    ],
    explanation="Generate/verify of the signer-registration Merkle tree checked on the real generic code at an ideal hash for every tree up to the bound, every selection and every proof value; heap-index algebra proved without bound by Verus on the extracted helpers.",
    not_decided=["soundness of the mountain-range proof itself (MKProof::verify: ckb-merkle-mountain-range is external code) and MKProof::contains / MKMapProof::contains", "trees larger than the bound"],
)

from spec import H, KaniUnit, Property, VerusUnit

CM = "mithril-stm/src/membership_commitment/merkle_tree/commitment.rs"
TR = "mithril-stm/src/membership_commitment/merkle_tree/tree.rs"
COMP = "for every non-empty sorted selection: verify_leaves_membership_from_batch_path(selected, compute_merkle_tree_batch_path(selection)) is Ok (real generic code at an ideal hash)"
SOUND = "arbitrary MerkleBatchPath (symbolic values / indices) and claimed leaves: Ok ==> indices strictly increasing, < n, claimed[j] == leaves[indices[j]]"
FN = ["MerkleTree::new", "MerkleTree::compute_merkle_tree_batch_path", "MerkleTree::to_merkle_tree_batch_commitment", "MerkleTreeBatchCommitment::verify_leaves_membership_from_batch_path", "parent", "sibling", "left_child", "right_child"]
PROP = Property(
    "C09", "proof",
    kani=[KaniUnit(
        crate="mithril-stm",
        cbmc_args=["--unwindset", "memcmp.0:34"],  # Vec<usize> / Vec<u8> equality of up to 4 indices compiles to memcmp over up to 32 bytes
        attach=[(CM, "contracts/mithril-stm/c09_merkle.rs", "verif_c09")],
        anchors=[(CM, "verify_leaves_membership_from_batch_path", None), (TR, "compute_merkle_tree_batch_path", None), (TR, "new", "MerkleTree<D, L>")],
        harnesses=[H("c09_completeness_n%d_m%d" % sh, "bounded", COMP, FN, bound="n = %d leaves (symbolic bytes), selection mask %d" % sh, replay="none", timeout=900,
                     tier=("thorough" if sh[0] == 4 else "quick")) for sh in [(1, 1), (2, 1), (2, 2), (2, 3), (3, 1), (3, 2), (3, 3), (3, 4), (3, 5), (3, 6), (3, 7), (4, 5), (4, 10), (4, 15)]]
        + [H("c09_soundness_n%d_k%d_v%d" % sh, "bounded", SOUND, FN, bound="n = %d leaves, %d claimed leaves, %d path values (all symbolic), wire indices < 8" % sh, replay="none", timeout=900,
             tier=("thorough" if sh in [(3, 2, 2), (3, 1, 3)] else "quick")) for sh in [(2, 1, 0), (2, 1, 1), (2, 1, 2), (2, 2, 0), (2, 2, 1), (3, 1, 1), (3, 1, 2), (3, 1, 3), (3, 2, 0), (3, 2, 1), (3, 2, 2)]]
        )],
    verus=[VerusUnit("heap_index", "verus/C09/heap_index.tmpl.rs",
                     "extracted parent/left_child/right_child/sibling: parent(left_child(i)) == parent(right_child(i)) == i, sibling involutive, siblings share their parent, parity <=> left/right child, no overflow below usize::MAX/2; leaf layout lemma",
                     ["merkle_tree::parent", "merkle_tree::left_child", "merkle_tree::right_child", "merkle_tree::sibling"])],
    assumptions=[
        "hash = ideal (collision-free, memoised) function: the real generic tree/commitment code is executed at this Digest implementation; Blake2b itself is not verified",
        "tree size bounded (n <= 3 quick, n = 4 thorough), one harness per concrete shape (selection resp. number of claimed leaves / path values), contents symbolic; wire indices < 8 (overflow of `i + next_power_of_two - 1` for huge indices is a C05 matter)",
        "generic Merkle tree / nested map in internal/mithril-merkle-tree delegate to ckb-merkle-mountain-range (external algorithm): NOT under contract here; MKProof/MKMapProof linking rules are not decided in this unit",
        "to_cbor_bytes (error decoration only) stubbed",
    ],
    explanation="Generate/verify of the signer-registration Merkle tree checked on the real generic code at an ideal hash for every tree up to the bound, every selection and every proof value; heap-index algebra proved without bound by Verus on the extracted helpers.",
    not_decided=["internal/mithril-merkle-tree MKTree / MKMap proofs (ckb-merkle-mountain-range is external code)", "trees larger than the bound"],
)

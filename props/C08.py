from spec import H, KaniUnit, Property, VerusUnit

EL = "mithril-stm/src/proof_system/concatenation/eligibility.rs"
PROP = Property(
    "C08", "proof",
    kani=[KaniUnit(
        crate="mithril-stm",
        attach=[(EL, "contracts/mithril-stm/c08_eligibility.rs", "verif_c08")],
        anchors=[(EL, "is_lottery_won", None), (EL, "taylor_comparison", None)],
        harnesses=[H("c08_phi_f_one_always_wins", "full", "phi_f == 1.0 ==> is_lottery_won(phi_f, ev, stake, total) for all 2^512 draws, all stakes and totals", ["is_lottery_won"], timeout=600)])],
    verus=[
        VerusUnit("signer_verifier", "verus/C08/signer_verifier.tmpl.rs",
                  "extracted text of ConcatenationProofSigner::check_lottery: returns exactly the strictly increasing list of indices i < m with is_lottery_won(phi_f, dense(sigma, msg||commitment, i), stake, total_stake) "
                  "- the same predicate on the same operands that check_indices (below) demands of every index, so signer and verifier decide identically",
                  ["ConcatenationProofSigner::check_lottery"]),
        VerusUnit("check_indices", "verus/C01/check_indices.tmpl.rs",
                  "verifier side (shared with C01): Ok ==> every index < m and is_lottery_won(phi_f, dense(sigma,msg,index), stake, total)",
                  ["SingleSignatureForConcatenation::check_indices"]),
        VerusUnit("zero_stake", "verus/C08/zero_stake.tmpl.rs",
                  "extracted text of the decision procedure (num-integer backend): taylor_comparison(bound, cmp, x) with x = 0 and cmp >= 1 returns false for EVERY bound (loop with inductive invariant over exact rational "
                  "arithmetic); is_lottery_won(phi_f, ev, 0, total) is false for every draw value, every total > 0 and every phi_f that is not 1 (zero stake always loses); phi_f = 1 ==> won",
                  ["is_lottery_won", "taylor_comparison"]),
        VerusUnit("draw_monotone", "verus/C08/draw_monotone.tmpl.rs",
                  "ADVISORY unit, extracted text of the decision procedure: the real taylor_comparison loop computes decide(x, 0, bound, cmp) = 'the first iteration at which cmp leaves [lo_k(x), hi_k(x)] decides, undecided after bound iterations = lost' "
                  "(lo_k / hi_k functions of x only, defined with the operator specifications the loop uses); lemma: decide is monotone in cmp (induction; only transitivity of the rational order); lemma: for every phi_f, stake and total > 0 "
                  "a SMALLER DRAW VALUE NEVER TURNS WON INTO LOST (is_lottery_won is monotone in ev)",
                  ["is_lottery_won", "taylor_comparison"], advisory=True),
    ],
    replays=[dict(crate="mithril-stm", file=EL, module="replays/c08_eligibility.rs"),
             dict(crate="mithril-stm", file="mithril-stm/src/proof_system/concatenation/signer.rs", module="replays/c08_lottery.rs"),
             dict(crate="mithril-stm", file="mithril-stm/src/proof_system/concatenation/single_signature.rs", module="replays/c01_sig.rs")],
    assumptions=[
        "PARTIAL: the boundary clauses phi_f = 1 (always won) and stake = 0 (always lost), monotonicity in the DRAW VALUE, and the clause 'identical decision for signer and verifier' are decided",
        "draw_monotone is an ADVISORY unit: its intermediate specification (the loop state after k iterations) mirrors the loop's arithmetic, which the property does not prescribe; a change of that arithmetic makes the loop invariant fail "
        "without breaking monotonicity, so a failure of this unit is reported as a violation only if the replay scenarios (byte-wise refinement of the 512-bit draw space around the flip, 6 parameter sets) reproduce a flip on the real code, "
        "otherwise as undecided; on the unchanged tree the unit is a complete proof of the clause (all draws, all stakes and totals, any phi_f); nonlinear integer arithmetic only inside three small lemmas (by(nonlinear_arith))",
        "zero_stake unit: num_rational::Ratio<BigInt> / num_bigint::BigInt are specified EXACTLY as fractions n/d and integers (every operator contract gives a representative of the exact result; zero is kept as 0/1 and x + 0 as x - "
        "the library normalises anyway and comparisons are by cross-multiplication, so the representative does not matter); that the num crates implement exact arithmetic is assumed; the f64 test |phi_f - 1| < EPSILON, "
        "f64 ln + Ratio::from_float and the constant 2^512 are contract fns (ln's value is irrelevant for zero stake: it is multiplied by 0); `a += b` is rewritten to `a = a + b`, `for _ in` to a named loop variable, One::one() to the "
        "typed constructor; total_stake > 0 is a precondition (a closed registration has a positive total stake)",
        "is_lottery_won is one function called by both sides; in the Verus units it is an uninterpreted function of (phi_f, draw, stake, total) - its determinism is that of num-bigint/num-rational/f64::ln (assumed)",
        "exactness of the Taylor evaluation against 1-(1-phi_f)^(stake/total), and monotonicity in the STAKE are NOT decided: they go through f64::ln, Ratio::from_float and unbounded rational arithmetic, for which neither verifier has a theory (Verus: no exp/ln; CBMC: BigInt loops do not terminate symbolically); the error factor 3 in taylor_comparison is only a valid tail bound for x <= 2, i.e. phi_f <= 1 - e^-2 (hand analysis, DESIGN.md)",
        "the rug back end (not built by default) is not covered",
    ],
    explanation="Partial: the zero-stake clause by Verus on the extracted decision procedure with exact rational arithmetic (loop invariant, any iteration bound); the phi_f = 1 clause by a loop-free Kani harness over the full input domain; signer/verifier agreement by Verus on the extracted text of both loops against one uninterpreted lottery predicate.",
    not_decided=["exactness vs the real-valued threshold", "monotonicity in the stake", "numerically negligible band"],
)

from spec import H, KaniUnit, Property, VerusUnit

SS = "mithril-stm/src/proof_system/concatenation/single_signature.rs"
PR = "mithril-stm/src/proof_system/concatenation/proof.rs"
AK = "mithril-stm/src/proof_system/concatenation/aggregate_key.rs"

PRE_POST = ("Ok((sigs,vks)) ==> all indices over all signatures pairwise distinct, each < m, each WON with the signature's own committed stake and avk.total_stake on msg||root; count >= k; "
            "Merkle membership of [(vk_j, stake_j)] in order checked against avk commitment with this proof's batch path; (sigs,vks) == [(sigma_j, vk_j)]")
PRE_FN = ["ConcatenationProof::preliminary_verify", "SingleSignature::check_indices", "ConcatenationProof::collect_signatures_verification_keys"]
PROP = Property(
    "C01", "proof",
    kani=[KaniUnit(
        crate="mithril-stm",
        env={"RUSTFLAGS": "-Zcrate-attr=feature(allocator_api)"},  # the HashSet<T, S, A> contract stubs name the allocator parameter
        attach=[(SS, "contracts/mithril-stm/c01_common.rs", "verif_c01_common"),
                (AK, "contracts/mithril-stm/c01_avk_ctor.rs", "verif_c01_avk"),
                (PR, "contracts/mithril-stm/c01_proof.rs", "verif_c01_proof")],
        anchors=[(SS, "check_indices", "impl SingleSignatureForConcatenation"), (SS, "verify", "impl SingleSignatureForConcatenation"),
                 (PR, "preliminary_verify", None), (PR, "verify", None), (PR, "batch_verify", None)],
        harnesses=[
            H("c01_check_indices_two_indices", "bounded",
              "Ok ==> forall index in indexes: index < params.m and lottery(phi_f, dense(sigma, msg, index), stake, total) was evaluated and WON",
              ["SingleSignatureForConcatenation::check_indices"], bound="<= 2 indices (unbounded version: Verus unit check_indices); all u64 values symbolic", replay="none"),
            H("c01_single_signature_verify", "bounded",
              "Ok ==> BlsSignature::verify(sigma, msg||avk.root, pk) succeeded for the given pk, and check_indices post for (msg||root, stake, avk.total_stake)",
              ["SingleSignatureForConcatenation::verify"], bound="1 index, 1-byte message, 1-byte root", replay="none"),
        ] + [H("c01_preliminary_verify_n%d_%d_%d" % sh, "bounded", PRE_POST, PRE_FN, bound="shape: %d signatures with (%d, %d) indices; all values symbolic (u64 indices, stakes, k, m; phi_f; message, root)" % ((sh[0],) + sh[1:]),
               replay="none", timeout=900, tier=("thorough" if sh in [(2, 2, 2)] else "quick")) for sh in [(0, 0, 0), (1, 1, 0), (1, 2, 0), (2, 1, 1), (2, 2, 1), (2, 2, 2)]]
          + [H("c01_verify_n%d_%d_%d" % sh, "bounded", "Ok ==> preliminary_verify post and BlsSignature::verify_aggregate(msg||root, [vk_j], [sigma_j]) succeeded on exactly the contained (signature, committed key) pairs",
               ["ConcatenationProof::verify"], bound="shape: %d signatures with (%d, %d) indices" % sh, replay="none", timeout=900, tier=("thorough" if sh == (2, 2, 1) else "quick")) for sh in [(1, 1, 0), (2, 1, 1), (2, 2, 1)]]
        )],
    verus=[VerusUnit(
        "check_indices", "verus/C01/check_indices.tmpl.rs",
        "extracted text of check_indices: Ok ==> forall j < |indexes|: indexes[j] < m and lottery(phi_f, dense(sigma,msg,indexes[j]), stake, total) (unbounded number of indices); "
        "lemma: number of insertions == |set| ==> inserted sequence has no duplicates (counting kernel of preliminary_verify)",
        ["SingleSignatureForConcatenation::check_indices"], paired_kani=["c01_check_indices_two_indices"])],
    assumptions=[
        "blst BLS signature / aggregate verification sound (contract stubs; the harnesses prove which operands they are called on)",
        "random-coefficient aggregation in BlsSignature::aggregate / batch_verify_aggregates sound (assumed)",
        "evaluate_dense_mapping is a function of (sigma, msg, index) (Blake2b, assumed)",
        "Merkle membership check is a contract stub here; its own contract is decided under C09",
        "is_lottery_won is a contract stub here; decided (partly) under C08",
        "std HashSet<u64> executed for real with fixed RandomState keys; hashbrown assumed to implement a set",
        "re-encodings (JSON/CBOR/legacy bytes) are not part of this unit: contracts are on the decoded value (decoders: C05)",
    ],
    explanation="Every clause of C01 is a postcondition over a ghost log of the cryptographic callees' invocations, proved on the real functions by Kani (bounded in the number of signatures/indices) and, for the per-index loop, by Verus on the extracted text without bound.",
    not_decided=["soundness of the BLS primitives themselves", "equivalence of the wire encodings (C05)"],
)

from spec import H, KaniUnit, Property, VerusUnit

SS = "mithril-stm/src/proof_system/concatenation/single_signature.rs"
PR = "mithril-stm/src/proof_system/concatenation/proof.rs"
AK = "mithril-stm/src/proof_system/concatenation/aggregate_key.rs"

PRE_POST = ("Ok((sigs,vks)) ==> all indices over all signatures pairwise distinct, each < m, each WON with the signature's own committed stake and avk.total_stake on msg||root; count >= k; "
            "Merkle membership of [(vk_j, stake_j)] in order checked against avk commitment with this proof's batch path; (sigs,vks) == [(sigma_j, vk_j)]")
PRE_FN = ["ConcatenationProof::preliminary_verify", "SingleSignature::check_indices", "ConcatenationProof::collect_signatures_verification_keys"]
PROP = Property(
    "C01", "proof",
    kani=[KaniUnit(
        crate="mithril-stm",
        env={"RUSTFLAGS": "-Zcrate-attr=feature(allocator_api)"},  # the HashSet<T, S, A> contract stubs name the allocator parameter
        attach=[(SS, "contracts/mithril-stm/c01_common.rs", "verif_c01_common"),
                (AK, "contracts/mithril-stm/c01_avk_ctor.rs", "verif_c01_avk"),
                (PR, "contracts/mithril-stm/c01_proof.rs", "verif_c01_proof")],
        anchors=[(SS, "check_indices", "impl SingleSignatureForConcatenation"), (SS, "verify", "impl SingleSignatureForConcatenation"),
                 (PR, "preliminary_verify", None), (PR, "verify", None), (PR, "batch_verify", None)],
        harnesses=[
            H("c01_check_indices_two_indices", "bounded",
              "Ok ==> forall index in indexes: index < params.m and lottery(phi_f, dense(sigma, msg, index), stake, total) was evaluated and WON",
              ["SingleSignatureForConcatenation::check_indices"], bound="<= 2 indices (unbounded version: Verus unit check_indices); all u64 values symbolic", replay="custom:replay_check_indices"),
            H("c01_single_signature_verify", "bounded",
              "Ok ==> BlsSignature::verify(sigma, msg||avk.root, pk) succeeded for the given pk, and check_indices post for (msg||root, stake, avk.total_stake)",
              ["SingleSignatureForConcatenation::verify"], bound="1 index, 1-byte message, 1-byte root", replay="custom:replay_check_indices,replay_verify"),
        ]
          + [H("c01_collect_signatures_verification_keys_in_order", "bounded", "returned (sigs, vks) == [(sigma_j, committed key_j)] in signature order (contract assumed by the Verus unit preliminary_verify)",
               ["ConcatenationProof::collect_signatures_verification_keys"], bound="2 signatures", replay="none", timeout=600)]
        )],
    verus=[VerusUnit(
        "check_indices", "verus/C01/check_indices.tmpl.rs",
        "extracted text of check_indices: Ok ==> forall j < |indexes|: indexes[j] < m and lottery(phi_f, dense(sigma,msg,indexes[j]), stake, total) (unbounded number of indices); "
        "lemma: number of insertions == |set| ==> inserted sequence has no duplicates (counting kernel of preliminary_verify)",
        ["SingleSignatureForConcatenation::check_indices"], paired_kani=["c01_check_indices_two_indices"]),
        VerusUnit(
        "preliminary_verify", "verus/C01/preliminary_verify.tmpl.rs",
        "extracted text of ConcatenationProof::preliminary_verify / verify and the accessors they use, unbounded in signatures and indices: Ok ==> every index of every signature < m and WON with that "
        "signature's own committed stake and the avk's total stake on msg||root; all indices over all signatures pairwise distinct (flat sequence has no duplicates); their number >= k; "
        "Merkle membership of [(vk_j, stake_j)] in signature order against the avk commitment with this proof's batch path; returned operands == [(sigma_j, vk_j)]; verify additionally: "
        "BLS aggregate verification of msg||root on exactly those operands; batch_verify: Ok ==> EACH member passes preliminary_verify with ITS OWN message, aggregate key and parameters, and the batched BLS check ran on "
        "each member's own aggregated (keys, signatures) and its own msg||root",
        ["ConcatenationProof::preliminary_verify", "ConcatenationProof::verify", "ConcatenationProof::batch_verify", "AggregateSignature::verify (dispatch)", "AggregateVerificationKey::to_concatenation_aggregate_verification_key", "SingleSignature::check_indices", "SingleSignature::get_concatenation_signature_indices",
         "SingleSignature::get_concatenation_signature_sigma", "SingleSignatureForConcatenation::get_indices", "SingleSignatureForConcatenation::get_sigma",
         "ClosedRegistrationEntry::get_stake", "ClosedRegistrationEntry::get_verification_key_for_concatenation", "AggregateVerificationKeyForConcatenation::get_total_stake"],
        paired_kani=["c01_preliminary_verify_n1_1_0", "c01_preliminary_verify_n1_2_0"])],
    replays=[dict(crate="mithril-stm", file=SS, module="replays/c01_sig.rs")],
    assumptions=[
        "blst BLS signature / aggregate verification sound (contract stubs; the harnesses prove which operands they are called on)",
        "random-coefficient aggregation in BlsSignature::aggregate / batch_verify_aggregates sound (assumed)",
        "evaluate_dense_mapping is a function of (sigma, msg, index) (Blake2b, assumed)",
        "Merkle membership check is a contract stub here; its own contract is decided under C09",
        "is_lottery_won is a contract stub here; decided (partly) under C08",
        "std HashSet<u64>: in Verus vstd's specification of std::collections::HashSet (insert / len as a mathematical set); in the Kani harnesses HashSet::insert / len are contract stubs over a ghost array (hashbrown executed symbolically does not terminate) - std HashSet assumed to implement a set",
        "Verus extraction rewrites for preliminary_verify (complete list in the template): StmResult<T> -> Result<T, AggregationError>; .with_context(..) removed; `for x in self.signatures.clone()` -> `for x in it: self.signatures.iter()`; `for &index in &E` -> `let verif_indices = E; for index in it2: verif_indices.iter() { let index = *index;`; Err(anyhow!(E)) -> Err(E); the iterator expression building `leaves` (filter_map/collect) -> collect_leaves contract (checked by the Kani harnesses); generic parameter <D> dropped",
        "batch_verify rewrites: the three assert_eq! on slice lengths become the precondition; `for (idx, g) in v.iter().enumerate()` -> `for idx in 0..n { let g = &v[idx];`; the three map/collect / zip expressions -> contract fns; `.unwrap()` on BlsSignature::aggregate -> `?`",
        "total number of indices in one aggregate <= usize::MAX (counter overflow precondition; memory-bounded in reality)",
        "AggregateSignature::batch_verify (grouping by type through HashMap / fold / try_for_each closures) is not under contract; AggregateSignature::verify is (default features: only the Concatenation variant exists)",
        "Kani harnesses on the real preliminary_verify / verify (shapes 0..2 signatures x 0..2 indices, contract stubs for HashSet, Merkle, BLS, lottery) and on the membership operands were built (contracts/mithril-stm/c01_proof.rs) but every one of them exceeds 9 GB or 50 min in CBMC on this code (Vec clones, IntoIter drops, hashbrown) and they are NOT registered: the iterator expression that builds the Merkle leaves inside preliminary_verify is therefore an assumed contract (collect_leaves) of the Verus unit, checked by no harness",
        "re-encodings (JSON/CBOR/legacy bytes) are not part of this unit: contracts are on the decoded value (decoders: C05)",
    ],
    explanation="Every clause of C01 is a postcondition over a ghost log of the cryptographic callees' invocations, proved on the real functions by Kani (bounded in the number of signatures/indices) and, for the per-index loop, by Verus on the extracted text without bound.",
    not_decided=["soundness of the BLS primitives themselves", "equivalence of the wire encodings (C05)"],
)

from spec import H, KaniUnit, Property, VerusUnit

VK = "mithril-stm/src/signature_scheme/bls_multi_signature/verification_key.rs"
RE = "mithril-stm/src/protocol/key_registration/registration_entry.rs"
CRE = "mithril-stm/src/protocol/key_registration/closed_registration_entry.rs"
LF = "mithril-stm/src/membership_commitment/merkle_tree/leaf.rs"
PROP = Property(
    "C06", "proof",
    kani=[KaniUnit(
        crate="mithril-stm",
        jobs=6,
        attach=[(RE, "contracts/mithril-stm/c06_order.rs", "verif_c06")],
        anchors=[(VK, "compare_verification_keys", None), (RE, "cmp", "impl Ord for RegistrationEntry"), (CRE, "cmp", "impl Ord for ClosedRegistrationEntry"), (LF, "cmp", "impl Ord for MerkleTreeConcatenationLeaf")],
        harnesses=[
            H("c06_key_order_is_lexicographic_on_encoding", "unwind", "BlsVerificationKey::cmp == lexicographic cmp of the 96-byte encodings; PartialOrd agrees; antisymmetric (all 2x96 symbolic bytes)",
              ["BlsVerificationKey::compare_verification_keys", "impl Ord for BlsVerificationKey", "impl PartialOrd for BlsVerificationKey"], bound="96-byte compare loop fully unrolled (unwinding assertions on)", replay="none"),
            H("c06_key_order_is_transitive", "unwind", "a <= b and b <= c ==> a <= c for all 3x96 symbolic bytes", ["BlsVerificationKey::compare_verification_keys"], bound="96-byte loop fully unrolled", replay="none", timeout=900),
            H("c06_entry_orders_are_stake_then_key", "unwind", "RegistrationEntry / ClosedRegistrationEntry / MerkleTreeConcatenationLeaf: cmp == stake.cmp.then(key encoding cmp); PartialOrd agrees; antisymmetric",
              ["impl Ord for RegistrationEntry", "impl Ord for ClosedRegistrationEntry", "impl Ord for MerkleTreeConcatenationLeaf"], bound="96-byte loop fully unrolled", replay="none", timeout=900),
        ])],
    verus=[VerusUnit("signer_builder", "verus/C06/signer_builder.tmpl.rs",
                     "extracted text of mithril-common SignerBuilder::new (the function through which signer, aggregator and client derive the aggregate key): Ok ==> exactly one registration request per listed signer, in order, "
                     "each carrying THAT signer's own party id / opcert / key / key signature / KES evolutions, against the stake distribution derived from the same list, closed with the given protocol parameters",
                     ["SignerBuilder::new"]),
           VerusUnit("paths", "verus/C06/paths.tmpl.rs",
                     "extracted text of the client's and the signer's computation paths: mithril-client MessageBuilder::compute_mithril_stake_distribution_message Ok ==> the message is the certificate's protocol message with "
                     "NextAggregateVerificationKey := json_hex(key SignerBuilder derives from exactly (the distribution's decoded signers, the distribution's parameters)) and nothing else changed; "
                     "mithril-signer MithrilSingleSigner::build_protocol_single_signer Ok ==> the signer is the one SignerBuilder restores from exactly (the epoch's current signers with stake, the key material's own parameters) for this party and this key material",
                     ["mithril-client MessageBuilder::compute_mithril_stake_distribution_message", "mithril-signer MithrilSingleSigner::build_protocol_single_signer"]),
           VerusUnit("aggregator_epoch_service", "verus/C20/aggregator_epoch_service.tmpl.rs",
                     "extracted text of the aggregator's path (shared with C20): MithrilEpochService::precompute_epoch_data Ok ==> both aggregate keys and both multi-signers are SignerBuilder's results for exactly "
                     "(signers in force, parameters for aggregation) and (next signers, parameters for next aggregation)",
                     ["aggregator MithrilEpochService::precompute_epoch_data", "aggregator MithrilEpochService::inform_epoch", "aggregator MithrilEpochService::update_next_signers_with_stake"])],
    replays=[dict(crate="mithril-client", file="mithril-client/src/message.rs", module="replays/c06_client_message.rs", features="rustls"),
             dict(crate="mithril-common", file="mithril-common/src/protocol/signer_builder.rs", module="replays/c06_signer_builder.rs"),
             dict(crate="mithril-signer", file="mithril-signer/src/services/single_signer.rs", module="replays/c06_signer_single_signer.rs"),
             dict(crate="mithril-aggregator", file="mithril-aggregator/src/services/epoch_service.rs", module="replays/c20_aggregator_epoch_service.rs")],
    assumptions=[
        "SignerBuilder::new: KeyRegWrapper (init / register / close) as an abstract registration recording its stake map and accepted requests (register's own contract: C07); the map/collect building the stake distribution is a contract fn; .with_context removed; strip_cfg future_snark",
        "BlsVerificationKey::to_bytes (blst compress, FFI) is a contract stub: a fixed 96-byte encoding per key; blst point equality coincides with equality of that encoding (canonical compressed form) - assumed",
        "std BTreeSet iteration order is determined by Ord (assumed contract on the dependency): with the proved total order the iteration order, hence leaf order, signer slots and Merkle root, is a function of the set of (key, stake) pairs",
        "order independence of KeyRegistration::register_by_entry + close_registration as executed code (BTreeSet/HashSet of blst keys) is not run symbolically; JSON/hex round trips and 'distinct sets => distinct keys' (Merkle collision resistance) are not decided",
        "the three computation paths (signer: build_protocol_single_signer, aggregator: precompute_epoch_data, client: compute_mithril_stake_distribution_message) are under contract (units paths, aggregator_epoch_service): each hands exactly its "
        "signer list and parameters to SignerBuilder::new and uses the result unchanged; SignerBuilder's methods, ProtocolKey JSON-hex encoding, SignerWithStakeMessagePart::try_into_signers (hex decoding) and the epoch services are callee contracts "
        "over uninterpreted functions; rewrites: async/.await, with_context/map_err removed, RwLock read guard -> reference, Vec/String clones -> contract fns, strip_cfg future_snark",
    ],
    explanation="The ordering laws of the registration entry types are proved on the real Ord impls (complete unrolling of the 96-byte loop); they are exactly what makes a BTreeSet's iteration order independent of insertion order.",
    not_decided=["serde round trips of keys and signer lists", "distinct registration sets give distinct aggregate keys (collision resistance)", "total_stake / close_registration executed symbolically"],
)

from spec import H, KaniUnit, Property, VerusUnit

CV = "mithril-common/src/certificate_chain/certificate_verifier.rs"
EP = "mithril-common/src/entities/epoch.rs"
CC = "mithril-client/src/certificate_client/verify.rs"
PROP = Property(
    "C03", "proof",
    kani=[KaniUnit(
        crate="mithril-common",
        attach=[(EP, "contracts/mithril-common/c20_epoch.rs", "verif_c20")],
        contracts=[dict(file=EP, fn="has_gap_with", within="impl Epoch",
                        attrs=["#[cfg_attr(kani, kani::ensures(|r: &bool| *r == !(self.0 == other.0 || (self.0 < u64::MAX && self.0 + 1 == other.0) || (other.0 < u64::MAX && other.0 + 1 == self.0))))]"])],
        anchors=[(EP, "has_gap_with", "impl Epoch")],
        harnesses=[H("c03_has_gap_with_contract", "contract",
                     "#[kani::ensures] on the real Epoch::has_gap_with, all 2^128 inputs: false exactly when the epochs are equal or adjacent", ["Epoch::has_gap_with"])])],
    verus=[VerusUnit(
        "verifier", "verus/C03/verifier.tmpl.rs",
        "extracted real text of the certificate verifier: verify_certificate Ok(Some(p)) ==> p is the retriever's answer for previous_hash and standard_link(c,p) = integrity(c) "
        "(multi-signature kind, hash != previous_hash, hash == H(content), signed_message == digest(protocol_message), multi-signature valid for signed_message under the certificate's own "
        "aggregate key and parameters, epoch inside signed message) and epoch_link (same or immediately preceding epoch) and hash_link and avk_link and params_link; "
        "Ok(None) ==> genesis_ok(c) (genesis signature valid under the configured key, hash, signed message, epoch); every sub-check's own postcondition",
        ["Epoch::has_gap_with", "Certificate::is_chaining_to_itself", "Certificate::is_genesis",
         "MithrilCertificateVerifier::verify_is_not_in_infinite_loop", "MithrilCertificateVerifier::verify_hash_matches_content",
         "MithrilCertificateVerifier::verify_previous_hash_matches_previous_certificate_hash", "MithrilCertificateVerifier::verify_epoch_chaining",
         "MithrilCertificateVerifier::verify_signed_message_matches_hashed_protocol_message", "MithrilCertificateVerifier::verify_protocol_parameters_chaining",
         "MithrilCertificateVerifier::verify_concatenation_aggregate_verification_key_chaining", "MithrilCertificateVerifier::verify_aggregate_verification_key_chaining",
         "MithrilCertificateVerifier::verify_standard_certificate_integrity", "MithrilCertificateVerifier::verify_genesis_certificate",
         "MithrilCertificateVerifier::verify_standard_certificate", "MithrilCertificateVerifier::verify_certificate", "CertificateVerifier::verify_certificate_chain (default method)"]),
        VerusUnit(
        "client_verify_chain", "verus/C03/client_verify_chain.tmpl.rs",
        "extracted real text of mithril-client's chain walk (certificate_client/verify.rs, default features): verify_without_cache Ok ==> the common verifier accepted this certificate "
        "(Ok(None) ==> as a chain root, Ok(Some(p)) ==> linked to p); verify_with_cache_enabled (no cache in default builds) Ok(None) ==> a chain root was accepted, "
        "Ok(Some(_)) ==> the next certificate to verify is the verifier's answer; verify_chain Ok ==> the certificate handed in was itself verified AND the walk ended at a "
        "certificate the common verifier accepted as a chain root (two loops with inductive invariants; partial correctness)",
        ["mithril-client MithrilCertificateVerifier::verify_chain", "mithril-client MithrilCertificateVerifier::verify_with_cache_enabled",
         "mithril-client MithrilCertificateVerifier::verify_without_cache", "mithril-client MithrilCertificateVerifier::fetch_cached_previous_hash (not(unstable))",
         "mithril-client CertificateToVerify::hash"]),
        VerusUnit(
        "client_verify_chain_cache", "verus/C03/client_verify_chain_cache.tmpl.rs",
        "extracted real text of mithril-client's chain walk AS COMPILED WITH the cargo feature `unstable` (certificate-verifier cache; enabled by the workspace build and mithril-client-cli): "
        "verify_with_cache_enabled Ok ==> the certificate handed in is vouched for: the common verifier accepts it now, or its hash is in the cache AND (when its content was downloaded and used to judge the "
        "certificate chained to it) that content hashes to this very hash; a ToDownload answer only comes from the cache; verify_without_cache Ok ==> verified; fetch_cached_previous_hash == the cache's answer",
        ["mithril-client MithrilCertificateVerifier::verify_with_cache_enabled (unstable)", "mithril-client MithrilCertificateVerifier::verify_without_cache (unstable)",
         "mithril-client MithrilCertificateVerifier::fetch_cached_previous_hash (unstable)"])],
    replays=[dict(crate="mithril-common", file=CV, module="replays/c03_verifier.rs"),
             dict(crate="mithril-client", file=CC, module="replays/c03_client_cache.rs", features="rustls,unstable"),
             dict(crate="mithril-client", file=CC, module="replays/c03_client.rs", features="rustls")],
    assumptions=[
        "SHA-256 / hex hashing of certificates, protocol messages and parameters: uninterpreted functions of the value (collision resistance assumed, not proved)",
        "multi-signature verification (ProtocolMultiSignature::verify = mithril-stm AggregateSignature::verify) is a callee contract here; its own contract is C01",
        "Ed25519 genesis signature verification assumed sound",
        "ProtocolKey::try_from(&str) (JSON-hex decoding of the next aggregate key) is a partial function of the string",
        "entities are declared in Verus with exactly the fields the verifier reads (Certificate, CertificateMetadata, CertificateSignature); ProtocolParameters / aggregate key equality are the real PartialEq impls as uninterpreted relations",
        "verify_epoch_matches_protocol_message (let-chain, not accepted by Verus) is an assumed callee contract: Ok ==> message[CurrentEpoch] == epoch.to_string(); "
        "verify_multi_signature and fetch_previous_certificate likewise (logging / async retriever)",
        "extraction rewrites (complete list in the template): StdResult<T> -> Result<T, CertificateVerifierError>; Err(anyhow!(E)) -> Err(E); debug!(..) statements and .with_context(..) removed; async fn -> fn and .await removed; closure headers given types and ensures clauses; x.as_bytes() -> string_as_bytes(&x)",
        "'reaches genesis in finitely many steps' follows from the per-link contract plus acyclicity (hash covers previous_hash under SHA-256): assumed, not proved; the default verify_certificate_chain loop is verified for partial correctness only (Ok ==> the walk ended at a certificate that verify_certificate accepted as genesis; `while let` desugared to loop/break; termination explicitly not claimed: #[verifier::exec_allows_no_decreases_clause])",
        "mithril-client units: client_verify_chain is the default build (items under the cargo feature `unstable` stripped), client_verify_chain_cache is the build WITH `unstable` (cfg(not(unstable)) items dropped): "
        "there a certificate whose hash is in the local cache is not re-verified (by design; entries are stored only after a successful verification); the cache itself (an async trait object) is a callee contract "
        "(get_previous_hash answers from an uninterpreted map hash -> previous hash), that its entries stem from successful verifications is the store call site in verify_without_cache (after verify_certificate succeeded) "
        "plus trust in the local cache's integrity and expiry; the verify_chain loops are proved in the default unit only; feedback events and trace! logging are removed; let-chains rewritten to plain conditions; "
        "the common verifier behind `internal_verifier: Arc<dyn CertificateVerifier>` is the callee contract proved by unit verifier; TryFrom<CertificateMessage> for Certificate is an uninterpreted relation",
        "the future_snark feature (off in default builds) is not covered; AggregateSignatureType::certifies_full_certificate_chain is false for the concatenation type",
    ],
    explanation="The acceptance rule is verified modularly by Verus on the function text extracted from the working tree: each guard against its clause of the statement, each composite against the conjunction of its callees' contracts, so a dropped or weakened conjunct fails a named obligation.",
    not_decided=["integrity / expiry of the local verifier cache store, HTTP retrieval", "termination / reaching genesis (needs hash acyclicity)"],
)

from spec import H, KaniUnit, Property, VerusUnit

SEC = "mithril-common/src/entities/signed_entity_config.rs"
BR = "mithril-common/src/entities/block_range.rs"
TXF = "CardanoTransactionsSigningConfig::compute_block_number_to_be_signed"
BLF = "CardanoBlocksTransactionsSigningConfig::compute_block_number_to_be_signed"

PROP = Property(
    "C17", "proof",
    kani=[KaniUnit(
        crate="mithril-common",
        jobs=14,
        attach=[(SEC, "contracts/mithril-common/c17_signed_entity_config.rs", "verif_c17")],
        anchors=[(SEC, "compute_block_number_to_be_signed", "impl CardanoTransactionsSigningConfig"),
                 (SEC, "compute_block_number_to_be_signed", "impl CardanoBlocksTransactionsSigningConfig"),
                 (SEC, "compute_block_number_to_be_signed", "<toplevel>"),
                 (SEC, "time_point_to_signed_entity", "impl SignedEntityConfig"),
                 (BR, "from_block_number", "impl BlockRange"), (BR, "is_fully_covered_at", "impl BlockRange")],
        harnesses=[
            H("c17_blocks_le_margin_and_within_one_step", "full",
              "forall tip,sec,step:u64. r <= tip.saturating_sub(sec) and (tip.saturating_sub(sec) - r) < max(step,1); no overflow / div-by-zero", [BLF]),
            H("c17_transactions_adjusts_step_and_subtracts_one", "full",
              "forall tip,sec,step (=15k+rem): result == free_fn(tip, sec, max(15k,15)).saturating_sub(1), callee `compute_block_number_to_be_signed` (private fn) as contract stub", [TXF], replay="none"),
            H("c17_transactions_le_margin_and_within_one_step", "full",
              "forall tip,sec,step. r <= x; x >= s ==> (x-(r+1)) < s; x < s ==> r == 0  (x = tip.saturating_sub(sec), s = max(15*(step/15),15)) - direct, slow", [TXF], tier="thorough", timeout=3000),
            H("c17_transactions_no_panic_any_step", "full",
              "forall tip,sec,step:u64 (including step == u64::MAX): a beacon <= tip - sec is selected, no overflow", [TXF]),
            H("c17_op_sub_offset_is_saturating", "full", "BlockNumber - BlockNumberOffset == saturating_sub", ["impl Sub<BlockNumberOffset> for BlockNumber"]),
            H("c17_op_sub_u64_is_saturating", "full", "BlockNumber - u64 == saturating_sub", ["impl_sub_to_wrapper!(BlockNumber, u64)"]),
            H("c17_op_div_characterised", "full", "b != 0 ==> q*b <= a < q*b + b for q = BlockNumber(a) / BlockNumber(b)", ["impl_div_to_wrapper!(BlockNumber, u64)"]),
            H("c17_op_mul_exact_when_no_overflow", "full", "a*b <= u64::MAX ==> BlockNumber(a) * BlockNumber(b) == a*b", ["impl_mul_to_wrapper!(BlockNumber, u64)"]),
            H("c17_op_add_exact_when_no_overflow", "full", "a+b <= u64::MAX ==> BlockNumber(a) + BlockNumber(b) == a+b", ["impl_add_to_wrapper!(BlockNumber, u64)"]),
            H("c17_op_max_and_ge", "full", "derived Ord/PartialOrd/PartialEq on BlockNumber agree with u64", ["#[derive(PartialOrd, Ord, PartialEq)] BlockNumber"]),
            H("c17_block_range_from_block_number_start_end", "full",
              "n < u64::MAX ==> from_block_number(n) == [start(n), start(n)+15)", ["BlockRange::from_block_number", "BlockRange::start"]),
            H("c17_time_point_fn_mithril_stake_distribution", "full", "time_point_to_signed_entity: function of (config, time point); epoch copied", ["SignedEntityConfig::time_point_to_signed_entity"]),
            H("c17_time_point_fn_cardano_stake_distribution", "full", "... previous epoch; fails exactly at epoch 0", ["SignedEntityConfig::time_point_to_signed_entity", "Epoch::previous"]),
            H("c17_time_point_fn_cardano_transactions", "full", "... beacon == config.compute_block_number_to_be_signed(time_point.chain_point.block_number) (callee as uninterpreted contract stub); fails only without config", ["SignedEntityConfig::time_point_to_signed_entity"], replay="none"),
            H("c17_time_point_fn_cardano_blocks_transactions", "full", "... same for blocks; security offset copied from config", ["SignedEntityConfig::time_point_to_signed_entity"], replay="none"),
            H("c17_time_point_fn_cardano_database", "full", "... epoch and immutable file number copied", ["SignedEntityConfig::time_point_to_signed_entity"]),
        ])],
    verus=[VerusUnit(
        "beacon", "verus/C17/beacon.tmpl.rs",
        "extracted real text: blocks beacon == floor_to(tip -sat sec, max(step,1)); transactions beacon == floor_to(tip -sat sec, max(15*(step/15),15)) - 1 (floored at 0); "
        "no arithmetic overflow for any u64 inputs; from these: <= margin, whole steps, monotone in the tip, transactions beacon ends a complete block range",
        [TXF, BLF, "signed_entity_config::compute_block_number_to_be_signed", "BlockRange::start", "BlockRange::start_with_length", "BlockRange::is_fully_covered_at"],
        paired_kani=["c17_transactions_no_panic_any_step", "c17_transactions_le_margin_and_within_one_step", "c17_blocks_le_margin_and_within_one_step"])],
    replays=[dict(crate="mithril-common", file=SEC, module="replays/c17_beacon.rs")],
    assumptions=[
        "machine integers: Kani bit-precise u64 with overflow checks as in debug builds; Verus exec u64 with overflow obligations, spec integers mathematical",
        "operator impls of BlockNumber are assumed in Verus with exactly the contracts the c17_op_* Kani harnesses prove on the real macro-generated impls",
        "BlockRange is declared in Verus with fields start/end standing for its Deref<Target=Range<BlockNumber>>; from_block_number is an external_body contract proved by Kani (c17_block_range_from_block_number_start_end)",
        "std::cmp::max has the std semantics (assume_specification)",
        "'signers and aggregator select the same beacon' is decided as: the conversion is a deterministic function with no reachable external state (Kani fails on reachable FFI/clock/RNG); that both nodes call it with equal configuration is read off the source, not proved",
        "Epoch values < 2^63 in the time-point harnesses (offset_by casts to i64)",
    ],
    explanation="Kani proves per-call postconditions of the real beacon functions over the full 2^192 input domain; Verus verifies the mechanically extracted text of the same functions against a mathematical spec (largest multiple of the adjusted step below the margin) and derives monotonicity / whole-step / block-range-boundary clauses from it by lemmas.",
    not_decided=["that signer and aggregator are configured with equal SignedEntityConfig for an epoch (run-level, async services)"],
)

from spec import H, KaniUnit, Property, VerusUnit

SD = "mithril-common/src/signable_builder/cardano_stake_distribution.rs"
PROP = Property(
    "C11", "proof",
    verus=[
        VerusUnit("proofs", "verus/C11/proofs.tmpl.rs",
                  "extracted text, both proof formats: verify() Ok(v) ==> at least one part; every part's items are leaves proven (MKMapProof verify + contains, per item) by the decoding of that part's own proof string under "
                  "ONE root == v.merkle_root; v's items are exactly the parts' items in order; latest block number / security offset / certificate hash copied unchanged; the client's MessageBuilder rebuilds the signed message from "
                  "the VERIFIED value's root, block number and offset (map update of the certificate's protocol message) - so a response with any of them altered fails the certificate's message match; the stake-distribution message is rebuilt from the served distribution's own Merkle root and epoch",
                  ["CardanoTransactionsSetProof::verify", "CardanoTransactionsSetProof::merkle_root", "CardanoTransactionsSetProof::transactions_hashes", "CardanoTransactionsProofsMessage::verify",
                   "MkSetProof::verify", "MkSetProof::merkle_root", "ProofMessageVerifier::proof_message_into_entity", "ProofMessageVerifier::verify",
                   "CardanoTransactionsProofsV2Message::verify", "CardanoBlocksProofsMessage::verify", "VerifiedCardanoTransactions::fill_protocol_message",
                   "VerifiedCardanoTransactionsV2::{certified_merkle_root, latest_certified_block_number, security_parameter}", "VerifiedCardanoBlocks::{certified_merkle_root, latest_certified_block_number, security_parameter}",
                   "MessageBuilder::compute_cardano_transactions_proofs_message", "MessageBuilder::compute_cardano_transactions_proofs_v2_message", "MessageBuilder::compute_cardano_blocks_proofs_message", "MessageBuilder::compute_cardano_stake_distribution_message"]),
        VerusUnit("stake_leaf", "verus/C11/stake_leaf.tmpl.rs",
                  "extracted text of From<StakeDistributionEntry> for MKTreeNode: leaf == utf8(pool_id ++ dec(stake)); obligation: distinct (pool id, stake) entries have distinct leaves (KNOWN FINDING F-C11-1: fails); "
                  "restricted obligation: identifiers of equal length ==> distinct leaves (holds)",
                  ["From<StakeDistributionEntry> for MKTreeNode"]),
        VerusUnit("mkmap_proof", "verus/C11/mkmap_proof.tmpl.rs",
                  "extracted text of the merkelized-map proof's linking rule (internal/mithril-merkle-tree): MKMapProof::verify() Ok ==> the master proof verifies, EVERY sub-proof verifies (recursive call under the same contract = induction "
                  "hypothesis) and for EVERY (key, sub-proof) pair the node key + root(sub-proof) is a leaf of the master proof (no detached or skipped sub-proof); compute_root() is the master proof's root",
                  ["MKMapProof::verify", "MKMapProof::compute_root"]),
    ],
    replays=[dict(crate="mithril-common", file=SD, module="replays/c11_stake.rs"),
             dict(crate="mithril-common", file="mithril-common/src/messages/cardano_transactions_proof.rs", module="replays/c11_proofs.rs"),
             dict(crate="mithril-merkle-tree", file="internal/mithril-merkle-tree/src/merkle_map.rs", module="replays/c11_mkmap.rs")],
    assumptions=[
        "in the `proofs` unit MKMapProof::verify / contains are callee contracts ('valid proof' and 'leaf of the proof' uninterpreted); the `mkmap_proof` unit puts MKMapProof::verify itself under contract (linking rule master <-> sub-proofs, recursion "
        "verified modularly: the recursive call carries the same contract, partial correctness); below it MKProof::verify (ckb-merkle-mountain-range, external algorithm) and MKProof::contains / MKMapProof::contains (closure scans over the leaves) stay assumed contracts (see C09)",
        "hex / JSON decoding of the proof string (ProtocolMkProof::from_json_hex / from_bytes_hex) is a partial function of the string; item conversion From<message part> is field-by-field (contract)",
        "std::fmt: format!(\"{}{}\", a, b) == Display(a) ++ Display(b); Display of the u64 newtypes is decimal; utf8 and decimal rendering injective (assumed)",
        "String's PartialEq is view equality (axiom_string_eq: vstd specifies == on String but not the PartialEqSpec used for Option<String>)",
        "the transaction / block leaf encoding 'Tx/<hash>/<block hash>/<n>/<slot>' (IntoMKTreeNode) is an uninterpreted function here: its injectivity is not decided",
        "the final comparison of the rebuilt message with the certificate (match_message) is a SHA-256 equality - assumed injective; the async client wrappers (HTTP) are not under contract",
        "extraction rewrites (complete list in the templates): StdResult<T> -> Result<T, StdError>; for-loops over &Vec / iterator adapters -> `for x in it: v.iter()` (+ contract fn for the adapter); closure headers typed; error-decorating closures "
        "simplified; iterator expressions flat_map/collect and items.clone() -> contract fns; `const SUBJECT` -> let; generic parameters dropped; `.to_string()` on &str -> contract method",
    ],
    explanation="Both proof formats and the message reconstruction verified by Verus on the extracted text against 'every reported item is a proven leaf under one root, nothing else is reported, the signed message is rebuilt from the verified value'; the stake-distribution leaf encoding is checked for injectivity and fails (known finding, replayed on the real code).",
    not_decided=["soundness of the Merkle-mountain-range proofs themselves", "injectivity of the transaction/block leaf encoding", "aggregator-side prover services (async)"],
)

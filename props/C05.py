from spec import H, KaniUnit, Property

S = "mithril-stm/src/"
FILES = {
    "proof": S + "proof_system/concatenation/proof.rs",
    "sig_reg": S + "protocol/single_signature/signature_registered_party.rs",
    "sig": S + "protocol/single_signature/signature.rs",
    "path": S + "membership_commitment/merkle_tree/path.rs",
    "commitment": S + "membership_commitment/merkle_tree/commitment.rs",
    "avk": S + "proof_system/concatenation/aggregate_key.rs",
    "closed_entry": S + "protocol/key_registration/closed_registration_entry.rs",
    "tree": S + "membership_commitment/merkle_tree/tree.rs",
    "codec": S + "codec.rs",
}
OBL = "for every byte string of this length: returns Ok or Err; no panic, no unwrap on None, no slice out of bounds, no arithmetic overflow, no capacity overflow / oversized allocation request (Kani built-in checks)"


def hs(prefix, fn, lens, tier_thorough=()):
    return [H("%s_len%d" % (prefix, n), "bounded", OBL, [fn], bound="input length = %d bytes, contents fully symbolic" % n, replay="playback",
              timeout=600, tier=("thorough" if n in tier_thorough else "quick")) for n in lens]


PROP = Property(
    "C05", "other",
    kani=[KaniUnit(
        crate="mithril-stm",
        jobs=14,
        attach=[(FILES["codec"], "contracts/mithril-stm/c05/stubs.rs", "verif_c05_stubs")] + [(FILES[k], "contracts/mithril-stm/c05/%s.rs" % k, "verif_c05_" + k) for k in FILES],
        anchors=[(FILES["proof"], "from_bytes_legacy", None), (FILES["sig_reg"], "from_bytes_legacy", None), (FILES["sig"], "from_bytes_legacy", None),
                 (FILES["path"], "from_bytes_legacy", None), (FILES["commitment"], "from_bytes_legacy", None), (FILES["avk"], "from_bytes_legacy", None),
                 (FILES["closed_entry"], "from_bytes_legacy", None), (FILES["tree"], "from_bytes_legacy", None), (FILES["codec"], "from_versioned_bytes", None)],
        harnesses=(
            hs("c05_concatenation_proof_legacy", "ConcatenationProof::from_bytes_legacy", [0, 8, 20])
            + [H("c05_concatenation_proof_dispatch_len9", "bounded", OBL, ["ConcatenationProof::from_bytes"], bound="9 bytes", timeout=600)]
            + hs("c05_sig_reg_legacy", "SingleSignatureWithRegisteredParty::from_bytes_legacy", [0, 8, 24])
            + [H("c05_sig_reg_dispatch_len9", "bounded", OBL, ["SingleSignatureWithRegisteredParty::from_bytes"], bound="9 bytes", timeout=600)]
            + hs("c05_single_signature_legacy", "SingleSignature::from_bytes_legacy", [0, 8, 32, 72], tier_thorough=(72,))
            + hs("c05_batch_path_legacy", "MerkleBatchPath::from_bytes_legacy", [0, 16, 24, 56], tier_thorough=(56,))
            + hs("c05_batch_commitment_legacy", "MerkleTreeBatchCommitment::from_bytes_legacy", [0, 8, 40])
            + [H("c05_batch_commitment_dispatch_len9", "bounded", OBL, ["MerkleTreeBatchCommitment::from_bytes", "codec::from_versioned_bytes"], bound="9 bytes", timeout=600)]
            + hs("c05_avk_legacy", "AggregateVerificationKeyForConcatenation::from_bytes_legacy", [0, 7, 16, 48])
            + hs("c05_closed_entry_legacy", "ClosedRegistrationEntry::from_bytes_legacy", [0, 100, 104])
            + hs("c05_merkle_tree_legacy", "MerkleTree::from_bytes_legacy", [0, 8, 40])
            + [H("c05_versioned_bytes_dispatch", "bounded", "first byte == 1 => CBOR decoder on the rest only; otherwise legacy decoder on the whole input (<= 3 bytes, all contents)",
                 ["codec::from_versioned_bytes", "codec::has_cbor_v1_prefix"], bound="<= 3 bytes", timeout=300)]
        ))],
    assumptions=[
        "bounded stand-in: every hand-written legacy decoder of mithril-stm on all byte strings of a few stated lengths (chosen around each layout's length fields); never counted as proved",
        "blst point validation (BlsSignature::from_bytes, BlsVerificationKey::from_bytes: FFI) and ciborium (CBOR branch) are contract stubs: they return Ok or Err and never panic - assumed contracts on the dependencies",
        "nested decoders are contract stubs in their callers' harnesses and have their own harnesses (modular)",
        "overflow is checked as in debug builds; in release builds the same additions wrap",
        "allocation on Err paths is not observable by a contract; only allocation requests whose size overflows / exceeds isize::MAX are caught (capacity overflow)",
        "JSON / hex / serde Deserialize entry points of mithril-common and internal/mithril-merkle-tree are external-library decoders: not under contract",
        "round-trip of honest values needs the CBOR/JSON encoders (external libraries): not decided",
    ],
    explanation="Bounded stand-in (level other): Kani's built-in panic / bounds / overflow / capacity checks on the real hand-written legacy decoders for every input of the stated lengths; library decoders are assumed total.",
    not_decided=["round-trip equality decode(encode(v)) == v", "serde_json / ciborium / bincode / hex decoders", "inputs longer than the stated lengths"],
)

from spec import H, KaniUnit, Property, VerusUnit

AV = "mithril-client/src/utils/ancillary_verifier.rs"
MF = "internal/cardano-node/mithril-cardano-node-internal-database/src/entities/ancillary_files_manifest.rs"
PROP = Property(
    "C19", "proof",
    kani=[],
    verus=[VerusUnit(
        "ancillary", "verus/C19/ancillary.tmpl.rs",
        "extracted real text of the ancillary acceptance path: AncillaryFilesManifest::verify_data Ok ==> EVERY listed file is present under the base directory and its content hashes to the listed hash (loop with inductive invariant); "
        "AncillaryVerifier::verify Ok ==> the unpack directory holds a manifest whose data matches, which carries a signature valid under the CONFIGURED key over the manifest's hash, and exactly the listed files are handed on; "
        "DownloadTask::download_unpack_verify_ancillary Ok ==> the archive was unpacked into the TEMPORARY directory and what was moved to the target directory is a manifest validated in that temporary directory",
        ["mithril-client AncillaryVerifier::verify", "AncillaryFilesManifest::verify_data", "mithril-client DownloadTask::download_unpack_verify_ancillary"])],
    replays=[dict(crate="mithril-client", file=AV, module="replays/c19_ancillary_verifier.rs", features="fs,rustls"),
             dict(crate="mithril-cardano-node-internal-database", file=MF, module="replays/c19_manifest.rs")],
    assumptions=[
        "PARTIAL claim: only the ancillary clause of C19 at the level of the three functions above. The immutable-file clause (UnexpectedDownloadedFileVerifier: a spawn_blocking closure over std::fs), tar/zstd unpacking, HTTP download, "
        "ValidatedAncillaryManifest::move_to_final_location (tokio::fs::rename per listed file), removal of the temporary directory after a failed verification (build_download_future) and failure injection on the file system are not under contract",
        "callee contracts over uninterpreted functions: SHA-256 of a file's content as found on disk during the call (compute_file_hash), File::open + serde_json::from_reader (the manifest at <dir>/ancillary_manifest.json), "
        "ManifestVerifier::verify (Ed25519, assumed sound), AncillaryFilesManifest::{signature, compute_hash, files}; the file system is assumed not to change between verification and move (TOCTOU not covered)",
        "the manifest's BTreeMap<PathBuf, String> is viewed as its entry sequence (assumed contract on std)",
        "extraction rewrites (complete list in the template): async/.await removed; &Path -> opaque directory type; Arc<AncillaryVerifier> -> reference; map_err / with_context removed (stubs return the final error type); "
        "the for-loop header over the BTreeMap -> iteration over its entry sequence; File::open / serde_json::from_reader / Path::join(MANIFEST_NAME) -> contract fns; cross-crate calls go through contract twins (verify_data_ext, verify_ext) "
        "whose contracts are the postconditions proved on the extracted functions",
    ],
    explanation="The ancillary acceptance decision is three per-call postconditions chained modularly: data matches, signature under the configured key, only listed files handed on, unpacked into the temporary directory and moved only after validation.",
    not_decided=["immutable files: only the requested range is kept (UnexpectedDownloadedFileVerifier)", "tar/zstd entries cannot escape the unpack directory", "nothing kept when ancillary verification fails (temporary directory removal)",
                 "file moves, TOCTOU between verification and move"],
)

from spec import H, KaniUnit, Property

RP = "internal/mithril-resource-pool/src/resource_pool.rs"
INV = "Inv: resources.len() <= size and every queued resource's generation == *discriminant"
PROP = Property(
    "C18", "proof",
    kani=[KaniUnit(
        crate="mithril-resource-pool",
        jobs=10,
        attach=[(RP, "contracts/mithril-resource-pool/c18_resource_pool.rs", "verif_c18")],
        anchors=[(RP, "acquire_resource", None), (RP, "give_back_resource", None), (RP, "give_back_resource_pool_item", None),
                 (RP, "set_discriminant", None), (RP, "clear", None), (RP, "drop", "Drop for ResourcePoolItem")],
        harnesses=[H("c18_new_establishes_inv", "bounded", "new(size, vec![]) establishes Inv, generation 0", ["ResourcePool::new"], bound="size <= 3")]
        + [H("c18_give_back_resource_contract_%d_%d" % sh, "bounded", INV + " kept; admitted <=> d == discriminant and len < size; frame: other queued resources untouched",
             ["ResourcePool::give_back_resource", "ResourcePool::count", "ResourcePool::discriminant"], bound="pool shape (capacity, queued) = %s; arbitrary generation / identities" % (sh,))
           for sh in [(0, 0), (1, 0), (1, 1), (2, 1), (2, 2)]]
        + [H("c18_acquire_contract_%d_%d" % sh, "bounded", "non-empty: returns the front, item.generation == current generation, item.discriminant() == generation; Inv kept; order kept",
             ["ResourcePool::acquire_resource", "ResourcePoolItem::new"], bound="pool shape %s" % (sh,)) for sh in [(1, 1), (2, 1), (2, 2)]]
        + [H("c18_return_by_give_back_resource_pool_item_%d_%d" % sh, "bounded", "acquire; optional refresh (new generation, clear, refill); give_back_resource_pool_item(item): Inv kept; after a refresh the item is NOT re-admitted; frame",
             ["ResourcePool::give_back_resource_pool_item"], bound="pool shape %s" % (sh,), timeout=900, replay="custom:replay_stale_item_returned_by_give_back_resource_pool_item,replay_pool_never_exceeds_its_size", tier=("quick" if sh == (1, 1) else "thorough")) for sh in [(1, 1), (2, 1), (2, 2)]]
        + [H("c18_return_by_drop_%d_%d" % sh, "bounded", "same with implicit give-back on drop", ["Drop for ResourcePoolItem"], bound="pool shape %s" % (sh,), timeout=900, replay="custom:replay_stale_item_returned_by_drop,replay_pool_never_exceeds_its_size", tier=("quick" if sh == (1, 1) else "thorough")) for sh in [(1, 1), (2, 1), (2, 2)]]
        + [H("c18_return_by_give_back_resource_%d_%d" % sh, "bounded", "same with explicit give_back_resource(resource, item.discriminant())",
             ["ResourcePool::give_back_resource", "ResourcePoolItem::discriminant"], bound="pool shape %s" % (sh,), timeout=900, replay="custom:replay_stale_item_returned_by_give_back_resource,replay_pool_never_exceeds_its_size", tier=("quick" if sh == (1, 1) else "thorough")) for sh in [(1, 1), (2, 2)]]
        + [H("c18_refresh_and_reset_keep_inv_%d_%d" % sh, "bounded", "reset_available_resources is a frame-only operation; set_discriminant+clear gives an empty pool of the new generation",
             ["ResourcePool::reset_available_resources", "ResourcePool::set_discriminant", "ResourcePool::clear", "ResourcePool::count", "ResourcePool::size"], bound="pool shape %s" % (sh,)) for sh in [(1, 1), (2, 2)]]
        + [H("c18_three_operations_keep_inv_%d_%d" % sh, "bounded", "any 3 operations (acquire / give back item / drop item / refresh+refill / reset) from any Inv state keep Inv; every resource handed out has the current generation",
             ["ResourcePool (all operations)"], bound="pool shape %s, 3 operations, 1 outstanding item" % (sh,), timeout=1500, tier="thorough") for sh in [(1, 1), (2, 1)]]
        )],
    replays=[dict(crate="mithril-resource-pool", file=RP, module="replays/c18_pool.rs")],
    assumptions=[
        "Kani has no threads: contracts cover every sequential history of operations (which is what stale re-admission needs); interleavings inside one operation (count() is read before the queue lock is taken in give_back_resource) are not covered",
        "Condvar::notify_one stubbed (futex); acquire on an empty pool (Condvar::wait_timeout) is not exercised: the wake-up/timeout clause is not decided",
        "pool capacity <= 2 in the harnesses, one harness per shape (capacity, queue length) with symbolic generation and resource identities; the per-operation contracts start from an arbitrary invariant-satisfying state of that shape, so together they are an induction over histories of any length for capacity <= 2",
        "give_back_resource's discriminant argument equals the generation the resource was created for (read off the two call sites in mithril-aggregator prover.rs / prover_legacy.rs)",
        "std Mutex/VecDeque executed as compiled (atomics sequential)",
    ],
    explanation="Representation invariant of the pool + per-operation contracts from an arbitrary invariant-satisfying state, proved by Kani on the real generic code instantiated with generation-tagged resources.",
    not_decided=["wake-up of callers blocked on an empty pool", "true concurrent interleavings"],
)

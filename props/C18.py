from spec import H, KaniUnit, Property

RP = "internal/mithril-resource-pool/src/resource_pool.rs"
INV = "Inv: resources.len() <= size and every queued resource's generation == *discriminant"
PROP = Property(
    "C18", "proof",
    kani=[KaniUnit(
        crate="mithril-resource-pool",
        attach=[(RP, "contracts/mithril-resource-pool/c18_resource_pool.rs", "verif_c18")],
        anchors=[(RP, "acquire_resource", None), (RP, "give_back_resource", None), (RP, "give_back_resource_pool_item", None),
                 (RP, "set_discriminant", None), (RP, "clear", None), (RP, "drop", "Drop for ResourcePoolItem")],
        harnesses=[
            H("c18_new_establishes_inv", "bounded", "new(size, vec![]) establishes Inv, generation 0", ["ResourcePool::new"], bound="size <= 3"),
            H("c18_give_back_resource_contract", "bounded", INV + " kept; admitted <=> d == discriminant and len < size; frame: other queued resources untouched", ["ResourcePool::give_back_resource", "ResourcePool::count", "ResourcePool::discriminant"], bound="size <= 3; arbitrary Inv state"),
            H("c18_acquire_contract", "bounded", "non-empty: returns the front, item.generation == current generation, item.discriminant() == generation; Inv kept; order kept", ["ResourcePool::acquire_resource", "ResourcePoolItem::new"], bound="size <= 3; arbitrary Inv state"),
            H("c18_return_by_give_back_resource_pool_item", "bounded", "acquire; optional refresh (new generation, clear, refill); give_back_resource_pool_item(item): Inv kept; after a refresh the item is NOT re-admitted; frame", ["ResourcePool::give_back_resource_pool_item"], bound="size <= 3"),
            H("c18_return_by_drop", "bounded", "same with implicit give-back on drop", ["Drop for ResourcePoolItem"], bound="size <= 3"),
            H("c18_return_by_give_back_resource", "bounded", "same with explicit give_back_resource(resource, item.discriminant())", ["ResourcePool::give_back_resource", "ResourcePoolItem::discriminant"], bound="size <= 3"),
            H("c18_refresh_and_reset_keep_inv", "bounded", "reset_available_resources is a frame-only operation; set_discriminant+clear gives an empty pool of the new generation", ["ResourcePool::reset_available_resources", "ResourcePool::set_discriminant", "ResourcePool::clear", "ResourcePool::count", "ResourcePool::size"], bound="size <= 3"),
            H("c18_three_operations_keep_inv", "bounded", "any 3 operations (acquire / give back item / drop item / refresh+refill / reset) from any Inv state keep Inv; every resource handed out has the current generation", ["ResourcePool (all operations)"], bound="size <= 3, 3 operations, 1 outstanding item", timeout=900),
        ])],
    assumptions=[
        "Kani has no threads: contracts cover every sequential history of operations (which is what stale re-admission needs); interleavings inside one operation (count() is read before the queue lock is taken in give_back_resource) are not covered",
        "Condvar::notify_one stubbed (futex); acquire on an empty pool (Condvar::wait_timeout) is not exercised: the wake-up/timeout clause is not decided",
        "pool capacity bounded by 3 in the harnesses (the per-operation contracts start from an arbitrary invariant-satisfying state of that capacity, so together they are an induction over histories of any length for capacity <= 3)",
        "give_back_resource's discriminant argument equals the generation the resource was created for (read off the two call sites in mithril-aggregator prover.rs / prover_legacy.rs)",
        "std Mutex/VecDeque executed as compiled (atomics sequential)",
    ],
    explanation="Representation invariant of the pool + per-operation contracts from an arbitrary invariant-satisfying state, proved by Kani on the real generic code instantiated with generation-tagged resources.",
    not_decided=["wake-up of callers blocked on an empty pool", "true concurrent interleavings"],
)

from spec import H, KaniUnit, Property, VerusUnit

CS = "mithril-aggregator/src/services/certifier/certifier_service.rs"
PROP = Property(
    "C14", "proof",
    kani=[],
    verus=[VerusUnit(
        "certifier_service", "verus/C14/certifier_service.tmpl.rs",
        "extracted real text of the aggregator's MithrilCertifierService: create_certificate Ok(Some(c)) ==> the open message existed and was neither certified nor expired; c is sealed for exactly that open message "
        "(epoch, protocol message, the multi-signature the multi-signer produced for it, its signed entity type); c carries the aggregate key and protocol parameters the epoch service holds as CURRENT; c links to the "
        "repository's master certificate of the open message's epoch; c was accepted by the certificate verifier BEFORE being stored; what is returned is what was stored; the open message is then marked certified. "
        "register_single_signature Ok ==> open message exists, neither certified nor expired, signature accepted by the multi-signer for that open message's protocol message, then stored. "
        "verify_certificate_chain(e) Ok ==> no epoch gap between e and the latest certificate, whose chain verifies",
        ["aggregator MithrilCertifierService::create_certificate", "aggregator MithrilCertifierService::register_single_signature",
         "aggregator MithrilCertifierService::verify_certificate_chain", "aggregator MithrilCertifierService::get_open_message_record"]),
        VerusUnit(
        "aggregator_epoch_service", "verus/C20/aggregator_epoch_service.tmpl.rs",
        "extracted text of the aggregator's MithrilEpochService (shared with C20 / C06): the aggregate key and parameters 'in force for its epoch' that create_certificate reads from the epoch service are SignerBuilder's result for "
        "(the signer set recorded under e - 1, the parameters for aggregation of e)",
        ["aggregator MithrilEpochService::inform_epoch", "aggregator MithrilEpochService::precompute_epoch_data", "aggregator MithrilEpochService::update_next_signers_with_stake"]),
        VerusUnit(
        "aggregator_runner", "verus/C14/aggregator_runner.tmpl.rs",
        "extracted text of the aggregator runner's choice of the open message to work on: get_current_open_message_for_signed_entity_type records the expiry BEFORE reading the open message; get_current_non_certified_open_message "
        "Ok(Some(om)) ==> om is a NEW open message created for an available signed entity type without open message (for the protocol message computed for that type) or an EXISTING one that is neither certified nor expired "
        "(loop with inductive invariant)",
        ["aggregator AggregatorRunner::get_current_non_certified_open_message", "aggregator AggregatorRunner::get_current_open_message_for_signed_entity_type",
         "aggregator AggregatorRunner::{mark_open_message_if_expired, compute_protocol_message, create_open_message}"])],
    replays=[dict(crate="mithril-aggregator", file=CS, module="replays/c14_certifier_service.rs"),
             dict(crate="mithril-aggregator", file="mithril-aggregator/src/runtime/runner.rs", module="replays/c14_runner.rs", inside_tests=True),
             dict(crate="mithril-aggregator", file="mithril-aggregator/src/services/epoch_service.rs", module="replays/c20_aggregator_epoch_service.rs")],
    assumptions=[
        "PARTIAL claim: only the clauses of C14 that are decided inside one call of create_certificate / register_single_signature / verify_certificate_chain (and the epoch service's derivation of the key in force) are under contract; "
        "the run-level clauses (every stored certificate verifies with its whole chain, quorum of registered signers, no double certification ACROSS interleavings, stopping after a skipped epoch as a state-machine behaviour) need the "
        "five-state async machine, the database and asynchronous signature registration and are not decided",
        "repositories (SQLite), the multi-signer, the certificate verifier and the epoch service are callee contracts over uninterpreted functions of their content; in particular WHICH certificate the repository returns as "
        "'master certificate of an epoch' (first of its epoch, else first of the preceding epoch) is decided by SQL and not covered",
        "the certificate verifier's acceptance is C03's contract; the multi-signer's are C01 / C16 (finding F-C16-1 repaired)",
        "extraction rewrites (complete list in the template): async/.await removed; StdResult<T> -> Result<T, StdError>; debug!/info!/warn!/trace! statements and with_context(..) removed; error constructors -> StdError {}; "
        "RwLock read guard -> reference; turbofish ::<Certificate> removed; From conversions between the three open-message record types -> contract fns preserving flags, epoch, protocol message; the signer filter "
        "(clone/into_iter/filter/collect) and PROTOCOL_VERSION.to_string() -> contract fns; `get_latest_certificates::<Certificate>(1)?.first()` -> one contract call; strip_cfg future_snark",
        "verify_certificate_chain: epochs < u64::MAX (has_gap_with's contract is proved on the real function by the C03 / C20 Kani unit)",
    ],
    explanation="The decisions taken at the moment a certificate is sealed are verified modularly on the function text extracted from the working tree; a dropped guard, a 'next' value used for a 'current' one, a certificate stored before or without verification, or an open message left uncertified fails a named obligation.",
    not_decided=["every stored certificate verifies with its whole chain, for every run", "quorum of signers registered for the epoch (delegated to the multi-signer's contract)",
                 "first-of-epoch linking rule (SQL)", "no signed entity certified twice across concurrent or restarted runs", "stopping after a skipped epoch as a state-machine behaviour"],
)

from spec import H, KaniUnit, Property, VerusUnit

PV = "mithril-client/src/cardano_database_client/proving.rs"
PROP = Property(
    "C10", "proof",
    kani=[],
    verus=[VerusUnit(
        "proving", "verus/C10/proving.tmpl.rs",
        "extracted real text of the client's database verification: verify_cardano_database Ok ==> no immutable file of the requested range is missing (unless allow_missing), EVERY computed (file name, digest) entry of the range "
        "equals the digest the verified digest list assigns to THAT VERY file name, and the returned Merkle proof is the verified tree's proof for exactly those digests and verifies; "
        "list_immutable_files_not_verified reports nothing exactly when every computed entry is bound to its name (loop with inductive invariant)",
        ["mithril-client InternalArtifactProver::verify_cardano_database", "mithril-client VerifiedDigests::list_immutable_files_not_verified"])],
    replays=[dict(crate="mithril-client", file=PV, module="replays/c10_proving.rs", features="fs,rustls")],
    assumptions=[
        "PARTIAL claim: the acceptance decision of verify_cardano_database GIVEN the verified digest list. That the digest list itself reproduces the Merkle root signed in the certificate (download_and_verify_digests: download, unpack, "
        "JSON parsing, a filter closure over file names, MKTree construction, check_merkle_root_is_signed_by_certificate) is not under contract; the CLI's reporting (mithril-client-cli verify.rs) is not under contract",
        "callee contracts over uninterpreted functions: the digester's answer for (directory, range) (its determinism is C12), Path::exists via list_missing_immutable_files (empty exactly when every file of the range is present), "
        "ImmutableFileRange::to_range_inclusive, MKTree::compute_proof / MKProof::verify (ckb Merkle mountain range, as in C11)",
        "BTreeMap<ImmutableFile, digest> is viewed as its entry sequence and BTreeMap<name, digest> as a mathematical map (assumed contracts on std)",
        "extraction rewrites (complete list in the template): async/.await removed; &Path -> opaque directory type; map_err(Error::Variant) removed (stubs return the final error type); vec![] -> Vec::new(); digester constructor arguments dropped; "
        "the values().map(MKTreeNode::from).collect() expression -> contract fn; the let-chain `if let Ok(ref p) = r && c ..` -> `if r.is_ok() && c .. { let p = ok_ref(&r);` (let-chains and ref patterns are outside Verus' subset); "
        "x.is_empty() -> contract fn; warn! removed; for-loop header over the BTreeMap -> iteration over its entry sequence; `&String != &String` compared by value",
    ],
    explanation="The acceptance decision is a per-call postcondition: content must be bound to the file NAME, not merely occur in the certified list. The unrepaired code only proved membership of the digest values in the Merkle tree (finding F-C10-1, repaired).",
    not_decided=["the digest list reproduces the certified Merkle root (download_and_verify_digests)", "file-system effects, download and unpack", "CLI reporting of the offending files"],
)

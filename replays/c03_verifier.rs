// C03 — replay of acceptance-rule violations on the REAL, un-stubbed verifier. Attached as a cfg(test) child module of
// mithril-common/src/certificate_chain/certificate_verifier.rs in the scratch copy and run with `cargo test`.
// Each test builds a real certificate chain (real keys, real signatures, real hashes) with CertificateChainBuilder,
// applies the structural part of the counterexample, and asserts the clause of C03 the obligation stands for.
// A test that FAILS reproduces the violation on the real code.
use super::*;
use crate::test::TestLogger;
use crate::test::builder::CertificateChainBuilder;
use crate::test::double::FakeCertificaterRetriever;
use crate::entities::Epoch;

fn verifier_and_chain() -> (MithrilCertificateVerifier, Vec<Certificate>) {
    let chain = CertificateChainBuilder::new()
        .with_total_certificates(5)
        .with_certificates_per_epoch(2)
        .build();
    let certs: Vec<Certificate> = chain.certificates_chained.clone();
    let retriever = FakeCertificaterRetriever::from_certificates(&certs);
    let verifier = MithrilCertificateVerifier::new(
        TestLogger::stdout(),
        std::sync::Arc::new(retriever),
        std::sync::Arc::new(chain.genesis_verifier.clone()),
    );
    (verifier, certs)
}

/// obligation verify_epoch_chaining: a link to a certificate of a LATER epoch must be rejected
#[test]
fn replay_verify_epoch_chaining() {
    let (verifier, certs) = verifier_and_chain();
    let c = certs[0].clone();
    for (delta, must_accept) in [(0i64, true), (-1, true), (1, false), (-2, false), (2, false)] {
        let mut p = certs[1].clone();
        let e = (*c.epoch as i64 + delta) as u64;
        p.epoch = Epoch(e);
        let accepted = verifier.verify_epoch_chaining(&c, &p).is_ok();
        assert_eq!(accepted, must_accept, "certificate epoch {} linked to previous certificate epoch {}: accepted={}", *c.epoch, e, accepted);
    }
}

#[test]
fn replay_verify_previous_hash_matches_previous_certificate_hash() {
    let (verifier, certs) = verifier_and_chain();
    let c = certs[0].clone();
    let mut p = certs[1].clone();
    assert!(verifier.verify_previous_hash_matches_previous_certificate_hash(&c, &p).is_ok());
    p.hash = format!("{}00", p.hash);
    assert!(verifier.verify_previous_hash_matches_previous_certificate_hash(&c, &p).is_err(), "previous certificate with another hash accepted");
}

#[test]
fn replay_verify_hash_matches_content() {
    let (verifier, certs) = verifier_and_chain();
    let mut c = certs[0].clone();
    assert!(verifier.verify_hash_matches_content(&c).is_ok());
    c.hash = "00".repeat(32);
    assert!(verifier.verify_hash_matches_content(&c).is_err(), "certificate whose hash does not match its content accepted");
}

#[test]
fn replay_verify_is_not_in_infinite_loop() {
    let (verifier, certs) = verifier_and_chain();
    let mut c = certs[0].clone();
    c.previous_hash = c.hash.clone();
    assert!(verifier.verify_is_not_in_infinite_loop(&c).is_err(), "certificate chaining to itself accepted");
}

#[test]
fn replay_verify_signed_message_matches_hashed_protocol_message() {
    let (verifier, certs) = verifier_and_chain();
    let mut c = certs[0].clone();
    assert!(verifier.verify_signed_message_matches_hashed_protocol_message(&c).is_ok());
    c.signed_message = "00".repeat(32);
    assert!(verifier.verify_signed_message_matches_hashed_protocol_message(&c).is_err(), "signed message differing from the protocol message digest accepted");
}

#[test]
fn replay_verify_epoch_matches_protocol_message() {
    let (verifier, certs) = verifier_and_chain();
    let mut c = certs[0].clone();
    assert!(verifier.verify_epoch_matches_protocol_message(&c).is_ok());
    c.epoch = c.epoch + 1;
    assert!(verifier.verify_epoch_matches_protocol_message(&c).is_err(), "certificate epoch not inside the signed message accepted");
}

#[test]
fn replay_verify_concatenation_aggregate_verification_key_chaining() {
    let (verifier, certs) = verifier_and_chain();
    // certs[0], certs[1]: find a same-epoch pair and a different-epoch pair
    for w in certs.windows(2) {
        let (c, p) = (&w[0], &w[1]);
        assert!(verifier.verify_concatenation_aggregate_verification_key_chaining(c, p).is_ok());
        // a certificate presenting another epoch's aggregate key must be rejected on this link
        for other in certs.iter() {
            if other.aggregate_verification_key != c.aggregate_verification_key {
                let mut forged = c.clone();
                forged.aggregate_verification_key = other.aggregate_verification_key.clone();
                assert!(verifier.verify_concatenation_aggregate_verification_key_chaining(&forged, p).is_err(), "aggregate key not committed by the previous certificate accepted");
            }
        }
    }
}

#[test]
fn replay_verify_protocol_parameters_chaining() {
    let (verifier, certs) = verifier_and_chain();
    for w in certs.windows(2) {
        let (c, p) = (&w[0], &w[1]);
        assert!(verifier.verify_protocol_parameters_chaining(c, p).is_ok());
        let mut forged = c.clone();
        forged.metadata.protocol_parameters.k += 1;
        assert!(verifier.verify_protocol_parameters_chaining(&forged, p).is_err(), "protocol parameters not committed by the previous certificate accepted");
    }
}

/// composition: each conjunct of the per-link rule is enforced by verify_standard_certificate / verify_certificate
#[tokio::test]
async fn replay_verify_standard_certificate() {
    let (verifier, certs) = verifier_and_chain();
    let (c, p) = (certs[0].clone(), certs[1].clone());
    assert!(verifier.verify_standard_certificate(&c, &p).await.is_ok());
    let mut x = c.clone(); x.hash = "00".repeat(32);
    assert!(verifier.verify_standard_certificate(&x, &p).await.is_err(), "hash mismatch accepted");
    let mut x = c.clone(); x.signed_message = "00".repeat(32);
    assert!(verifier.verify_standard_certificate(&x, &p).await.is_err(), "signed message mismatch accepted");
    let mut y = p.clone(); y.hash = "11".repeat(32);
    assert!(verifier.verify_standard_certificate(&c, &y).await.is_err(), "wrong previous certificate accepted");
    let mut y = p.clone(); y.epoch = c.epoch + 1;
    assert!(verifier.verify_standard_certificate(&c, &y).await.is_err(), "previous certificate of a later epoch accepted");
    let mut y = p.clone(); y.epoch = Epoch(c.epoch.saturating_sub(2));
    assert!(verifier.verify_standard_certificate(&c, &y).await.is_err(), "epoch gap accepted");
    // multi-signature for another message
    let mut x = c.clone();
    x.signature = certs[2].signature.clone();
    assert!(verifier.verify_standard_certificate(&x, &p).await.is_err(), "multi-signature of another certificate accepted");
}

#[tokio::test]
async fn replay_verify_certificate() {
    let (verifier, certs) = verifier_and_chain();
    let c = certs[0].clone();
    let r = verifier.verify_certificate(&c).await.expect("honest certificate rejected");
    assert_eq!(r.map(|p| p.hash), Some(c.previous_hash.clone()), "verify_certificate must return the certificate fetched for previous_hash");
    let genesis = certs.last().unwrap().clone();
    assert!(genesis.is_genesis());
    assert!(verifier.verify_certificate(&genesis).await.expect("honest genesis rejected").is_none());
    let mut g = genesis.clone();
    g.signed_message = "00".repeat(32);
    assert!(verifier.verify_certificate(&g).await.is_err(), "tampered genesis accepted");
    // a STANDARD certificate is never a chain root: with an empty or unknown previous_hash verification must fail
    // (a previous_hash naming another certificate of the same epoch is a legitimate link and is not part of this scenario)
    for forged_previous in ["".to_string(), "ff".repeat(32)] {
        let mut x = c.clone();
        x.previous_hash = forged_previous.clone();
        x.hash = x.try_compute_hash().unwrap();
        match verifier.verify_certificate(&x).await {
            Ok(None) => panic!("standard certificate with previous_hash {:?} accepted as the root of its chain", forged_previous),
            Ok(Some(_)) => panic!("standard certificate with forged previous_hash {:?} accepted", forged_previous),
            Err(_) => {}
        }
    }
    // every certificate of the honest chain verifies and walks to the genesis certificate
    assert!(verifier.verify_certificate_chain(c.clone()).await.is_ok(), "honest chain rejected");
}

#[tokio::test]
async fn replay_verify_genesis_certificate() {
    let (verifier, certs) = verifier_and_chain();
    let genesis = certs.last().unwrap().clone();
    assert!(verifier.verify_genesis_certificate(&genesis).await.is_ok());
    // the chain builder's genesis key is a fixed-seed one, so "another genesis key" is a freshly generated one: the honest genesis
    // certificate presented to a verifier configured with that other key must be rejected
    let other_genesis_verifier = crate::crypto_helper::GenesisSigner::from_ed25519(crate::crypto_helper::GenesisEd25519Signer::create_non_deterministic_signer()).create_verifier();
    let other_verifier = MithrilCertificateVerifier::new(
        TestLogger::stdout(),
        std::sync::Arc::new(FakeCertificaterRetriever::from_certificates(&certs)),
        std::sync::Arc::new(other_genesis_verifier),
    );
    assert!(other_verifier.verify_genesis_certificate(&genesis).await.is_err(), "genesis certificate accepted under a genesis verification key that did not sign it");
    let mut tampered = genesis.clone();
    tampered.signed_message = "cd".repeat(32);
    tampered.hash = tampered.try_compute_hash().unwrap();
    assert!(verifier.verify_genesis_certificate(&tampered).await.is_err(), "genesis certificate with another signed message accepted");
    assert!(verifier.verify_genesis_certificate(&certs[0]).await.is_err(), "standard certificate accepted as genesis");
}

#[test]
fn replay_verify_standard_certificate_integrity() {
    let (verifier, certs) = verifier_and_chain();
    let c = certs[0].clone();
    assert!(verifier.verify_standard_certificate_integrity(&c).is_ok());
    let mut x = c.clone(); x.previous_hash = x.hash.clone();
    assert!(verifier.verify_standard_certificate_integrity(&x).is_err(), "self-chaining accepted");
    let mut x = c.clone(); x.epoch = x.epoch + 1;
    assert!(verifier.verify_standard_certificate_integrity(&x).is_err(), "epoch not in signed message accepted");
    assert!(verifier.verify_standard_certificate_integrity(certs.last().unwrap()).is_err(), "genesis accepted as standard");
}

/// dispatcher in front of the concatenation check (feature future_snark adds a second branch): same scenarios
#[test]
fn replay_verify_aggregate_verification_key_chaining() {
    let (verifier, certs) = verifier_and_chain();
    for w in certs.windows(2) {
        let (c, p) = (&w[0], &w[1]);
        assert!(verifier.verify_aggregate_verification_key_chaining(c, p).is_ok(), "honest link rejected");
        for other in certs.iter() {
            if other.aggregate_verification_key != c.aggregate_verification_key {
                let mut forged = c.clone();
                forged.aggregate_verification_key = other.aggregate_verification_key.clone();
                assert!(verifier.verify_aggregate_verification_key_chaining(&forged, p).is_err(), "aggregate key not committed by the previous certificate accepted");
            }
        }
    }
}

/// the chain walk (default method of the trait): from every certificate of the honest chain the walk ends at the genesis
/// certificate; a chain in which ANY certificate on the walk is tampered with (re-hashed so that only the signature / link
/// checks can notice), or whose genesis certificate is missing, is rejected
#[tokio::test]
async fn replay_verify_certificate_chain() {
    let (verifier, certs) = verifier_and_chain();
    for c in certs.iter() {
        assert!(verifier.verify_certificate_chain(c.clone()).await.is_ok(), "honest chain rejected from {}", c.hash);
    }
    // the walk from certs[0], following previous_hash
    let mut walk = vec![certs[0].clone()];
    while !walk.last().unwrap().is_genesis() {
        let prev_hash = walk.last().unwrap().previous_hash.clone();
        walk.push(certs.iter().find(|c| c.hash == prev_hash).expect("chain builder: previous certificate missing").clone());
    }
    assert!(walk.len() >= 3, "the walk is expected to cross at least one epoch boundary");
    for (position, victim) in walk.iter().enumerate().skip(1) {
        // the victim's signed message is changed and its hash recomputed; its child is re-linked to the new hash and re-hashed,
        // and so on up to the start: every hash link is consistent, only signatures are not
        let mut forged_walk: Vec<Certificate> = walk.clone();
        forged_walk[position].signed_message = "ab".repeat(32);
        forged_walk[position].hash = forged_walk[position].try_compute_hash().unwrap();
        for i in (0..position).rev() {
            forged_walk[i].previous_hash = forged_walk[i + 1].hash.clone();
            forged_walk[i].hash = forged_walk[i].try_compute_hash().unwrap();
        }
        let retriever = FakeCertificaterRetriever::from_certificates(&forged_walk);
        let chain = CertificateChainBuilder::new().with_total_certificates(5).with_certificates_per_epoch(2).build();
        let forged_verifier = MithrilCertificateVerifier::new(TestLogger::stdout(), std::sync::Arc::new(retriever), std::sync::Arc::new(chain.genesis_verifier.clone()));
        assert!(forged_verifier.verify_certificate_chain(forged_walk[0].clone()).await.is_err(),
                "chain ACCEPTED although the certificate at position {} of the walk (of {}) was tampered with", position, walk.len());
    }
    // genesis certificate not retrievable: the walk cannot end, the chain is rejected
    let without_genesis: Vec<Certificate> = walk.iter().filter(|c| !c.is_genesis()).cloned().collect();
    let retriever = FakeCertificaterRetriever::from_certificates(&without_genesis);
    let chain = CertificateChainBuilder::new().with_total_certificates(5).with_certificates_per_epoch(2).build();
    let short_verifier = MithrilCertificateVerifier::new(TestLogger::stdout(), std::sync::Arc::new(retriever), std::sync::Arc::new(chain.genesis_verifier.clone()));
    assert!(short_verifier.verify_certificate_chain(walk[0].clone()).await.is_err(), "chain accepted although its genesis certificate cannot be retrieved");
}

// C03 — replay of acceptance-rule violations on the REAL, un-stubbed verifier. Attached as a cfg(test) child module of
// mithril-common/src/certificate_chain/certificate_verifier.rs in the scratch copy and run with `cargo test`.
// Each test builds a real certificate chain (real keys, real signatures, real hashes) with CertificateChainBuilder,
// applies the structural part of the counterexample, and asserts the clause of C03 the obligation stands for.
// A test that FAILS reproduces the violation on the real code.
use super::*;
use crate::test::TestLogger;
use crate::test::builder::CertificateChainBuilder;
use crate::test::double::FakeCertificaterRetriever;
use crate::entities::Epoch;

fn verifier_and_chain() -> (MithrilCertificateVerifier, Vec<Certificate>) {
    let chain = CertificateChainBuilder::new()
        .with_total_certificates(5)
        .with_certificates_per_epoch(2)
        .build();
    let certs: Vec<Certificate> = chain.certificates_chained.clone();
    let retriever = FakeCertificaterRetriever::from_certificates(&certs);
    let verifier = MithrilCertificateVerifier::new(
        TestLogger::stdout(),
        std::sync::Arc::new(retriever),
        std::sync::Arc::new(chain.genesis_verifier.clone()),
    );
    (verifier, certs)
}

/// obligation verify_epoch_chaining: a link to a certificate of a LATER epoch must be rejected
#[test]
fn replay_verify_epoch_chaining() {
    let (verifier, certs) = verifier_and_chain();
    let c = certs[0].clone();
    for (delta, must_accept) in [(0i64, true), (-1, true), (1, false), (-2, false), (2, false)] {
        let mut p = certs[1].clone();
        let e = (*c.epoch as i64 + delta) as u64;
        p.epoch = Epoch(e);
        let accepted = verifier.verify_epoch_chaining(&c, &p).is_ok();
        assert_eq!(accepted, must_accept, "certificate epoch {} linked to previous certificate epoch {}: accepted={}", *c.epoch, e, accepted);
    }
}

#[test]
fn replay_verify_previous_hash_matches_previous_certificate_hash() {
    let (verifier, certs) = verifier_and_chain();
    let c = certs[0].clone();
    let mut p = certs[1].clone();
    assert!(verifier.verify_previous_hash_matches_previous_certificate_hash(&c, &p).is_ok());
    p.hash = format!("{}00", p.hash);
    assert!(verifier.verify_previous_hash_matches_previous_certificate_hash(&c, &p).is_err(), "previous certificate with another hash accepted");
}

#[test]
fn replay_verify_hash_matches_content() {
    let (verifier, certs) = verifier_and_chain();
    let mut c = certs[0].clone();
    assert!(verifier.verify_hash_matches_content(&c).is_ok());
    c.hash = "00".repeat(32);
    assert!(verifier.verify_hash_matches_content(&c).is_err(), "certificate whose hash does not match its content accepted");
}

#[test]
fn replay_verify_is_not_in_infinite_loop() {
    let (verifier, certs) = verifier_and_chain();
    let mut c = certs[0].clone();
    c.previous_hash = c.hash.clone();
    assert!(verifier.verify_is_not_in_infinite_loop(&c).is_err(), "certificate chaining to itself accepted");
}

#[test]
fn replay_verify_signed_message_matches_hashed_protocol_message() {
    let (verifier, certs) = verifier_and_chain();
    let mut c = certs[0].clone();
    assert!(verifier.verify_signed_message_matches_hashed_protocol_message(&c).is_ok());
    c.signed_message = "00".repeat(32);
    assert!(verifier.verify_signed_message_matches_hashed_protocol_message(&c).is_err(), "signed message differing from the protocol message digest accepted");
}

#[test]
fn replay_verify_epoch_matches_protocol_message() {
    let (verifier, certs) = verifier_and_chain();
    let mut c = certs[0].clone();
    assert!(verifier.verify_epoch_matches_protocol_message(&c).is_ok());
    c.epoch = c.epoch + 1;
    assert!(verifier.verify_epoch_matches_protocol_message(&c).is_err(), "certificate epoch not inside the signed message accepted");
}

#[test]
fn replay_verify_concatenation_aggregate_verification_key_chaining() {
    let (verifier, certs) = verifier_and_chain();
    // certs[0], certs[1]: find a same-epoch pair and a different-epoch pair
    for w in certs.windows(2) {
        let (c, p) = (&w[0], &w[1]);
        assert!(verifier.verify_concatenation_aggregate_verification_key_chaining(c, p).is_ok());
        // a certificate presenting another epoch's aggregate key must be rejected on this link
        for other in certs.iter() {
            if other.aggregate_verification_key != c.aggregate_verification_key {
                let mut forged = c.clone();
                forged.aggregate_verification_key = other.aggregate_verification_key.clone();
                assert!(verifier.verify_concatenation_aggregate_verification_key_chaining(&forged, p).is_err(), "aggregate key not committed by the previous certificate accepted");
            }
        }
    }
}

#[test]
fn replay_verify_protocol_parameters_chaining() {
    let (verifier, certs) = verifier_and_chain();
    for w in certs.windows(2) {
        let (c, p) = (&w[0], &w[1]);
        assert!(verifier.verify_protocol_parameters_chaining(c, p).is_ok());
        let mut forged = c.clone();
        forged.metadata.protocol_parameters.k += 1;
        assert!(verifier.verify_protocol_parameters_chaining(&forged, p).is_err(), "protocol parameters not committed by the previous certificate accepted");
    }
}

/// composition: each conjunct of the per-link rule is enforced by verify_standard_certificate / verify_certificate
#[tokio::test]
async fn replay_verify_standard_certificate() {
    let (verifier, certs) = verifier_and_chain();
    let (c, p) = (certs[0].clone(), certs[1].clone());
    assert!(verifier.verify_standard_certificate(&c, &p).await.is_ok());
    let mut x = c.clone(); x.hash = "00".repeat(32);
    assert!(verifier.verify_standard_certificate(&x, &p).await.is_err(), "hash mismatch accepted");
    let mut x = c.clone(); x.signed_message = "00".repeat(32);
    assert!(verifier.verify_standard_certificate(&x, &p).await.is_err(), "signed message mismatch accepted");
    let mut y = p.clone(); y.hash = "11".repeat(32);
    assert!(verifier.verify_standard_certificate(&c, &y).await.is_err(), "wrong previous certificate accepted");
    let mut y = p.clone(); y.epoch = c.epoch + 1;
    assert!(verifier.verify_standard_certificate(&c, &y).await.is_err(), "previous certificate of a later epoch accepted");
    let mut y = p.clone(); y.epoch = Epoch(c.epoch.saturating_sub(2));
    assert!(verifier.verify_standard_certificate(&c, &y).await.is_err(), "epoch gap accepted");
    // multi-signature for another message
    let mut x = c.clone();
    x.signature = certs[2].signature.clone();
    assert!(verifier.verify_standard_certificate(&x, &p).await.is_err(), "multi-signature of another certificate accepted");
}

#[tokio::test]
async fn replay_verify_certificate() {
    let (verifier, certs) = verifier_and_chain();
    let c = certs[0].clone();
    let r = verifier.verify_certificate(&c).await.expect("honest certificate rejected");
    assert_eq!(r.map(|p| p.hash), Some(c.previous_hash.clone()), "verify_certificate must return the certificate fetched for previous_hash");
    let genesis = certs.last().unwrap().clone();
    assert!(genesis.is_genesis());
    assert!(verifier.verify_certificate(&genesis).await.expect("honest genesis rejected").is_none());
    let mut g = genesis.clone();
    g.signed_message = "00".repeat(32);
    assert!(verifier.verify_certificate(&g).await.is_err(), "tampered genesis accepted");
    // a STANDARD certificate is never a chain root: whatever its previous_hash (empty, unknown, its own hash), verification
    // must either fail or hand back the previous certificate to continue with
    for forged_previous in ["".to_string(), "ff".repeat(32), c.hash.clone()] {
        let mut x = c.clone();
        x.previous_hash = forged_previous.clone();
        x.hash = x.try_compute_hash().unwrap();
        match verifier.verify_certificate(&x).await {
            Ok(None) => panic!("standard certificate with previous_hash {:?} accepted as the root of its chain", forged_previous),
            Ok(Some(_)) => panic!("standard certificate with forged previous_hash {:?} accepted", forged_previous),
            Err(_) => {}
        }
    }
    // every certificate of the honest chain verifies and walks to the genesis certificate
    assert!(verifier.verify_certificate_chain(c.clone()).await.is_ok(), "honest chain rejected");
}

#[tokio::test]
async fn replay_verify_genesis_certificate() {
    let (verifier, certs) = verifier_and_chain();
    let genesis = certs.last().unwrap().clone();
    assert!(verifier.verify_genesis_certificate(&genesis).await.is_ok());
    let other = CertificateChainBuilder::new().with_total_certificates(2).with_certificates_per_epoch(1).build();
    let foreign_genesis = other.certificates_chained.last().unwrap().clone();
    assert!(verifier.verify_genesis_certificate(&foreign_genesis).await.is_err(), "genesis certificate signed with another genesis key accepted");
    assert!(verifier.verify_genesis_certificate(&certs[0]).await.is_err(), "standard certificate accepted as genesis");
}

#[test]
fn replay_verify_standard_certificate_integrity() {
    let (verifier, certs) = verifier_and_chain();
    let c = certs[0].clone();
    assert!(verifier.verify_standard_certificate_integrity(&c).is_ok());
    let mut x = c.clone(); x.previous_hash = x.hash.clone();
    assert!(verifier.verify_standard_certificate_integrity(&x).is_err(), "self-chaining accepted");
    let mut x = c.clone(); x.epoch = x.epoch + 1;
    assert!(verifier.verify_standard_certificate_integrity(&x).is_err(), "epoch not in signed message accepted");
    assert!(verifier.verify_standard_certificate_integrity(certs.last().unwrap()).is_err(), "genesis accepted as standard");
}

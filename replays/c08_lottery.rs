// C08 — replay on the REAL signer and verifier with real keys (attached as a cfg(test) child module of
// mithril-stm/src/proof_system/concatenation/signer.rs in the scratch copy).
use crate::*;
use rand_chacha::ChaCha20Rng;
use rand_core::SeedableRng;

type D = MithrilMembershipDigest;

/// the signer proposes EXACTLY the indices in [0, m) that the verifier's per-index check accepts
#[test]
fn replay_check_lottery() {
    for (phi_f, m) in [(0.4f64, 40u64), (0.9, 25), (1.0, 12)] {
        let params = Parameters { m, k: 1, phi_f };
        let mut rng = ChaCha20Rng::from_seed([3u8; 32]);
        let mut reg = KeyRegistration::initialize();
        let mut inits = vec![];
        for stake in [7u64, 3, 90] {
            let init = Initializer::new(params, stake, &mut rng);
            reg.register_by_entry(&init.clone().try_into().unwrap()).unwrap();
            inits.push(init);
        }
        let closed = reg.close_registration(&params).unwrap();
        let msg = [5u8; 16];
        for init in inits {
            let signer = init.try_create_signer::<D>(&closed).unwrap();
            let clerk = Clerk::new_clerk_from_signer(&signer);
            let avk = clerk.compute_aggregate_verification_key();
            let Ok(sig) = signer.create_single_signature(&msg) else { continue };
            let proposed = sig.get_concatenation_signature_indices();
            let entry = closed.get_registration_entry_for_index(&sig.signer_index).unwrap();
            for index in 0..m {
                let mut probe = sig.clone();
                probe.set_concatenation_signature_indices(&[index]);
                let accepted = probe.verify(&params, &entry.get_verification_key_for_concatenation(), &entry.get_stake(), &avk, &msg).is_ok();
                assert_eq!(accepted, proposed.contains(&index),
                    "phi_f={phi_f} m={m} stake={}: index {index} accepted by the verifier = {accepted}, proposed by the signer = {}", entry.get_stake(), proposed.contains(&index));
            }
            assert!(proposed.windows(2).all(|w| w[0] < w[1]) && proposed.iter().all(|i| *i < m), "proposed indices not strictly increasing within [0, m)");
        }
    }
}

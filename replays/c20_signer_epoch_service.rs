// C20 — replay on the REAL signer MithrilEpochService (mithril-signer/src/services/epoch_service.rs). Attached as a cfg(test)
// child module in the scratch copy. Stores are real (in-memory SQLite repositories) and keyed by LITERAL epochs: the key
// material saved under epochs 10..13 carries stakes 1010..1013, the stake distributions saved under epochs 10..13 give every
// pool 110..113. A test that FAILS reproduces a violation.
use std::collections::BTreeSet;
use std::sync::Arc;

use mithril_common::entities::{Epoch, Signer, StakeDistribution};
use mithril_common::test::builder::MithrilFixtureBuilder;
use mithril_common::test::double::{Dummy, fake_data};
use mithril_persistence::store::StakeStorer;
use mithril_protocol_config::model::MithrilNetworkConfigurationForEpoch;

use crate::database::repository::{ProtocolInitializerRepository, StakePoolStore};
use crate::database::test_helper::main_db_connection;
use crate::store::ProtocolInitializerStorer;
use crate::test::TestLogger;

use super::*;

async fn service_with_stores(signers: &[Signer]) -> MithrilEpochService {
    let connection = Arc::new(main_db_connection().unwrap());
    let stake_store = Arc::new(StakePoolStore::new(connection.clone(), None));
    let protocol_initializer_store = Arc::new(ProtocolInitializerRepository::new(connection, None));
    for e in 10..=13u64 {
        protocol_initializer_store
            .save_protocol_initializer(Epoch(e), fake_data::protocol_initializer(format!("seed-{e}"), 1000 + e))
            .await
            .unwrap();
        let stakes: StakeDistribution = signers.iter().map(|s| (s.party_id.clone(), 100 + e)).collect();
        stake_store.save_stakes(Epoch(e), stakes).await.unwrap();
    }
    MithrilEpochService::new(
        Arc::new(EraChecker::new(SupportedEra::dummy(), Epoch::default())),
        stake_store,
        protocol_initializer_store,
        TestLogger::stdout(),
    )
}

fn configuration(epoch: Epoch) -> MithrilNetworkConfiguration {
    MithrilNetworkConfiguration {
        epoch,
        configuration_for_aggregation: MithrilNetworkConfigurationForEpoch { enabled_signed_entity_types: BTreeSet::new(), ..Dummy::dummy() },
        ..Dummy::dummy()
    }
}

/// inform_epoch_settings(12): the key material in force is what was saved under epoch 11
#[tokio::test]
async fn replay_inform_epoch_settings() {
    let signers = fake_data::signers(6);
    let mut service = service_with_stores(&signers).await;
    // the network configuration was computed for epoch 11 (the signer's node lags): the epoch of the data is the one handed in
    service.inform_epoch_settings(Epoch(12), configuration(Epoch(11)), signers[0..3].to_vec(), signers[2..6].to_vec()).await.unwrap();
    assert_eq!(service.protocol_initializer().unwrap().as_ref().map(|p| p.get_stake()), Some(1011),
               "inform_epoch_settings(12): key material in force is not the one saved under epoch 11 (stake tag 1011)");
    assert_eq!(service.epoch_of_current_data().unwrap(), Epoch(12), "the epoch of the epoch data is not the epoch handed to inform_epoch_settings");
    assert!(service.current_signers_with_stake().await.unwrap().iter().all(|s| s.stake == 111), "after inform_epoch_settings(12) the current signers do not carry the stakes saved under epoch 11");
    assert!(service.next_signers_with_stake().await.unwrap().iter().all(|s| s.stake == 112), "after inform_epoch_settings(12) the next signers do not carry the stakes saved under epoch 12");
    assert_eq!(service.current_signers().unwrap(), &signers[0..3].to_vec());
    assert_eq!(service.next_signers().unwrap(), &signers[2..6].to_vec());
    // epoch 0 has no signer-retrieval epoch
    let mut service = service_with_stores(&signers).await;
    assert!(service.inform_epoch_settings(Epoch(0), configuration(Epoch(0)), vec![], vec![]).await.is_err(), "inform_epoch_settings(0) succeeded");
}

/// current signers carry the stakes saved under epoch 11, next signers those saved under epoch 12
#[tokio::test]
async fn replay_current_signers_with_stake() {
    let signers = fake_data::signers(6);
    let mut service = service_with_stores(&signers).await;
    service.inform_epoch_settings(Epoch(12), configuration(Epoch(12)), signers[0..3].to_vec(), signers[2..6].to_vec()).await.unwrap();
    let current = service.current_signers_with_stake().await.unwrap();
    assert_eq!(current.iter().map(|s| s.party_id.clone()).collect::<Vec<_>>(), signers[0..3].iter().map(|s| s.party_id.clone()).collect::<Vec<_>>());
    assert!(current.iter().all(|s| s.stake == 111), "at epoch 12 the current signers carry stakes {:?} instead of those saved under epoch 11 (111)", current.iter().map(|s| s.stake).collect::<Vec<_>>());
}
#[tokio::test]
async fn replay_next_signers_with_stake() {
    let signers = fake_data::signers(6);
    let mut service = service_with_stores(&signers).await;
    service.inform_epoch_settings(Epoch(12), configuration(Epoch(12)), signers[0..3].to_vec(), signers[2..6].to_vec()).await.unwrap();
    let next = service.next_signers_with_stake().await.unwrap();
    assert_eq!(next.iter().map(|s| s.party_id.clone()).collect::<Vec<_>>(), signers[2..6].iter().map(|s| s.party_id.clone()).collect::<Vec<_>>());
    assert!(next.iter().all(|s| s.stake == 112), "at epoch 12 the next signers carry stakes {:?} instead of those saved under epoch 12 (112)", next.iter().map(|s| s.stake).collect::<Vec<_>>());
}

/// every listed signer gets ITS OWN stake from the distribution saved under the epoch; a signer without a recorded stake is an
/// error (the signer refuses to build a signer set that differs from the aggregator's), never silently dropped
#[tokio::test]
async fn replay_associate_signers_with_stake() {
    let signers = fake_data::signers(6);
    let service = service_with_stores(&signers[0..5]).await;   // no stake recorded for signers[5]
    let out = service.associate_signers_with_stake(Epoch(11), &signers[0..5]).await.unwrap();
    assert_eq!(out.len(), 5);
    for (s, o) in signers[0..5].iter().zip(out.iter()) {
        assert_eq!(s.party_id, o.party_id);
        assert!(s.verification_key_for_concatenation == o.verification_key_for_concatenation, "signer associated with another key");
        assert_eq!(o.stake, 111);
    }
    let r = service.associate_signers_with_stake(Epoch(11), &signers[3..6]).await;
    assert!(r.is_err(), "a signer without recorded stake was silently dropped: {} signers returned for 3 listed", r.map(|v| v.len()).unwrap_or(0));
    assert!(service.associate_signers_with_stake(Epoch(20), &signers[0..2]).await.is_err(), "signers associated with stakes of an epoch without saved distribution");
}

/// the gate: true only with key material AND this party listed among the current signers with exactly that key
fn gate_scenarios() {
    let fixtures = MithrilFixtureBuilder::default().with_signers(5).build();
    let signers: Vec<Signer> = fixtures.signers();
    let me = fixtures.signers_fixture()[0].clone();
    let other = fixtures.signers_fixture()[1].clone();
    let service = |init: Option<ProtocolInitializer>, listed: Vec<Signer>| {
        MithrilEpochService::new_with_dumb_dependencies().set_data_to_default_or_fake(Epoch(12)).alter_data(|d| {
            d.protocol_initializer = init;
            d.current_signers = listed;
        })
    };
    let mine = Some(me.protocol_initializer.clone());
    assert!(service(mine.clone(), signers.clone()).can_signer_sign_current_epoch(me.party_id()).unwrap(), "a registered, listed signer cannot sign");
    assert!(!service(None, signers.clone()).can_signer_sign_current_epoch(me.party_id()).unwrap(), "signing allowed without key material for the epoch");
    assert!(!service(mine.clone(), signers[1..].to_vec()).can_signer_sign_current_epoch(me.party_id()).unwrap(), "signing allowed although the party is not in the epoch's signer list");
    assert!(!service(Some(other.protocol_initializer.clone()), signers.clone()).can_signer_sign_current_epoch(me.party_id()).unwrap(),
            "signing allowed although the listed key is not the key of the stored key material");
    assert!(!service(mine.clone(), signers.clone()).can_signer_sign_current_epoch(other.party_id()).unwrap(),
            "signing allowed for another party id with this key material");
    let s = service(mine.clone(), signers.clone());
    assert!(s.is_signer_included_in_current_stake_distribution(me.party_id(), &me.protocol_initializer).unwrap());
    assert!(!s.is_signer_included_in_current_stake_distribution(me.party_id(), &other.protocol_initializer).unwrap(), "party listed with another key counted as included");
    assert!(!s.is_signer_included_in_current_stake_distribution("unknown-party".to_string(), &me.protocol_initializer).unwrap());
}
#[test]
fn replay_can_signer_sign_current_epoch() { gate_scenarios() }
#[test]
fn replay_is_signer_included_in_current_stake_distribution() { gate_scenarios() }

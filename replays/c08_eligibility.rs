// C08 — replay on the REAL lottery decision procedure (mithril-stm/src/proof_system/concatenation/eligibility.rs). Attached as a
// cfg(test) child module of that file in the scratch copy. A test that FAILS reproduces a violation.
use super::*;

fn draws() -> Vec<[u8; 64]> {
    let mut v = vec![[0u8; 64], [0xffu8; 64]];
    let mut one = [0u8; 64]; one[0] = 1; v.push(one);
    let mut top = [0u8; 64]; top[63] = 0x80; v.push(top);
    let mut x = [0u8; 64];
    for k in 0..40u64 { for (i, b) in x.iter_mut().enumerate() { *b = ((k * 131 + i as u64 * 29 + 7) % 256) as u8; } v.push(x); }
    v
}

fn zero_stake_scenarios() {
    for ev in draws() {
        for phi_f in [0.000001, 0.05, 0.2, 0.5, 0.95, 0.999999] {
            for total in [1u64, 1000, u64::MAX] {
                assert!(!is_lottery_won(phi_f, ev, 0, total), "ZERO stake wins the lottery (phi_f = {}, total stake = {}, draw starting with {:?})", phi_f, total, &ev[..4]);
            }
        }
        assert!(is_lottery_won(1.0, ev, 0, 1000) && is_lottery_won(1.0, ev, 1, 1000), "phi_f = 1 does not always win");
    }
    // sanity in the other direction: the whole stake with a tiny draw wins, with the largest draw loses
    assert!(is_lottery_won(0.2, [0u8; 64], 1000, 1000), "the whole stake with the smallest draw loses");
    assert!(!is_lottery_won(0.2, [0xffu8; 64], 1000, 1000), "the largest draw wins");
}

/// a smaller draw value never turns won into lost: scan the 512-bit draw space from the most significant byte down, refining
/// around the flip for 8 byte levels; at every level the 256 sampled draws (in increasing order) must read won...won lost...lost
fn draw_monotone_scenarios() {
    for (phi_f, stake, total) in [(0.2, 1u64, 10u64), (0.05, 333, 1000), (0.65, 1, 3), (0.999, 999, 1000), (0.000001, 1, u64::MAX), (0.5, u64::MAX - 1, u64::MAX)] {
        let mut prefix: Vec<u8> = vec![];          // most significant bytes fixed so far (big-endian order)
        for _level in 0..8 {
            let mut last_won: Option<u8> = None;
            let mut seen_lost = false;
            for b in 0..=255u8 {
                let mut ev = [0u8; 64];
                for (i, p) in prefix.iter().enumerate() { ev[63 - i] = *p; }
                ev[63 - prefix.len()] = b;
                let won = is_lottery_won(phi_f, ev, stake, total);
                if won {
                    assert!(!seen_lost, "the lottery FLIPS from lost to won when the draw value GROWS (phi_f = {}, stake = {}/{}, most significant bytes {:?} then {})", phi_f, stake, total, prefix, b);
                    last_won = Some(b);
                } else {
                    seen_lost = true;
                }
            }
            // continue inside the last won bucket (the flip is in there or right after it); all won or all lost: nothing finer to see
            match last_won { Some(b) if seen_lost => prefix.push(b), _ => break }
        }
    }
}

#[test]
fn replay_is_lottery_won() { zero_stake_scenarios(); draw_monotone_scenarios() }
#[test]
fn replay_taylor_comparison() { zero_stake_scenarios(); draw_monotone_scenarios() }

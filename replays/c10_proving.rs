// C10 (partial) — replay on the REAL client-side database verification (mithril-client/src/cardano_database_client/proving.rs,
// InternalArtifactProver::verify_cardano_database), cargo features fs + rustls. Attached as a cfg(test) child module in the
// scratch copy. A real immutable directory (DummyCardanoDbBuilder), real digests (CardanoImmutableDigester), a real Merkle tree
// over the certified digest list. A test that FAILS reproduces a violation: verification must succeed on the untouched
// directory and must fail when a file of the requested range is modified, SWAPPED with another certified file, replaced by a
// DUPLICATE of another certified file, or replaced by a certified file from OUTSIDE the requested range.
use std::collections::BTreeMap;
use std::ops::RangeInclusive;
use std::path::{Path, PathBuf};

use mithril_cardano_node_internal_database::digesters::{CardanoImmutableDigester, ImmutableDigester};
use mithril_cardano_node_internal_database::test::DummyCardanoDbBuilder;
use mithril_common::entities::{CardanoDbBeacon, Epoch, ImmutableFileNumber};

use crate::cardano_database_client::{CardanoDatabaseClientDependencyInjector, ImmutableFileRange};
use crate::common::test::Dummy;
use crate::test_utils::TestLogger;

use super::*;

async fn prepare(dir_name: &str, beacon: &CardanoDbBeacon, range: &RangeInclusive<ImmutableFileNumber>) -> (PathBuf, VerifiedDigests) {
    let cardano_db = DummyCardanoDbBuilder::new(dir_name).with_immutables(&range.clone().collect::<Vec<_>>()).append_immutable_trio().build();
    let database_dir = cardano_db.get_dir();
    let digester = CardanoImmutableDigester::new(None, TestLogger::stdout());
    let computed = digester.compute_digests_for_range(database_dir, range).await.unwrap();
    let digests = computed.entries.iter().map(|(f, d)| (f.filename.clone(), d.clone())).collect::<BTreeMap<_, _>>();
    let merkle_tree = digester.compute_merkle_tree(database_dir, beacon).await.unwrap();
    (database_dir.to_owned(), VerifiedDigests { digests, merkle_tree })
}

fn immutable(database_dir: &Path, name: &str) -> PathBuf { database_dir.join("immutable").join(name) }

async fn verify_with(database_dir: &Path, verified_digests: &VerifiedDigests, allow_missing: bool) -> bool {
    let client = CardanoDatabaseClientDependencyInjector::new().build_cardano_database_client();
    client
        .verify_cardano_database(&CertificateMessage::dummy(), &CardanoDatabaseSnapshotMessage::dummy(), &ImmutableFileRange::Range(2, 4), allow_missing, database_dir, verified_digests)
        .await
        .is_ok()
}

async fn scenario(tag: &str, change: impl FnOnce(&Path)) -> bool { scenario_with(tag, false, change).await }

async fn scenario_with(tag: &str, allow_missing: bool, change: impl FnOnce(&Path)) -> bool {
    let beacon = CardanoDbBeacon { epoch: Epoch(123), immutable_file_number: 10 };
    let (database_dir, verified_digests) = prepare(&format!("verif_c10_replay_{tag}"), &beacon, &(1..=15)).await;
    // files must differ in content for the scenarios to mean anything
    for n in 1..=10u64 {
        std::fs::write(immutable(&database_dir, &format!("{n:05}.chunk")), format!("chunk content of immutable {n}")).unwrap();
    }
    let (database_dir, verified_digests) = {
        let _ = verified_digests;
        let digester = CardanoImmutableDigester::new(None, TestLogger::stdout());
        let computed = digester.compute_digests_for_range(&database_dir, &(1..=15)).await.unwrap();
        let digests = computed.entries.iter().map(|(f, d)| (f.filename.clone(), d.clone())).collect::<BTreeMap<_, _>>();
        let merkle_tree = digester.compute_merkle_tree(&database_dir, &beacon).await.unwrap();
        (database_dir, VerifiedDigests { digests, merkle_tree })
    };
    change(&database_dir);
    verify_with(&database_dir, &verified_digests, allow_missing).await
}

#[tokio::test]
async fn replay_verify_cardano_database() {
    assert!(scenario("untouched", |_| {}).await, "the untouched certified directory is rejected");
    assert!(!scenario("modified", |d| std::fs::write(immutable(d, "00003.chunk"), "tampered content").unwrap()).await,
            "a modified immutable file (00003.chunk) is accepted");
    assert!(!scenario("swapped", |d| {
        let (a, b) = (immutable(d, "00002.chunk"), immutable(d, "00003.chunk"));
        let (ca, cb) = (std::fs::read(&a).unwrap(), std::fs::read(&b).unwrap());
        std::fs::write(&a, cb).unwrap();
        std::fs::write(&b, ca).unwrap();
    }).await, "two SWAPPED immutable files (content of 00002.chunk <-> 00003.chunk) are accepted: content is not bound to the file name");
    assert!(!scenario("duplicated", |d| {
        let c = std::fs::read(immutable(d, "00002.chunk")).unwrap();
        std::fs::write(immutable(d, "00003.chunk"), c).unwrap();
    }).await, "a DUPLICATED immutable file (00003.chunk replaced by a copy of 00002.chunk) is accepted");
    assert!(!scenario("foreign", |d| {
        let c = std::fs::read(immutable(d, "00008.chunk")).unwrap();
        std::fs::write(immutable(d, "00003.chunk"), c).unwrap();
    }).await, "a certified file from OUTSIDE the requested range (content of 00008.chunk in place of 00003.chunk, range 2..=4) is accepted");
    // allowing GAPS allows missing files only: every present file must still be the certified one of that name
    assert!(scenario_with("gaps_ok", true, |d| std::fs::remove_file(immutable(d, "00003.chunk")).unwrap()).await, "a missing file is rejected although the caller allowed gaps");
    assert!(!scenario_with("gaps_missing_not_allowed", false, |d| std::fs::remove_file(immutable(d, "00003.chunk")).unwrap()).await, "a missing file is accepted although gaps were not allowed");
    assert!(!scenario_with("gaps_swapped", true, |d| {
        let (a, b) = (immutable(d, "00002.chunk"), immutable(d, "00003.chunk"));
        let (ca, cb) = (std::fs::read(&a).unwrap(), std::fs::read(&b).unwrap());
        std::fs::write(&a, cb).unwrap();
        std::fs::write(&b, ca).unwrap();
    }).await, "with gaps allowed, two SWAPPED immutable files are accepted");
    assert!(!scenario_with("gaps_modified", true, |d| std::fs::write(immutable(d, "00003.chunk"), "tampered content").unwrap()).await, "with gaps allowed, a modified file is accepted");
}

/// list_immutable_files_not_verified compares with the digest stored UNDER THAT FILE NAME, not with the set of certified values
#[tokio::test]
async fn replay_list_immutable_files_not_verified() {
    use mithril_cardano_node_internal_database::entities::ImmutableFile;
    let beacon = CardanoDbBeacon { epoch: Epoch(123), immutable_file_number: 10 };
    let (database_dir, verified_digests) = prepare("verif_c10_replay_list", &beacon, &(1..=15)).await;
    let digester = CardanoImmutableDigester::new(None, TestLogger::stdout());
    let computed = digester.compute_digests_for_range(&database_dir, &(2..=4)).await.unwrap().entries;
    let none = verified_digests.list_immutable_files_not_verified(&computed);
    assert!(none.tampered_files.is_empty() && none.non_verifiable_files.is_empty(), "untouched files reported");
    // give one file the (certified) digest of another one
    let mut swapped: BTreeMap<ImmutableFile, String> = computed.clone();
    let keys: Vec<ImmutableFile> = swapped.keys().cloned().collect();
    let (d0, d1) = (swapped[&keys[0]].clone(), swapped[&keys[1]].clone());
    if d0 != d1 {
        swapped.insert(keys[0].clone(), d1);
        let r = verified_digests.list_immutable_files_not_verified(&swapped);
        assert!(r.tampered_files.contains(&keys[0].filename), "a file carrying the certified digest of ANOTHER file name is not reported as tampered");
    }
    // a file name the verified list does not know
    let mut unknown = computed.clone();
    unknown.insert(ImmutableFile::new(PathBuf::from("99999.chunk")).unwrap(), d0);
    assert!(verified_digests.list_immutable_files_not_verified(&unknown).non_verifiable_files.contains(&"99999.chunk".to_string()), "an unknown file name is not reported as non verifiable");
}

/// the served digest list is accepted only if its Merkle root is the one the certificate signs
#[test]
fn replay_check_merkle_root_is_signed_by_certificate() {
    use mithril_common::crypto_helper::{MKTree, MKTreeNode, MKTreeStoreInMemory};
    use mithril_common::entities::{ProtocolMessage, ProtocolMessagePartKey};
    let tree: MKTree<MKTreeStoreInMemory> = MKTree::new(&["a".to_string(), "b".to_string()]).unwrap();
    let other: MKTree<MKTreeStoreInMemory> = MKTree::new(&["a".to_string(), "c".to_string()]).unwrap();
    let (root, other_root): (MKTreeNode, MKTreeNode) = (tree.compute_root().unwrap(), other.compute_root().unwrap());
    let mut protocol_message = ProtocolMessage::new();
    protocol_message.set_message_part(ProtocolMessagePartKey::CardanoDatabaseMerkleRoot, root.to_hex());
    let certificate = CertificateMessage { protocol_message: protocol_message.clone(), signed_message: protocol_message.compute_hash(), ..CertificateMessage::dummy() };
    InternalArtifactProver::check_merkle_root_is_signed_by_certificate(&certificate, &root).expect("the certified root is rejected");
    assert!(InternalArtifactProver::check_merkle_root_is_signed_by_certificate(&certificate, &other_root).is_err(), "a Merkle root the certificate does NOT sign is accepted");
}

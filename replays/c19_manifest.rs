// C19 (partial) — replay on the REAL AncillaryFilesManifest::verify_data (mithril-cardano-node-internal-database). Attached as
// a cfg(test) child module of entities/ancillary_files_manifest.rs in the scratch copy. A test that FAILS reproduces a violation.
use std::io::Write;

use mithril_common::temp_dir_create;

use super::*;

fn write_file(path: &std::path::Path, content: &str) { let mut f = std::fs::File::create(path).unwrap(); write!(f, "{content}").unwrap(); }
fn sha(data: &str) -> String { hex::encode(Sha256::digest(data.as_bytes())) }

#[tokio::test]
async fn replay_verify_data() {
    let dir = temp_dir_create!();
    for (name, content) in [("a", "content a"), ("b", "content b"), ("c", "content c")] { write_file(&dir.join(name), content); }
    let data = |hc: &str| BTreeMap::from([(PathBuf::from("a"), sha("content a")), (PathBuf::from("b"), sha("content b")), (PathBuf::from("c"), hc.to_string())]);
    AncillaryFilesManifest::new_without_signature(data(&sha("content c"))).verify_data(&dir).await.expect("matching files rejected");
    // the LAST entry mismatching (every entry is checked, not only the first ones)
    assert!(AncillaryFilesManifest::new_without_signature(data(&sha("other"))).verify_data(&dir).await.is_err(), "a file whose hash differs from the listed one (last entry) is accepted");
    // same length, different hash
    let mut wrong = sha("content c"); let last = if wrong.ends_with('0') { '1' } else { '0' }; wrong.pop(); wrong.push(last);
    assert!(AncillaryFilesManifest::new_without_signature(data(&wrong)).verify_data(&dir).await.is_err(), "a hash differing in one character is accepted");
    // a listed file that does not exist
    let mut d = data(&sha("content c")); d.insert(PathBuf::from("missing"), sha("x"));
    assert!(AncillaryFilesManifest::new_without_signature(d).verify_data(&dir).await.is_err(), "a listed but missing file is accepted");
    // a listed path that is a DIRECTORY on disk (its unlisted content would be moved along with it)
    std::fs::create_dir_all(dir.join("ledger/737")).unwrap();
    write_file(&dir.join("ledger/737/state"), "unsigned state");
    let mut d = data(&sha("content c")); d.insert(PathBuf::from("ledger/737"), sha("whatever"));
    assert!(AncillaryFilesManifest::new_without_signature(d).verify_data(&dir).await.is_err(), "a listed path that is a DIRECTORY (carrying unlisted files) is accepted");
    // the hash of ANOTHER listed file
    assert!(AncillaryFilesManifest::new_without_signature(data(&sha("content a"))).verify_data(&dir).await.is_err(), "a file carrying the hash of another listed file is accepted");
}


/// the signed hash covers the FULL relative path of every entry: relocating an entry (other separators, other directory) under
/// the same file hashes must change the manifest hash, as must reordering hashes between entries
#[test]
fn replay_compute_hash() {
    let h = |pairs: &[(&str, &str)]| AncillaryFilesManifest::new_without_signature(pairs.iter().map(|(p, v)| (PathBuf::from(p), v.to_string())).collect()).compute_hash();
    let (a, b) = (sha("a"), sha("b"));
    let genuine = h(&[("ledger/737", &a), ("immutable/00002.chunk", &b)]);
    assert_eq!(genuine, h(&[("immutable/00002.chunk", &b), ("ledger/737", &a)]), "the manifest hash depends on insertion order");
    for relocated in [[("ledger737", a.as_str()), ("immutable/00002.chunk", b.as_str())], [("ledger/737", a.as_str()), ("immutable00002.chunk", b.as_str())], [("l/edger737", a.as_str()), ("immutable/00002.chunk", b.as_str())]] {
        assert!(genuine != h(&relocated), "a manifest whose entry was RELOCATED to {:?} has the same (signed) hash as the genuine one", relocated);
    }
    assert!(genuine != h(&[("ledger/737", &b), ("immutable/00002.chunk", &a)]), "exchanging the hashes of two entries does not change the manifest hash");
    assert!(genuine != h(&[("ledger/737", &a)]), "dropping an entry does not change the manifest hash");
}

// C19 (partial) — replay on the REAL AncillaryFilesManifest::verify_data (mithril-cardano-node-internal-database). Attached as
// a cfg(test) child module of entities/ancillary_files_manifest.rs in the scratch copy. A test that FAILS reproduces a violation.
use std::io::Write;

use mithril_common::temp_dir_create;

use super::*;

fn write_file(path: &std::path::Path, content: &str) { let mut f = std::fs::File::create(path).unwrap(); write!(f, "{content}").unwrap(); }
fn sha(data: &str) -> String { hex::encode(Sha256::digest(data.as_bytes())) }

#[tokio::test]
async fn replay_verify_data() {
    let dir = temp_dir_create!();
    for (name, content) in [("a", "content a"), ("b", "content b"), ("c", "content c")] { write_file(&dir.join(name), content); }
    let data = |hc: &str| BTreeMap::from([(PathBuf::from("a"), sha("content a")), (PathBuf::from("b"), sha("content b")), (PathBuf::from("c"), hc.to_string())]);
    AncillaryFilesManifest::new_without_signature(data(&sha("content c"))).verify_data(&dir).await.expect("matching files rejected");
    // the LAST entry mismatching (every entry is checked, not only the first ones)
    assert!(AncillaryFilesManifest::new_without_signature(data(&sha("other"))).verify_data(&dir).await.is_err(), "a file whose hash differs from the listed one (last entry) is accepted");
    // same length, different hash
    let mut wrong = sha("content c"); let last = if wrong.ends_with('0') { '1' } else { '0' }; wrong.pop(); wrong.push(last);
    assert!(AncillaryFilesManifest::new_without_signature(data(&wrong)).verify_data(&dir).await.is_err(), "a hash differing in one character is accepted");
    // a listed file that does not exist
    let mut d = data(&sha("content c")); d.insert(PathBuf::from("missing"), sha("x"));
    assert!(AncillaryFilesManifest::new_without_signature(d).verify_data(&dir).await.is_err(), "a listed but missing file is accepted");
    // the hash of ANOTHER listed file
    assert!(AncillaryFilesManifest::new_without_signature(data(&sha("content a"))).verify_data(&dir).await.is_err(), "a file carrying the hash of another listed file is accepted");
}

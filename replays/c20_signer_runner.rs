// C20 — replay on the REAL signer runner (mithril-signer/src/runtime/runner.rs): register_signer_to_aggregator and
// update_stake_distribution with the real stores (SQLite), a spy registration publisher and the fake chain observer of the
// repository's own test container (this module is attached INSIDE the file's `mod tests` to reuse `init_services`).
// A test that FAILS reproduces a violation.
use super::*;
use mithril_common::entities::StakeDistribution;

/// records every registration sent to the aggregator with the epoch it was sent for
#[derive(Default)]
struct RecordingPublisher { sent: std::sync::Mutex<Vec<(Epoch, Signer)>>, refuse_next: std::sync::Mutex<u32> }
#[async_trait::async_trait]
impl crate::services::SignerRegistrationPublisher for RecordingPublisher {
    async fn register_signer(&self, epoch: Epoch, signer: &Signer) -> StdResult<()> {
        let mut refuse = self.refuse_next.lock().unwrap();
        if *refuse > 0 {
            *refuse -= 1;
            return Err(anyhow::anyhow!("registration round not yet opened"));
        }
        self.sent.lock().unwrap().push((epoch, signer.clone()));
        Ok(())
    }
}

#[tokio::test]
async fn replay_register_signer_to_aggregator() {
    let mut services = init_services().await;
    let publisher = Arc::new(RecordingPublisher::default());
    services.signer_registration_publisher = publisher.clone();
    let (stake_store, initializer_store, epoch_service) = (services.stake_store.clone(), services.protocol_initializer_store.clone(), services.epoch_service.clone());
    let party_id = services.single_signer.get_party_id();
    let current_epoch = Epoch(20);
    // the epoch service knows epoch 20; the stake distributions stored under 20, 21, 22 give this party 2000, 2100, 2200
    for e in 20..=22u64 {
        let stakes: StakeDistribution = [(party_id.clone(), 100 * e), ("another-pool".to_string(), 7)].into_iter().collect();
        stake_store.save_stakes(Epoch(e), stakes).await.unwrap();
    }
    {
        let mut service = epoch_service.write().await;
        service.inform_epoch_settings(current_epoch, MithrilNetworkConfiguration { epoch: current_epoch, ..Dummy::dummy() }, vec![], vec![]).await.unwrap();
    }
    let runner = init_runner(Some(services), None).await;
    runner.register_signer_to_aggregator().await.expect("registration failed");

    // registered FOR the recording epoch 21, once, under this party's id
    let (registered_epoch, signer) = publisher.sent.lock().unwrap().last().cloned().expect("nothing was sent to the aggregator");
    assert_eq!(registered_epoch, Epoch(21), "the registration was sent for epoch {:?} instead of the recording epoch 21", registered_epoch);
    assert_eq!(signer.party_id, party_id);
    // key material saved under epoch 21 only, built for the stake of the distribution stored under epoch 21, and it is the
    // key material whose verification key was registered
    for e in [19u64, 20, 22] {
        assert!(initializer_store.get_protocol_initializer(Epoch(e)).await.unwrap().is_none(), "key material saved under epoch {} (registration for epoch 21)", e);
    }
    let saved = initializer_store.get_protocol_initializer(Epoch(21)).await.unwrap().expect("no key material saved under the recording epoch 21");
    assert_eq!(saved.get_stake(), 2100, "the key material was not built for this party's stake in the distribution stored under epoch 21");
    assert!(signer.verification_key_for_concatenation == saved.verification_key_for_concatenation().into(), "the registered verification key is not the key of the saved key material");

    // a second call for the same epoch neither registers again nor replaces the key material
    runner.register_signer_to_aggregator().await.unwrap();
    assert_eq!(publisher.sent.lock().unwrap().len(), 1, "a second registration was sent for the same recording epoch");
    let again = initializer_store.get_protocol_initializer(Epoch(21)).await.unwrap().unwrap();
    assert!(again.verification_key_for_concatenation() == saved.verification_key_for_concatenation(), "the key material registered for epoch 21 was REPLACED after registration");
}

/// a REFUSED registration leaves no key material behind, so that the next cycle registers again (keys found in the store make
/// the runner skip the registration: the aggregator would never learn the key)
#[tokio::test]
async fn replay_register_signer_to_aggregator_refused_then_accepted() {
    let mut services = init_services().await;
    let publisher = Arc::new(RecordingPublisher::default());
    *publisher.refuse_next.lock().unwrap() = 1;
    services.signer_registration_publisher = publisher.clone();
    let (stake_store, initializer_store, epoch_service) = (services.stake_store.clone(), services.protocol_initializer_store.clone(), services.epoch_service.clone());
    let party_id = services.single_signer.get_party_id();
    let stakes: StakeDistribution = [(party_id.clone(), 2100u64)].into_iter().collect();
    stake_store.save_stakes(Epoch(21), stakes).await.unwrap();
    {
        let mut service = epoch_service.write().await;
        service.inform_epoch_settings(Epoch(20), MithrilNetworkConfiguration { epoch: Epoch(20), ..Dummy::dummy() }, vec![], vec![]).await.unwrap();
    }
    let runner = init_runner(Some(services), None).await;
    assert!(runner.register_signer_to_aggregator().await.is_err(), "a refused registration is reported as success");
    assert!(initializer_store.get_protocol_initializer(Epoch(21)).await.unwrap().is_none(), "key material was KEPT although the aggregator refused the registration of its key");
    runner.register_signer_to_aggregator().await.expect("the retry failed");
    assert_eq!(publisher.sent.lock().unwrap().len(), 1, "after a refused first attempt the retry did not register the signer: the aggregator never received the key");
    let saved = initializer_store.get_protocol_initializer(Epoch(21)).await.unwrap().expect("no key material after the accepted retry");
    assert!(publisher.sent.lock().unwrap()[0].1.verification_key_for_concatenation == saved.verification_key_for_concatenation().into(), "the stored key material is not the one whose key the aggregator accepted");
}

#[tokio::test]
async fn replay_update_stake_distribution() {
    let services = init_services().await;
    let stake_store = services.stake_store.clone();
    let chain_distribution = services.chain_observer.get_current_stake_distribution().await.unwrap().expect("fake chain observer without stake distribution");
    let runner = init_runner(Some(services), None).await;
    runner.update_stake_distribution(Epoch(30)).await.unwrap();
    for e in [29u64, 30, 32] {
        assert!(stake_store.get_stakes(Epoch(e)).await.unwrap().is_none(), "a stake distribution was saved under epoch {} (current epoch 30, recording epoch 31)", e);
    }
    assert_eq!(stake_store.get_stakes(Epoch(31)).await.unwrap(), Some(chain_distribution), "the chain's current stake distribution is not saved under the recording epoch 31");
    // already stored: never overwritten
    let kept: StakeDistribution = [("kept".to_string(), 1u64)].into_iter().collect();
    stake_store.save_stakes(Epoch(41), kept.clone()).await.unwrap();
    runner.update_stake_distribution(Epoch(40)).await.unwrap();
    assert_eq!(stake_store.get_stakes(Epoch(41)).await.unwrap(), Some(kept), "a stored stake distribution was overwritten");
}

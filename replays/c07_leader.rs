// C07 / C20 — replay on the REAL aggregator leader (mithril-aggregator/src/services/signer_registration/leader.rs): real
// registration verifier (real cold / KES / BLS keys from MithrilFixtureBuilder), real SQLite verification-key store.
// Attached as a cfg(test) child module in the scratch copy. A test that FAILS reproduces a violation.
use std::sync::Arc;

use mithril_cardano_node_chain::test::double::FakeChainObserver;
use mithril_common::entities::{Epoch, Signer, StakeDistribution, TimePoint};
use mithril_common::test::builder::MithrilFixtureBuilder;
use mithril_common::test::double::Dummy;

use crate::database::{repository::SignerRegistrationStore, test_helper::main_db_connection};
use crate::services::{MithrilSignerRegistrationVerifier, MockSignerRecorder};
use crate::{SignerRegisterer, SignerRegistrationRoundOpener, VerificationKeyStorer};

use super::*;

fn leader() -> MithrilSignerRegistrationLeader {
    let mut recorder = MockSignerRecorder::new();
    recorder.expect_record_signer_registration().returning(|_| Ok(()));
    let chain_observer = FakeChainObserver::new(Some(TimePoint::dummy()));
    MithrilSignerRegistrationLeader::new(
        Arc::new(SignerRegistrationStore::new(Arc::new(main_db_connection().unwrap()), None)),
        Arc::new(recorder),
        Arc::new(MithrilSignerRegistrationVerifier::new(Arc::new(chain_observer))),
    )
}

#[tokio::test]
async fn replay_register_signer() {
    let fixture = MithrilFixtureBuilder::default().with_signers(4).build();
    let signers: Vec<Signer> = fixture.signers();
    // the ROUND's stake distribution: the first three pools only, with distinctive stakes
    let round_stakes: StakeDistribution = signers[0..3].iter().enumerate().map(|(i, s)| (s.party_id.clone(), 7000 + i as u64)).collect();
    let leader = leader();

    // no round open
    assert!(leader.register_signer(Epoch(5), &signers[0]).await.is_err(), "signer registered although no registration round is open");
    leader.open_registration_round(Epoch(5), round_stakes.clone()).await.unwrap();
    // another epoch than the round's
    for e in [4u64, 6] {
        assert!(leader.register_signer(Epoch(e), &signers[0]).await.is_err(), "signer registered for epoch {} while the open round is for epoch 5", e);
    }
    // the round's epoch: accepted, with the ROUND's stake, saved under the round's epoch only
    let registered = leader.register_signer(Epoch(5), &signers[0]).await.expect("a valid registration for the open round is rejected");
    assert_eq!(registered.party_id, signers[0].party_id);
    assert_eq!(registered.stake, 7000, "the registered stake is not the round's stake distribution value for the pool");
    let saved = leader.verification_key_store.get_signers(Epoch(5)).await.unwrap().unwrap_or_default();
    assert!(saved.iter().any(|s| s.party_id == signers[0].party_id && s.stake == 7000), "the registration is not saved under the round's epoch");
    for e in [4u64, 6] {
        assert!(leader.verification_key_store.get_signers(Epoch(e)).await.unwrap().unwrap_or_default().is_empty(), "a registration was saved under epoch {} (round epoch 5)", e);
    }
    // the same party again: reported as existing
    assert!(leader.register_signer(Epoch(5), &signers[0]).await.is_err(), "a second registration of the same party for the same epoch is accepted");
    // a pool that is not in the round's stake distribution
    assert!(leader.register_signer(Epoch(5), &signers[3]).await.is_err(), "a pool absent from the round's stake distribution is registered");
    // a registrant claiming another pool's id with its own key material
    let mut spliced = signers[1].clone();
    spliced.party_id = signers[2].party_id.clone();
    if let Ok(s) = leader.register_signer(Epoch(5), &spliced).await {
        assert_eq!(s.party_id, signers[1].party_id, "registered under a CLAIMED party id instead of the pool id bound to the operational certificate");
    }
    // closed round
    leader.close_registration_round().await.unwrap();
    assert!(leader.register_signer(Epoch(5), &signers[1]).await.is_err(), "signer registered after the round was closed");
}

#[tokio::test]
async fn replay_open_registration_round() {
    let leader = leader();
    let stakes: StakeDistribution = [("pool-a".to_string(), 11u64)].into_iter().collect();
    leader.open_registration_round(Epoch(9), stakes.clone()).await.unwrap();
    let round = leader.get_current_round().await.expect("no round after open_registration_round");
    assert_eq!(round.epoch, Epoch(9));
    assert_eq!(round.stake_distribution, stakes);
    leader.close_registration_round().await.unwrap();
    assert!(leader.get_current_round().await.is_none(), "round still open after close_registration_round");
}
#[tokio::test]
async fn replay_close_registration_round() { replay_open_registration_round_inner().await }
async fn replay_open_registration_round_inner() {
    let leader = leader();
    leader.open_registration_round(Epoch(9), StakeDistribution::new()).await.unwrap();
    leader.close_registration_round().await.unwrap();
    assert!(leader.get_current_round().await.is_none(), "round still open after close_registration_round");
}

/// the aggregator's registration verifier: the registered identity is the pool id bound to the operational certificate,
/// never the id the registrant claims; the stake is the distribution's value for THAT pool
#[tokio::test]
async fn replay_verify() {
    use crate::services::SignerRegistrationVerifier;
    let fixture = MithrilFixtureBuilder::default().with_signers(3).build();
    let signers: Vec<Signer> = fixture.signers();
    let stakes: StakeDistribution = signers.iter().enumerate().map(|(i, s)| (s.party_id.clone(), 500 + i as u64)).collect();
    let verifier = MithrilSignerRegistrationVerifier::new(Arc::new(FakeChainObserver::new(Some(TimePoint::dummy()))));
    let honest = verifier.verify(&signers[0], &stakes).await.expect("honest registration rejected");
    assert_eq!((honest.party_id.clone(), honest.stake), (signers[0].party_id.clone(), 500));
    // pool 0's certificate, key and signature, registered under pool 1's NAME (or under an empty name)
    for claimed in [signers[1].party_id.clone(), String::new()] {
        let mut spliced = signers[0].clone();
        spliced.party_id = claimed.clone();
        if let Ok(s) = verifier.verify(&spliced, &stakes).await {
            assert_eq!(s.party_id, signers[0].party_id, "registration accepted under the CLAIMED party id '{}' instead of the pool id bound to the operational certificate", claimed);
            assert_eq!(s.stake, 500, "registration accepted with the stake of another pool");
        }
    }
    // a pool absent from the stake distribution
    let partial: StakeDistribution = stakes.iter().filter(|(k, _)| **k != signers[2].party_id).map(|(k, v)| (k.clone(), *v)).collect();
    assert!(verifier.verify(&signers[2], &partial).await.is_err(), "a pool absent from the stake distribution is accepted");
}

// C16 (buffered path) — replay on the REAL BufferedCertifierService with the real SQLite buffer repository and a mocked
// decorated certifier. Attached as a cfg(test) child module of mithril-aggregator/src/services/certifier/buffered_certifier.rs
// in the scratch copy. A test that FAILS reproduces a violation.
use anyhow::anyhow;
use mithril_common::entities::{Epoch, SignedEntityTypeDiscriminants, SingleSignatureAuthenticationStatus};
use mithril_common::test::double::fake_data;

use crate::database::repository::BufferedSingleSignatureRepository;
use crate::database::test_helper::main_db_connection;
use crate::services::{CertifierServiceError, MockCertifierService};
use crate::test::TestLogger;

use super::*;

async fn run(inner: impl Fn() -> StdResult<SignatureRegistrationStatus> + Send + Sync + 'static, authenticated: bool) -> (StdResult<SignatureRegistrationStatus>, usize) {
    let store = Arc::new(BufferedSingleSignatureRepository::new(Arc::new(main_db_connection().unwrap())));
    let mut certifier = MockCertifierService::new();
    certifier.expect_register_single_signature().returning(move |_, _| inner());
    let service = BufferedCertifierService::new(Arc::new(certifier), store.clone(), TestLogger::stdout());
    let signature = SingleSignature {
        authentication_status: if authenticated { SingleSignatureAuthenticationStatus::Authenticated } else { SingleSignatureAuthenticationStatus::Unauthenticated },
        ..fake_data::single_signature(vec![1, 2])
    };
    let t = SignedEntityType::MithrilStakeDistribution(Epoch(5));
    let r = service.register_single_signature(&t, &signature).await;
    let n = store.get_buffered_signatures(SignedEntityTypeDiscriminants::MithrilStakeDistribution).await.unwrap().len();
    (r, n)
}

#[tokio::test]
async fn replay_register_single_signature() {
    let t = || SignedEntityType::MithrilStakeDistribution(Epoch(5));
    // registered by the decorated certifier: passed on, nothing buffered
    let (r, n) = run(|| Ok(SignatureRegistrationStatus::Registered), true).await;
    assert!(matches!(r, Ok(SignatureRegistrationStatus::Registered)) && n == 0, "a registered signature was also buffered");
    // no open message + authenticated: buffered
    let (r, n) = run(move || Err(CertifierServiceError::NotFound(t()).into()), true).await;
    assert!(matches!(r, Ok(SignatureRegistrationStatus::Buffered)) && n == 1, "an authenticated signature without open message is not buffered");
    // no open message + NOT authenticated: refused, nothing buffered
    let (r, n) = run(move || Err(CertifierServiceError::NotFound(t()).into()), false).await;
    assert!(r.is_err() && n == 0, "an UNAUTHENTICATED signature was put into the buffer ({} buffered, result {:?})", n, r.map(|_| ()));
    // any other refusal of the decorated certifier (invalid signature, expired, certified, anything): refused, nothing buffered
    for authenticated in [true, false] {
        let (r, n) = run(move || Err(CertifierServiceError::InvalidSingleSignature(t(), "party".to_string(), anyhow!("invalid")).into()), authenticated).await;
        assert!(r.is_err() && n == 0, "a signature the certifier rejected as INVALID was buffered or accepted");
        let (r, n) = run(move || Err(CertifierServiceError::Expired(t()).into()), authenticated).await;
        assert!(r.is_err() && n == 0, "a signature for an EXPIRED open message was buffered or accepted");
        let (r, n) = run(|| Err(anyhow!("database unavailable")), authenticated).await;
        assert!(r.is_err() && n == 0, "a signature was buffered or accepted although the certifier failed");
    }
}

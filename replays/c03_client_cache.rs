// C03 — replay on the REAL mithril-client chain walk WITH the certificate-verifier cache (cargo feature `unstable`, which the
// workspace build and mithril-client-cli enable). Attached as a cfg(test) child module of certificate_client/verify.rs in the
// scratch copy. A test that FAILS reproduces a violation.
// Scenario: an honest chain is verified once (this fills the cache with hash -> previous hash of every certificate that was
// verified). Then the provider answers for a FORGED head certificate - made and signed by an attacker's own signers - that links
// to the hash H of an honest, cached certificate P of the preceding epoch, and answers H with a forged copy P' of P: same
// `hash` field, but a protocol message announcing the attacker's aggregate key and parameters as "next". The forged head must be
// rejected: the only certificate whose content vouches for the attacker's key is P', whose content does not match its hash.
#![cfg(feature = "unstable")]
use std::collections::HashMap;
use std::sync::Arc;

use chrono::TimeDelta;
use mithril_common::entities::{ProtocolMessagePartKey, ProtocolParameters};
use mithril_common::messages::CertificateMessage;
use mithril_common::test::builder::CertificateChainBuilder;

use crate::certificate_client::tests_utils::CertificateClientTestBuilder;
use crate::certificate_client::{CertificateVerifierCache, MemoryCertificateVerifierCache};

use super::*;

fn key_hex(genesis_verifier: &GenesisVerifier) -> String {
    genesis_verifier.to_ed25519_verification_key().try_into().unwrap()
}

fn client_for(served: &[(String, Certificate)], key: String, cache: Arc<MemoryCertificateVerifierCache>) -> CertificateClient {
    let map: HashMap<String, CertificateMessage> = served.iter().map(|(h, c)| (h.clone(), c.clone().try_into().unwrap())).collect();
    CertificateClientTestBuilder::default()
        .config_aggregator_requester_mock(move |mock| {
            mock.expect_get_by_hash().returning(move |h| Ok(map.get(h).cloned()));
        })
        .with_genesis_verification_key(key)
        .with_verifier_cache(cache)
        .build()
}

async fn scenario() {
    // honest chain: one certificate per epoch
    let honest = CertificateChainBuilder::new().with_total_certificates(5).with_certificates_per_epoch(1).build();
    let certs: Vec<Certificate> = honest.certificates_chained.clone();
    let key = key_hex(&honest.genesis_verifier);
    let mut served: Vec<(String, Certificate)> = certs.iter().map(|c| (c.hash.clone(), c.clone())).collect();
    let cache = Arc::new(MemoryCertificateVerifierCache::new(TimeDelta::hours(1)));
    client_for(&served, key.clone(), cache.clone()).verify_chain(&certs[0].hash).await.expect("honest chain rejected");
    assert!(cache.len().await > 0, "the cache was not filled by the first verification");

    // P: an honest certificate (not the head, not genesis) whose hash is now in the cache
    let p = certs[1].clone();
    assert!(!p.is_genesis());
    // the attacker's own chain (other parameters => other signers' lotteries, other aggregate key), certificate of epoch(P) + 1
    let attacker = CertificateChainBuilder::new()
        .with_total_certificates(5)
        .with_certificates_per_epoch(1)
        .with_protocol_parameters(ProtocolParameters::new(3, 50, 0.9).into())
        .with_total_signers_per_epoch_processor(&|epoch| (*epoch as usize % 3) + 2)
        .build();
    let c2 = attacker.certificates_chained.iter().find(|c| c.epoch == p.epoch + 1 && !c.is_genesis()).expect("attacker chain has no certificate at the epoch after P").clone();
    assert!(c2.aggregate_verification_key != certs[0].aggregate_verification_key, "attacker key equals the honest key: scenario meaningless");
    // forged head: the attacker's validly signed certificate, re-linked to H and re-hashed
    let mut forged_head = c2.clone();
    forged_head.previous_hash = p.hash.clone();
    forged_head.hash = forged_head.try_compute_hash().unwrap();
    // forged P': same hash FIELD as P, content announcing the attacker's key and parameters
    let mut forged_p = p.clone();
    forged_p.protocol_message.set_message_part(ProtocolMessagePartKey::NextAggregateVerificationKey, forged_head.aggregate_verification_key.to_json_hex().unwrap());
    forged_p.protocol_message.set_message_part(ProtocolMessagePartKey::NextProtocolParameters, forged_head.metadata.protocol_parameters.compute_hash());
    assert!(forged_p.try_compute_hash().unwrap() != forged_p.hash, "forged P' should not match its hash");
    served.push((forged_head.hash.clone(), forged_head.clone()));
    for s in served.iter_mut() {
        if s.0 == p.hash { s.1 = forged_p.clone(); }
    }
    // without a cache the forged chain is rejected (P' is verified and its hash does not match)
    let fresh = Arc::new(MemoryCertificateVerifierCache::new(TimeDelta::hours(1)));
    assert!(client_for(&served, key.clone(), fresh).verify_chain(&forged_head.hash).await.is_err(), "forged chain accepted even with an empty cache");
    // with the cache filled by the honest run it must be rejected as well
    let r = client_for(&served, key.clone(), cache.clone()).verify_chain(&forged_head.hash).await;
    assert!(r.is_err(), "FORGED head certificate {} (signed by the attacker's own signers, aggregate key never certified by the chain) ACCEPTED: \
                         the certificate {} vouching for that key was answered with forged content under a cached hash and never checked against its hash",
            forged_head.hash, p.hash);
}

#[tokio::test]
async fn replay_verify_chain() { scenario().await }
#[tokio::test]
async fn replay_verify_with_cache_enabled() { scenario().await }

/// a chain that was rejected stays rejected when the provider presents it again: nothing of a certificate whose verification
/// FAILED may be remembered by the cache (only links of certificates the verifier accepted are stored)
#[tokio::test]
async fn replay_verify_without_cache() {
    let honest = CertificateChainBuilder::new().with_total_certificates(5).with_certificates_per_epoch(1).build();
    let certs: Vec<Certificate> = honest.certificates_chained.clone();
    let key = key_hex(&honest.genesis_verifier);
    let genesis_hash = certs.last().unwrap().hash.clone();
    // the third certificate re-targeted straight to the genesis certificate, hash not recomputed
    let mut served: Vec<(String, Certificate)> = certs.iter().map(|c| (c.hash.clone(), c.clone())).collect();
    served[2].1.previous_hash = genesis_hash.clone();
    let cache = Arc::new(MemoryCertificateVerifierCache::new(TimeDelta::hours(1)));
    let client = client_for(&served, key.clone(), cache.clone());
    assert!(client.verify_chain(&certs[0].hash).await.is_err(), "altered chain accepted at its first presentation");
    assert!(cache.get_previous_hash(&certs[2].hash).await.unwrap().is_none(),
            "the link {} -> {} of a certificate whose verification FAILED was stored in the cache", certs[2].hash, genesis_hash);
    assert!(client.verify_chain(&certs[0].hash).await.is_err(), "the very same altered chain is ACCEPTED at its second presentation (cache poisoned by the first, rejected run)");
}

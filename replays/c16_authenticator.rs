// C16 — replay on the REAL aggregator authenticator with the REAL MultiSignerImpl (real keys), the epoch service holding
// DIFFERENT current and next signer sets. Attached as a cfg(test) child module of
// mithril-aggregator/src/tools/single_signature_authenticator.rs in the scratch copy. A test that FAILS reproduces a violation.
use std::sync::Arc;
use tokio::sync::RwLock;

use mithril_common::entities::{Epoch, ProtocolMessage, ProtocolMessagePartKey, ProtocolParameters};
use mithril_common::protocol::ToMessage;
use mithril_common::test::builder::MithrilFixtureBuilder;
use mithril_common::test::double::Dummy;

use crate::entities::AggregatorEpochSettings;
use crate::multi_signer::MultiSignerImpl;
use crate::services::FakeEpochServiceBuilder;
use crate::test::TestLogger;

use super::*;

async fn scenario() {
    let current = MithrilFixtureBuilder::default().with_signers(3).with_protocol_parameters(ProtocolParameters::new(2, 10, 1.0)).build();
    let next = MithrilFixtureBuilder::default().with_signers(5).with_protocol_parameters(ProtocolParameters::new(2, 10, 1.0)).build();
    let epoch_service = FakeEpochServiceBuilder {
        current_epoch_settings: AggregatorEpochSettings { protocol_parameters: current.protocol_parameters(), ..AggregatorEpochSettings::dummy() },
        next_epoch_settings: AggregatorEpochSettings { protocol_parameters: next.protocol_parameters(), ..AggregatorEpochSettings::dummy() },
        current_signers_with_stake: current.signers_with_stake(),
        next_signers_with_stake: next.signers_with_stake(),
        ..FakeEpochServiceBuilder::dummy(Epoch(5))
    }
    .build();
    let multi_signer = MultiSignerImpl::new(mithril_common::AggregateSignatureType::Concatenation, Arc::new(RwLock::new(epoch_service)), TestLogger::stdout());
    let authenticator = SingleSignatureAuthenticator::new(Arc::new(multi_signer), TestLogger::stdout());
    let mut message = ProtocolMessage::new();
    message.set_message_part(ProtocolMessagePartKey::CurrentEpoch, "5".to_string());
    let signed_message = message.to_message();
    let status = |s: &SingleSignature| s.authentication_status.clone();

    // a signer of the current stake distribution, and one that only exists in the next one
    let mut of_current = current.sign_all(&message)[0].clone();
    let mut of_next = next.sign_all(&message).into_iter().find(|s| !current.signers().iter().any(|c| c.party_id == s.party_id)).expect("next fixture has no extra signer");
    let before = of_current.clone();
    authenticator.authenticate(&mut of_current, &signed_message).await.unwrap();
    assert_eq!(status(&of_current), SingleSignatureAuthenticationStatus::Authenticated, "a valid signature of a current signer is not authenticated");
    assert!(of_current.party_id == before.party_id && of_current.won_indexes == before.won_indexes, "authenticate changed the submission");
    authenticator.authenticate(&mut of_next, &signed_message).await.unwrap();
    assert_eq!(status(&of_next), SingleSignatureAuthenticationStatus::Authenticated, "a valid signature of a signer of the NEXT stake distribution is not authenticated");

    // another message
    let mut other = ProtocolMessage::new();
    other.set_message_part(ProtocolMessagePartKey::CurrentEpoch, "6".to_string());
    let mut wrong_message = current.sign_all(&other)[0].clone();
    wrong_message.authentication_status = SingleSignatureAuthenticationStatus::Authenticated;   // whatever the submitter claims
    authenticator.authenticate(&mut wrong_message, &signed_message).await.unwrap();
    assert_eq!(status(&wrong_message), SingleSignatureAuthenticationStatus::Unauthenticated, "a signature made on ANOTHER message is authenticated");

    // a valid signature of pool A submitted under the name of pool B
    let all = current.sign_all(&message);
    let mut spoofed = all[0].clone();
    spoofed.party_id = all[1].party_id.clone();
    authenticator.authenticate(&mut spoofed, &signed_message).await.unwrap();
    assert_eq!(status(&spoofed), SingleSignatureAuthenticationStatus::Unauthenticated, "pool {}'s signature submitted under the name of pool {} is authenticated", all[0].party_id, all[1].party_id);
}

#[tokio::test]
async fn replay_authenticate() { scenario().await }
#[tokio::test]
async fn replay_verify_single_signature() { scenario().await }
#[tokio::test]
async fn replay_verify_single_signature_for_next_stake_distribution() { scenario().await }
#[tokio::test]
async fn replay_run_verify_single_signature() { scenario().await }

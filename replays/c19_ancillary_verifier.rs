// C19 (partial) — replay on the REAL AncillaryVerifier::verify (mithril-client/src/utils/ancillary_verifier.rs, features fs +
// rustls): real files, real SHA-256, real Ed25519 manifest signatures. Attached as a cfg(test) child module in the scratch
// copy. A test that FAILS reproduces a violation.
use std::collections::BTreeMap;
use std::io::Write;

use sha2::{Digest, Sha256};

use mithril_common::crypto_helper::ManifestSigner;
use mithril_common::temp_dir_create;

use super::*;

fn write_file(path: &Path, content: &str) { let mut f = File::create(path).unwrap(); write!(f, "{content}").unwrap(); }
fn sha(data: &str) -> String { hex::encode(Sha256::digest(data.as_bytes())) }
fn write_manifest(dir: &Path, manifest: &AncillaryFilesManifest) {
    serde_json::to_writer(File::create(dir.join(AncillaryFilesManifest::ANCILLARY_MANIFEST_FILE_NAME)).unwrap(), manifest).unwrap();
}
fn manifest_for(dir: &Path, signer: Option<&ManifestSigner>) -> AncillaryFilesManifest {
    std::fs::create_dir_all(dir.join("ledger")).unwrap();
    write_file(&dir.join("ledger/state"), "ledger state");
    write_file(&dir.join("protocolMagicId"), "magic");
    let mut m = AncillaryFilesManifest::new_without_signature(BTreeMap::from([
        (PathBuf::from("ledger/state"), sha("ledger state")),
        (PathBuf::from("protocolMagicId"), sha("magic")),
    ]));
    if let Some(s) = signer { m.set_signature(s.sign(&m.compute_hash())); }
    m
}

#[tokio::test]
async fn replay_verify() {
    let signer = ManifestSigner::create_deterministic_signer();
    let other_signer = ManifestSigner::create_non_deterministic_signer();
    let verifier = AncillaryVerifier::new(signer.verification_key());

    // valid: exactly the listed files are handed on, an unlisted file of the archive is not
    let dir = temp_dir_create!();
    write_manifest(&dir, &manifest_for(&dir, Some(&signer)));
    write_file(&dir.join("volatile.extra"), "not listed");
    let validated = verifier.verify(&dir).await.expect("a valid signed manifest with matching files is rejected");
    assert_eq!(validated.ancillary_files, vec![PathBuf::from("ledger/state"), PathBuf::from("protocolMagicId")], "files handed on are not exactly the listed ones");
    assert_eq!(validated.base_directory, dir);

    // a listed file whose content was replaced
    let dir = temp_dir_create!();
    write_manifest(&dir, &manifest_for(&dir, Some(&signer)));
    write_file(&dir.join("ledger/state"), "another ledger state");
    assert!(verifier.verify(&dir).await.is_err(), "a listed file whose content does not hash to the listed hash is accepted");

    // a listed file that is missing
    let dir = temp_dir_create!();
    write_manifest(&dir, &manifest_for(&dir, Some(&signer)));
    std::fs::remove_file(dir.join("protocolMagicId")).unwrap();
    assert!(verifier.verify(&dir).await.is_err(), "a manifest listing a missing file is accepted");

    // not signed / signed by another key / signature made for another manifest
    let dir = temp_dir_create!();
    write_manifest(&dir, &manifest_for(&dir, None));
    assert!(verifier.verify(&dir).await.is_err(), "an UNSIGNED manifest is accepted");
    let dir = temp_dir_create!();
    write_manifest(&dir, &manifest_for(&dir, Some(&other_signer)));
    assert!(verifier.verify(&dir).await.is_err(), "a manifest signed under ANOTHER key than the configured one is accepted");
    let dir = temp_dir_create!();
    let mut m = manifest_for(&dir, Some(&signer));
    write_file(&dir.join("extra"), "extra");
    let signature = m.signature().unwrap();
    m = { let mut data = m.signable_manifest.data.clone(); data.insert(PathBuf::from("extra"), sha("extra")); AncillaryFilesManifest::new(data, signature) };
    write_manifest(&dir, &m);
    assert!(verifier.verify(&dir).await.is_err(), "a manifest with an ADDED entry under the signature of the original manifest is accepted");

    // EVERY listed file is checked, whatever directory it is listed under (the ancillary archive also carries the immutable
    // trio following the last certified one: the signed manifest is its only protection)
    let dir = temp_dir_create!();
    std::fs::create_dir_all(dir.join("immutable")).unwrap();
    write_file(&dir.join("immutable/00003.chunk"), "chunk");
    let mut m = manifest_for(&dir, None);
    let mut data = m.signable_manifest.data.clone();
    data.insert(PathBuf::from("immutable/00003.chunk"), sha("chunk"));
    m = AncillaryFilesManifest::new_without_signature(data);
    m.set_signature(signer.sign(&m.compute_hash()));
    write_manifest(&dir, &m);
    verifier.verify(&dir).await.expect("a valid manifest listing an immutable file is rejected");
    write_file(&dir.join("immutable/00003.chunk"), "forged chunk");
    assert!(verifier.verify(&dir).await.is_err(), "a listed file under immutable/ whose content does not hash to the listed hash is accepted");

    // no manifest at all
    let dir = temp_dir_create!();
    write_file(&dir.join("ledger"), "x");
    assert!(verifier.verify(&dir).await.is_err(), "a directory without manifest is accepted");
}

// C17 — replay of beacon violations on the REAL functions over a grid of inputs including the boundaries (attached as a
// cfg(test) child module of mithril-common/src/entities/signed_entity_config.rs in the scratch copy).
use super::*;

const TIPS: [u64; 14] = [0, 1, 14, 15, 16, 29, 30, 44, 45, 99, 100, 1_000_003, u64::MAX - 1, u64::MAX];
const SECS: [u64; 9] = [0, 1, 14, 15, 16, 100, 1_000_000, u64::MAX - 1, u64::MAX];
const STEPS: [u64; 14] = [0, 1, 2, 14, 15, 16, 29, 30, 31, 45, 100, 1_000_000, u64::MAX - 1, u64::MAX];

fn dense() -> impl Iterator<Item = (u64, u64, u64)> {
    (0..130u64).flat_map(|tip| [0u64, 1, 7, 15, 20].into_iter().flat_map(move |sec| [0u64, 1, 5, 15, 16, 30, 40].into_iter().map(move |step| (tip, sec, step))))
}
fn grid() -> impl Iterator<Item = (u64, u64, u64)> {
    TIPS.into_iter().flat_map(|t| SECS.into_iter().flat_map(move |s| STEPS.into_iter().map(move |st| (t, s, st)))).chain(dense())
}

/// both `compute_block_number_to_be_signed` methods and the shared formula: margin, whole steps, block-range boundary,
/// monotone in the tip
#[test]
fn replay_compute_block_number_to_be_signed() {
    for (tip, sec, step) in grid() {
        let x = tip.saturating_sub(sec);
        // blocks entity
        let cfg = CardanoBlocksTransactionsSigningConfig { security_parameter: BlockNumberOffset(sec), step: BlockNumber(step) };
        let r = *cfg.compute_block_number_to_be_signed(BlockNumber(tip));
        let s = step.max(1);
        assert!(r <= x, "blocks: tip={tip} security={sec} step={step}: beacon {r} above the margin {x}");
        assert!(r % s == 0, "blocks: tip={tip} security={sec} step={step}: beacon {r} is not a whole number of steps");
        assert!(x - r < s, "blocks: tip={tip} security={sec} step={step}: beacon {r} more than one step below the margin {x}");
        if tip < u64::MAX {
            let r2 = *cfg.compute_block_number_to_be_signed(BlockNumber(tip + 1));
            assert!(r2 >= r, "blocks: beacon decreases from {r} to {r2} when the tip advances from {tip} (security={sec} step={step})");
        }
        // transactions entity
        let cfg = CardanoTransactionsSigningConfig { security_parameter: BlockNumberOffset(sec), step: BlockNumber(step) };
        let r = *cfg.compute_block_number_to_be_signed(BlockNumber(tip));
        let s = (step / 15 * 15).max(15);
        assert!(r <= x, "transactions: tip={tip} security={sec} step={step}: beacon {r} above the margin {x}");
        if x >= s {
            assert!((r + 1) % s == 0, "transactions: tip={tip} security={sec} step={step}: beacon+1 = {} is not a whole number of (adjusted) steps {s}", r + 1);
            assert!((r + 1) % 15 == 0, "transactions: tip={tip} security={sec} step={step}: beacon {r} does not end a complete block range");
            assert!(x - (r + 1) < s, "transactions: tip={tip} security={sec} step={step}: beacon {r} more than one step below the margin {x}");
            assert!(BlockRange::from_block_number(BlockNumber(r)).is_fully_covered_at(BlockNumber(r)), "transactions: block range of beacon {r} not complete");
        } else {
            assert!(r == 0, "transactions: tip={tip} security={sec} step={step}: beacon {r} before the first signing step");
        }
        if tip < u64::MAX {
            let r2 = *cfg.compute_block_number_to_be_signed(BlockNumber(tip + 1));
            assert!(r2 >= r, "transactions: beacon decreases from {r} to {r2} when the tip advances from {tip} (security={sec} step={step})");
        }
    }
}

#[test]
fn replay_start() {
    for n in (0..100u64).chain([u64::MAX - 16, u64::MAX - 15, u64::MAX - 1, u64::MAX]) {
        let s = *BlockRange::start(BlockNumber(n));
        assert!(s % 15 == 0 && s <= n && n - s < 15, "BlockRange::start({n}) = {s}");
    }
}

#[test]
fn replay_start_with_length() {
    replay_start();
}

#[test]
fn replay_is_fully_covered_at() {
    for n in 0..100u64 {
        let range = BlockRange::from_block_number(BlockNumber(n));
        let start = n / 15 * 15;
        for at in 0..140u64 {
            assert_eq!(range.is_fully_covered_at(BlockNumber(at)), at >= start + 14, "range of block {n} covered at {at}");
        }
    }
}

// C16 — replay on the REAL mithril-common MultiSigner with real keys (attached as cfg(test) child module of
// mithril-common/src/protocol/multi_signer.rs in the scratch copy).
use super::*;
use crate::entities::ProtocolMessage;
use crate::protocol::SignerBuilder;
use crate::test::builder::{MithrilFixture, MithrilFixtureBuilder};

fn build_multi_signer(fixture: &MithrilFixture) -> MultiSigner {
    SignerBuilder::new(&fixture.signers_with_stake(), &fixture.protocol_parameters()).unwrap().build_multi_signer()
}

/// party A's own valid signature, submitted under party B's name, must not be authenticated for B
#[test]
fn replay_c16_signature_attributed_to_named_party() {
    let fixture = MithrilFixtureBuilder::default().with_signers(3).build();
    let multi_signer = build_multi_signer(&fixture);
    let message = ProtocolMessage::default();
    let signers = fixture.signers_fixture();
    let mut sig_of_a = signers.iter().find_map(|s| s.sign(&message)).expect("some signer wins the lottery");
    let a = sig_of_a.party_id.clone();
    let b = signers.iter().map(|s| s.signer_with_stake.party_id.clone()).find(|p| *p != a).unwrap();
    assert!(multi_signer.verify_single_signature(&message, &sig_of_a).is_ok(), "honest signature rejected");
    sig_of_a.party_id = b.clone();
    assert!(multi_signer.verify_single_signature(&message, &sig_of_a).is_err(),
        "the signature made by party '{}' with its own key is accepted (authenticated) under the name of party '{}': verify_single_signature checks the key at the signature's signer_index and never the claimed party_id", a, b);
}

/// a signature is only accepted if it verifies under the key at the slot it names AND that key is the one registered by the
/// party the submission names
#[test]
fn replay_verify_single_signature() {
    replay_c16_signature_attributed_to_named_party();
    let fixture = MithrilFixtureBuilder::default().with_signers(3).build();
    let multi_signer = build_multi_signer(&fixture);
    let message = ProtocolMessage::default();
    let signers = fixture.signers_fixture();
    let sig = signers.iter().find_map(|s| s.sign(&message)).expect("some signer wins the lottery");
    let mut other_message = ProtocolMessage::default();
    other_message.set_message_part(crate::entities::ProtocolMessagePartKey::SnapshotDigest, "another".to_string());
    assert!(multi_signer.verify_single_signature(&other_message, &sig).is_err(), "signature accepted for another message");
    // an unknown party name, and every honest signer under its own name
    let mut unknown = sig.clone();
    unknown.party_id = "pool-unknown".to_string();
    assert!(multi_signer.verify_single_signature(&message, &unknown).is_err(), "signature accepted under a party name that never registered");
    for s in signers.iter() {
        if let Some(own) = s.sign(&message) {
            multi_signer.verify_single_signature(&message, &own).expect("an honest signature under the signer's own name is rejected");
        }
    }
}

// C06 — replay on the REAL client path (mithril-client/src/message.rs compute_mithril_stake_distribution_message). Attached
// as a cfg(test) child module in the scratch copy. A test that FAILS reproduces a violation: the NextAggregateVerificationKey
// part must be the JSON-hex key SignerBuilder derives from exactly the distribution's signers and the distribution's
// parameters (not the certificate's), whatever the order of the signer list; every other message part is untouched.
use mithril_common::entities::ProtocolParameters;
use mithril_common::messages::SignerWithStakeMessagePart;
use mithril_common::test::builder::MithrilFixtureBuilder;
use mithril_common::test::double::Dummy;

use super::*;

#[test]
fn replay_compute_mithril_stake_distribution_message() {
    let parameters = ProtocolParameters::new(7, 70, 0.7);
    let fixture = MithrilFixtureBuilder::default().with_signers(5).with_protocol_parameters(parameters.clone()).build();
    let signers = fixture.signers_with_stake();
    let expected = ProtocolKey::new(
        SignerBuilder::new(&signers, &parameters).unwrap().compute_aggregate_verification_key().to_concatenation_aggregate_verification_key().to_owned(),
    )
    .to_json_hex()
    .unwrap();

    let mut certificate = MithrilCertificate::dummy();
    certificate.metadata.protocol_parameters = ProtocolParameters::new(5, 100, 0.65);   // deliberately different
    certificate.protocol_message.set_message_part(ProtocolMessagePartKey::NextAggregateVerificationKey, "stale".to_string());
    certificate.protocol_message.set_message_part(ProtocolMessagePartKey::CurrentEpoch, "42".to_string());

    // a registered party with stake 0 is still a registered (key, stake) pair: the client must derive the key every other node derives
    let mut with_zero_stake = signers.clone();
    with_zero_stake[4].stake = 0;
    if let Ok(builder) = SignerBuilder::new(&with_zero_stake, &parameters) {
        let expected_zero = ProtocolKey::new(builder.compute_aggregate_verification_key().to_concatenation_aggregate_verification_key().to_owned()).to_json_hex().unwrap();
        let distribution = MithrilStakeDistribution {
            signers_with_stake: SignerWithStakeMessagePart::from_signers(with_zero_stake.clone()),
            protocol_parameters: parameters.clone(),
            ..MithrilStakeDistribution::dummy()
        };
        let message = MessageBuilder::new().compute_mithril_stake_distribution_message(&certificate, &distribution).unwrap();
        assert_eq!(message.get_message_part(&ProtocolMessagePartKey::NextAggregateVerificationKey), Some(&expected_zero),
                   "client: with a zero-stake registered party the client derives another key than SignerBuilder on the same (key, stake) pairs");
    }

    for reversed in [false, true] {
        let mut listed = signers.clone();
        if reversed { listed.reverse(); }
        let distribution = MithrilStakeDistribution {
            signers_with_stake: SignerWithStakeMessagePart::from_signers(listed),
            protocol_parameters: parameters.clone(),
            ..MithrilStakeDistribution::dummy()
        };
        let message = MessageBuilder::new().compute_mithril_stake_distribution_message(&certificate, &distribution).unwrap();
        assert_eq!(message.get_message_part(&ProtocolMessagePartKey::NextAggregateVerificationKey), Some(&expected),
                   "client: next aggregate key is not SignerBuilder(distribution signers{}, distribution parameters)", if reversed { " in reverse order" } else { "" });
        let mut rest = message.clone();
        rest.set_message_part(ProtocolMessagePartKey::NextAggregateVerificationKey, "stale".to_string());
        assert!(rest == certificate.protocol_message, "client: another part of the certificate's protocol message was changed");
    }
}

// C20 — replay on the REAL signer SignerCertifierService (mithril-signer/src/services/certifier.rs) with small in-memory
// environment fakes (signed-beacon store, configuration provider) and mockall mocks for the single signer and the publisher.
// Attached as a cfg(test) child module in the scratch copy. A test that FAILS reproduces a violation.
use std::collections::BTreeSet;
use std::sync::Mutex;

use mithril_common::entities::{
    CardanoBlocksTransactionsSigningConfig, CardanoTransactionsSigningConfig, ChainPoint, Epoch, ProtocolMessagePartKey, SignedEntityTypeDiscriminants,
};
use mithril_common::test::double::{Dummy, fake_data};

use crate::services::{MockSignaturePublisher, MockSingleSigner};
use crate::test::TestLogger;

use super::*;

#[derive(Default)]
struct MemoryBeaconStore { signed: Mutex<Vec<SignedEntityType>> }
#[async_trait]
impl SignedBeaconStore for MemoryBeaconStore {
    async fn filter_out_already_signed_entities(&self, entities: Vec<SignedEntityType>) -> StdResult<Vec<SignedEntityType>> {
        let signed = self.signed.lock().unwrap().clone();
        Ok(entities.into_iter().filter(|e| !signed.contains(e)).collect())
    }
    async fn mark_beacon_as_signed(&self, beacon: &BeaconToSign) -> StdResult<()> {
        self.signed.lock().unwrap().push(beacon.signed_entity_type.clone());
        Ok(())
    }
}
struct FixedConfig(SignedEntityConfig);
#[async_trait]
impl SignedEntityConfigProvider for FixedConfig {
    async fn get(&self) -> StdResult<SignedEntityConfig> { Ok(self.0.clone()) }
}
fn config(allowed: BTreeSet<SignedEntityTypeDiscriminants>) -> Arc<FixedConfig> {
    Arc::new(FixedConfig(SignedEntityConfig {
        cardano_transactions_signing_config: Some(CardanoTransactionsSigningConfig::dummy()),
        cardano_blocks_transactions_signing_config: Some(CardanoBlocksTransactionsSigningConfig::dummy()),
        allowed_discriminants: allowed,
    }))
}
fn service(store: Arc<MemoryBeaconStore>, allowed: BTreeSet<SignedEntityTypeDiscriminants>, lock: Arc<SignedEntityTypeLock>,
           signer: MockSingleSigner, publisher: MockSignaturePublisher) -> SignerCertifierService {
    SignerCertifierService::new(store, config(allowed), lock, Arc::new(signer), Arc::new(publisher), TestLogger::stdout())
}

async fn beacon_scenarios() {
    let time_point = TimePoint::new(7, 14, ChainPoint::dummy());
    // draining: every signable type exactly once, never one that the store holds as signed, always for the time point's epoch
    let store = Arc::new(MemoryBeaconStore::default());
    let s = service(store.clone(), SignedEntityTypeDiscriminants::all(), Arc::new(SignedEntityTypeLock::new()), MockSingleSigner::new(), MockSignaturePublisher::new());
    let mut seen: Vec<SignedEntityType> = vec![];
    for _ in 0..50 {
        let Some(b) = s.get_beacon_to_sign(time_point.clone()).await.unwrap() else { break };
        assert_eq!(b.epoch, time_point.epoch, "beacon for another epoch than the time point's");
        assert!(!store.signed.lock().unwrap().contains(&b.signed_entity_type), "an ALREADY SIGNED signed entity ({:?}) is proposed for signing again", b.signed_entity_type);
        assert!(!seen.contains(&b.signed_entity_type), "the same signed entity is proposed twice");
        seen.push(b.signed_entity_type.clone());
        store.mark_beacon_as_signed(&b).await.unwrap();
    }
    assert!(!seen.is_empty() && seen.len() < 50, "draining the beacons to sign did not terminate ({} proposals)", seen.len());
    assert!(s.get_beacon_to_sign(time_point.clone()).await.unwrap().is_none(), "a beacon is proposed although everything is signed");
    // a locked type and a type that is not allowed are never proposed
    let lock = Arc::new(SignedEntityTypeLock::new());
    lock.lock(SignedEntityTypeDiscriminants::MithrilStakeDistribution).await;
    let allowed: BTreeSet<_> = [SignedEntityTypeDiscriminants::MithrilStakeDistribution, SignedEntityTypeDiscriminants::CardanoStakeDistribution].into_iter().collect();
    let store = Arc::new(MemoryBeaconStore::default());
    let s = service(store.clone(), allowed, lock, MockSingleSigner::new(), MockSignaturePublisher::new());
    let mut proposed = vec![];
    while let Some(b) = s.get_beacon_to_sign(time_point.clone()).await.unwrap() {
        proposed.push(SignedEntityTypeDiscriminants::from(&b.signed_entity_type));
        store.mark_beacon_as_signed(&b).await.unwrap();
        assert!(proposed.len() < 20);
    }
    assert_eq!(proposed, vec![SignedEntityTypeDiscriminants::CardanoStakeDistribution], "locked / not allowed signed entity types were proposed: {:?}", proposed);
}

async fn publish_scenarios() {
    let mut message = ProtocolMessage::new();
    message.set_message_part(ProtocolMessagePartKey::SnapshotDigest, "digest".to_string());
    let beacon = BeaconToSign::new(Epoch(7), SignedEntityType::MithrilStakeDistribution(Epoch(7)), Utc::now());
    let signature = fake_data::single_signature(vec![1, 5, 12]);
    // a signature is computed: exactly it is published under the beacon's type, then the beacon is marked
    let store = Arc::new(MemoryBeaconStore::default());
    let mut signer = MockSingleSigner::new();
    let (sig, msg) = (signature.clone(), message.clone());
    signer.expect_compute_single_signature().withf(move |m| *m == msg).returning(move |_| Ok(Some(sig.clone())));
    let mut publisher = MockSignaturePublisher::new();
    let (sig, msg, ty) = (signature.clone(), message.clone(), beacon.signed_entity_type.clone());
    publisher.expect_publish().withf(move |t, s, m| *t == ty && *s == sig && *m == msg).times(1).returning(|_, _, _| Ok(()));
    let s = service(store.clone(), SignedEntityTypeDiscriminants::all(), Arc::new(SignedEntityTypeLock::new()), signer, publisher);
    s.compute_publish_single_signature(&beacon, &message).await.expect("publication failed");
    assert_eq!(store.signed.lock().unwrap().clone(), vec![beacon.signed_entity_type.clone()], "the beacon was not marked as signed after a successful publication");
    // publication fails: the beacon stays unsigned (it will be retried)
    let store = Arc::new(MemoryBeaconStore::default());
    let mut signer = MockSingleSigner::new();
    let sig = signature.clone();
    signer.expect_compute_single_signature().returning(move |_| Ok(Some(sig.clone())));
    let mut publisher = MockSignaturePublisher::new();
    publisher.expect_publish().returning(|_, _, _| Err(anyhow::anyhow!("aggregator unavailable")));
    let s = service(store.clone(), SignedEntityTypeDiscriminants::all(), Arc::new(SignedEntityTypeLock::new()), signer, publisher);
    assert!(s.compute_publish_single_signature(&beacon, &message).await.is_err(), "a failed publication is reported as success");
    assert!(store.signed.lock().unwrap().is_empty(), "the beacon was marked as signed although the publication FAILED (the signature is lost)");
    // every kind of refusal by the aggregator counts (a 4XX answer is what the aggregator gives while it has not opened the message yet)
    for kind in 0..3 {
        let store = Arc::new(MemoryBeaconStore::default());
        let mut signer = MockSingleSigner::new();
        let sig = signature.clone();
        signer.expect_compute_single_signature().returning(move |_| Ok(Some(sig.clone())));
        let mut publisher = MockSignaturePublisher::new();
        publisher.expect_publish().returning(move |_, _, _| Err(match kind {
            0 => mithril_aggregator_client::AggregatorHttpClientError::RemoteServerLogical(anyhow::anyhow!("404 open message not found")).into(),
            1 => mithril_aggregator_client::AggregatorHttpClientError::RemoteServerTechnical(anyhow::anyhow!("500")).into(),
            _ => mithril_aggregator_client::AggregatorHttpClientError::RemoteServerUnreachable(anyhow::anyhow!("unreachable")).into(),
        }));
        let s = service(store.clone(), SignedEntityTypeDiscriminants::all(), Arc::new(SignedEntityTypeLock::new()), signer, publisher);
        let r = s.compute_publish_single_signature(&beacon, &message).await;
        assert!(store.signed.lock().unwrap().is_empty(), "the beacon was marked as signed although the aggregator REFUSED the signature (refusal kind {}): it is never sent again", kind);
        assert!(r.is_err(), "a refused publication (kind {}) is reported as success", kind);
    }
}

#[tokio::test]
async fn replay_get_beacon_to_sign() { beacon_scenarios().await }
#[tokio::test]
async fn replay_list_available_signed_entity_types() { beacon_scenarios().await }
#[tokio::test]
async fn replay_compute_publish_single_signature() { publish_scenarios().await }

// C14 (partial) — replay on the REAL aggregator MithrilCertifierService (real SQLite repositories, real multi-signer, real
// certificate verifier, real keys and signatures from MithrilFixtureBuilder). Attached as a cfg(test) child module of
// mithril-aggregator/src/services/certifier/certifier_service.rs in the scratch copy. The epoch service holds DIFFERENT
// current and next signer sets / parameters, so "current" and "next" values cannot be confused silently.
// A test that FAILS reproduces a violation.
use std::path::PathBuf;
use std::sync::Arc;
use tokio::sync::RwLock;

use mithril_cardano_node_chain::test::double::FakeChainObserver;
use mithril_common::entities::{CardanoDbBeacon, ProtocolMessagePartKey, ProtocolParameters, TimePoint};
use mithril_common::temp_dir;
use mithril_common::test::builder::{MithrilFixture, MithrilFixtureBuilder};
use mithril_common::test::double::{Dummy, fake_data};

use crate::entities::AggregatorEpochSettings;
use crate::services::FakeEpochServiceBuilder;
use crate::{ServeCommandConfiguration, dependency_injection::DependenciesBuilder, test::TestLogger};

use super::*;

struct Setup { service: MithrilCertifierService, fixture: MithrilFixture, signed_entity_type: SignedEntityType, protocol_message: ProtocolMessage, genesis_hash: String }

async fn setup(snapshot_directory: PathBuf) -> Setup {
    let epoch = Epoch(3);
    let fixture = MithrilFixtureBuilder::default().with_signers(3).build();
    let next_fixture = MithrilFixtureBuilder::default().with_signers(5).with_protocol_parameters(ProtocolParameters::new(20, 300, 0.2)).build();
    let epoch_service = FakeEpochServiceBuilder {
        current_epoch_settings: AggregatorEpochSettings { protocol_parameters: fixture.protocol_parameters(), ..AggregatorEpochSettings::dummy() },
        next_epoch_settings: AggregatorEpochSettings { protocol_parameters: next_fixture.protocol_parameters(), ..AggregatorEpochSettings::dummy() },
        current_signers_with_stake: fixture.signers_with_stake(),
        next_signers_with_stake: next_fixture.signers_with_stake(),
        ..FakeEpochServiceBuilder::dummy(epoch)
    }
    .build();
    let configuration = ServeCommandConfiguration::new_sample(snapshot_directory);
    let mut dependency_builder = DependenciesBuilder::new_with_stdout_logger(Arc::new(configuration));
    dependency_builder.epoch_service = Some(Arc::new(RwLock::new(epoch_service)));
    dependency_builder.chain_observer = Some(Arc::new(FakeChainObserver::new(Some(TimePoint { epoch, ..Dummy::dummy() }))));
    let dependency_manager = dependency_builder.build_serve_dependencies_container().await.unwrap();
    dependency_manager.init_state_from_fixture(&fixture, epoch).await;

    let connection = dependency_builder.get_sqlite_connection().await.unwrap();
    let service = MithrilCertifierService::new(
        fake_data::network(),
        Arc::new(OpenMessageRepository::new(connection.clone())),
        Arc::new(SingleSignatureRepository::new(connection.clone())),
        Arc::new(CertificateRepository::new(connection)),
        dependency_builder.get_certificate_verifier().await.unwrap(),
        #[cfg(feature = "future_snark")]
        dependency_builder.get_genesis_verifier().await.unwrap(),
        dependency_builder.get_multi_signer().await.unwrap(),
        dependency_builder.get_epoch_service().await.unwrap(),
        TestLogger::stdout(),
    );
    let signed_entity_type = SignedEntityType::CardanoDatabase(CardanoDbBeacon::new(3, 1));
    let mut protocol_message = ProtocolMessage::new();
    protocol_message.set_message_part(ProtocolMessagePartKey::CurrentEpoch, "3".to_string());
    let genesis_certificate = fixture.create_genesis_certificate(service.network, epoch - 1);
    let genesis_hash = genesis_certificate.hash.clone();
    service.certificate_repository.create_certificate(genesis_certificate).await.unwrap();
    Setup { service, fixture, signed_entity_type, protocol_message, genesis_hash }
}

async fn register_all(s: &Setup) {
    for signature in s.fixture.sign_all(&s.protocol_message) {
        s.service.register_single_signature(&s.signed_entity_type, &signature).await.expect("a valid single signature of a current signer is rejected");
    }
}

#[tokio::test]
async fn replay_create_certificate() {
    let s = setup(temp_dir!()).await;
    s.service.create_open_message(&s.signed_entity_type, &s.protocol_message).await.unwrap();
    // nothing signed yet: no certificate, and the open message stays open
    assert!(s.service.create_certificate(&s.signed_entity_type).await.unwrap().is_none(), "a certificate was created without any signature");
    register_all(&s).await;
    let certificate = s.service.create_certificate(&s.signed_entity_type).await
        .expect("create_certificate failed although every current signer signed the open message")
        .expect("no certificate although every current signer signed the open message");
    let epoch_service = s.service.epoch_service.read().await;
    assert_eq!(certificate.epoch, Epoch(3), "certificate sealed for another epoch than its open message");
    assert!(certificate.protocol_message == s.protocol_message, "certificate carries another protocol message than its open message");
    assert_eq!(certificate.previous_hash, s.genesis_hash, "certificate not linked to the master certificate of its epoch");
    let current_key = mithril_common::crypto_helper::ProtocolKey::new(
        epoch_service.current_aggregate_verification_key().unwrap().to_concatenation_aggregate_verification_key().to_owned());
    assert!(certificate.aggregate_verification_key == current_key, "certificate does not carry the CURRENT aggregate key");
    assert_eq!(&certificate.metadata.protocol_parameters, epoch_service.current_protocol_parameters().unwrap(), "certificate does not carry the CURRENT protocol parameters");
    assert_eq!(certificate.signed_entity_type(), s.signed_entity_type, "certificate names another signed entity type");
    drop(epoch_service);
    s.service.certificate_verifier.verify_certificate(&certificate).await.expect("the stored certificate does not verify");
    let stored = s.service.get_certificate_by_hash(&certificate.hash).await.unwrap().expect("the returned certificate is not the stored one");
    assert_eq!(stored, certificate);
    assert!(s.service.get_open_message(&s.signed_entity_type).await.unwrap().unwrap().is_certified, "open message not marked certified");
    // the same signed entity is never certified twice
    assert!(s.service.create_certificate(&s.signed_entity_type).await.is_err(), "the same signed entity was certified twice");
    assert_eq!(s.service.get_latest_certificates(10).await.unwrap().len(), 2, "more certificates stored than the genesis one and the sealed one");
}

/// every later certificate of an epoch links to the FIRST certificate of that epoch - also for a signed entity whose own epoch
/// differs from the epoch in which it is signed (the Cardano stake distribution of epoch N is signed during epoch N + 1)
#[tokio::test]
async fn replay_create_certificate_links_to_master_of_signing_epoch() {
    let s = setup(temp_dir!()).await;
    s.service.create_open_message(&s.signed_entity_type, &s.protocol_message).await.unwrap();
    register_all(&s).await;
    let first = s.service.create_certificate(&s.signed_entity_type).await.unwrap().expect("first certificate of epoch 3 not created");
    assert_eq!(first.previous_hash, s.genesis_hash);
    let stake_distribution = SignedEntityType::CardanoStakeDistribution(Epoch(2));
    assert_eq!(stake_distribution.get_epoch_when_signed_entity_type_is_signed(), Epoch(3));
    let mut message = ProtocolMessage::new();
    message.set_message_part(ProtocolMessagePartKey::CurrentEpoch, "3".to_string());
    message.set_message_part(ProtocolMessagePartKey::CardanoStakeDistributionEpoch, "2".to_string());
    message.set_message_part(ProtocolMessagePartKey::CardanoStakeDistributionMerkleRoot, "merkle-root".to_string());
    s.service.create_open_message(&stake_distribution, &message).await.unwrap();
    for signature in s.fixture.sign_all(&message) {
        s.service.register_single_signature(&stake_distribution, &signature).await.unwrap();
    }
    let second = s.service.create_certificate(&stake_distribution).await.unwrap().expect("second certificate of epoch 3 not created");
    assert_eq!(second.epoch, Epoch(3));
    assert_eq!(second.previous_hash, first.hash,
               "the second certificate of epoch 3 (Cardano stake distribution of epoch 2) links to {} instead of the first certificate of its own epoch", second.previous_hash);
    // a THIRD certificate of the epoch still links to the FIRST one (not to the most recent one)
    let third_type = SignedEntityType::MithrilStakeDistribution(Epoch(3));
    let mut third_message = ProtocolMessage::new();
    third_message.set_message_part(ProtocolMessagePartKey::CurrentEpoch, "3".to_string());
    third_message.set_message_part(ProtocolMessagePartKey::NextAggregateVerificationKey, "next-avk".to_string());
    s.service.create_open_message(&third_type, &third_message).await.unwrap();
    for signature in s.fixture.sign_all(&third_message) {
        s.service.register_single_signature(&third_type, &signature).await.unwrap();
    }
    let third = s.service.create_certificate(&third_type).await.unwrap().expect("third certificate of epoch 3 not created");
    assert_eq!(third.previous_hash, first.hash,
               "the third certificate of epoch 3 links to {} (the most recent certificate is {}) instead of the FIRST certificate of its epoch {}", third.previous_hash, second.hash, first.hash);
}

/// a certificate the verifier REJECTS is never stored (verification comes before storage)
#[tokio::test]
async fn replay_create_certificate_stores_nothing_unverified() {
    let s = setup(temp_dir!()).await;
    // replace the genesis certificate by one that commits to ANOTHER next aggregate key than the one of the current signers
    let other = MithrilFixtureBuilder::default().with_signers(6).build();
    let connection_genesis = other.create_genesis_certificate(s.service.network, Epoch(2));
    assert!(connection_genesis.hash != s.genesis_hash);
    s.service.certificate_repository.delete_certificates(&[&s.service.get_certificate_by_hash(&s.genesis_hash).await.unwrap().unwrap()]).await.unwrap();
    s.service.certificate_repository.create_certificate(connection_genesis).await.unwrap();
    s.service.create_open_message(&s.signed_entity_type, &s.protocol_message).await.unwrap();
    register_all(&s).await;
    let r = s.service.create_certificate(&s.signed_entity_type).await;
    assert!(r.is_err(), "a certificate whose aggregate key is not the one announced by its parent was created");
    let stored = s.service.get_latest_certificates(10).await.unwrap();
    assert_eq!(stored.len(), 1, "a certificate that FAILED verification was stored ({} certificates in the store, expected the genesis one only)", stored.len());
    assert!(!s.service.get_open_message(&s.signed_entity_type).await.unwrap().unwrap().is_certified);
}

/// an open message past its deadline is PERSISTED as expired: later calls read the stored flag
#[tokio::test]
async fn replay_mark_open_message_if_expired() {
    let s = setup(temp_dir!()).await;
    s.service.create_open_message(&s.signed_entity_type, &s.protocol_message).await.unwrap();
    // not past its deadline: untouched
    assert!(s.service.mark_open_message_if_expired(&s.signed_entity_type).await.unwrap().is_none(), "an open message that has not expired was reported expired");
    let mut record = s.service.open_message_repository.get_open_message(&s.signed_entity_type).await.unwrap().unwrap();
    record.expires_at = Some(chrono::DateTime::parse_from_rfc3339("2000-01-19T13:43:05Z").unwrap().with_timezone(&Utc));
    s.service.open_message_repository.update_open_message(&record).await.unwrap();
    let marked = s.service.mark_open_message_if_expired(&s.signed_entity_type).await.unwrap().expect("an open message past its deadline was not reported");
    assert!(marked.is_expired);
    assert!(s.service.get_open_message(&s.signed_entity_type).await.unwrap().unwrap().is_expired, "the expired flag was returned to the caller but NOT persisted");
    let signatures = s.fixture.sign_all(&s.protocol_message);
    assert!(s.service.register_single_signature(&s.signed_entity_type, &signatures[0]).await.is_err(), "a signature was registered for an open message that has expired");
    assert!(s.service.create_certificate(&s.signed_entity_type).await.is_err(), "a certificate was created for an open message that has expired");
}

#[tokio::test]
async fn replay_create_open_message() {
    let s = setup(temp_dir!()).await;
    let stake_distribution = SignedEntityType::CardanoStakeDistribution(Epoch(2));
    let open = s.service.create_open_message(&stake_distribution, &s.protocol_message).await.unwrap();
    assert_eq!(open.epoch, Epoch(3), "the open message of the Cardano stake distribution of epoch 2 is not opened for the epoch in which it is signed (3)");
    assert!(open.protocol_message == s.protocol_message);
}

#[tokio::test]
async fn replay_create_certificate_rejects_expired_and_unknown() {
    let s = setup(temp_dir!()).await;
    assert!(s.service.create_certificate(&s.signed_entity_type).await.is_err(), "certificate created for a signed entity without open message");
    s.service.create_open_message(&s.signed_entity_type, &s.protocol_message).await.unwrap();
    register_all(&s).await;
    let mut record = s.service.open_message_repository.get_open_message(&s.signed_entity_type).await.unwrap().unwrap();
    record.is_expired = true;
    s.service.open_message_repository.update_open_message(&record).await.unwrap();
    assert!(s.service.create_certificate(&s.signed_entity_type).await.is_err(), "certificate created for an expired open message");
}

#[tokio::test]
async fn replay_register_single_signature() {
    let s = setup(temp_dir!()).await;
    let signatures = s.fixture.sign_all(&s.protocol_message);
    // no open message yet
    assert!(s.service.register_single_signature(&s.signed_entity_type, &signatures[0]).await.is_err(), "signature registered without open message");
    s.service.create_open_message(&s.signed_entity_type, &s.protocol_message).await.unwrap();
    // a signature on ANOTHER message is rejected
    let mut other_message = ProtocolMessage::new();
    other_message.set_message_part(ProtocolMessagePartKey::CurrentEpoch, "4".to_string());
    let foreign = s.fixture.sign_all(&other_message);
    assert!(s.service.register_single_signature(&s.signed_entity_type, &foreign[0]).await.is_err(), "a single signature made on another message was registered");
    // valid ones are accepted
    s.service.register_single_signature(&s.signed_entity_type, &signatures[0]).await.expect("a valid single signature is rejected");
    // expired / certified open messages accept nothing
    let mut record = s.service.open_message_repository.get_open_message(&s.signed_entity_type).await.unwrap().unwrap();
    record.is_expired = true;
    s.service.open_message_repository.update_open_message(&record).await.unwrap();
    assert!(s.service.register_single_signature(&s.signed_entity_type, &signatures[1]).await.is_err(), "signature registered for an expired open message");
    record.is_expired = false;
    record.is_certified = true;
    s.service.open_message_repository.update_open_message(&record).await.unwrap();
    assert!(s.service.register_single_signature(&s.signed_entity_type, &signatures[1]).await.is_err(), "signature registered for a certified open message");
}

#[tokio::test]
async fn replay_verify_certificate_chain() {
    let s = setup(temp_dir!()).await;
    // latest certificate: the genesis one at epoch 2
    s.service.verify_certificate_chain(Epoch(2)).await.expect("chain rejected at the epoch of the latest certificate");
    s.service.verify_certificate_chain(Epoch(3)).await.expect("chain rejected one epoch after the latest certificate");
    assert!(s.service.verify_certificate_chain(Epoch(4)).await.is_err(), "an epoch gap (latest certificate at epoch 2, current epoch 4) was accepted");
    assert!(s.service.verify_certificate_chain(Epoch(0)).await.is_err(), "an epoch gap (latest certificate at epoch 2, current epoch 0) was accepted");
}

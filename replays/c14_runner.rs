// C14 — replay on the REAL AggregatorRunner::get_current_non_certified_open_message (mithril-aggregator/src/runtime/runner.rs)
// with the repository's own runner builder (this module is attached INSIDE the file's `mod tests`) and a mocked certifier
// answering per signed entity type. A test that FAILS reproduces a violation.
use super::*;

fn message(t: SignedEntityType, certified: bool, expired: bool) -> OpenMessage {
    OpenMessage { signed_entity_type: t, is_certified: certified, is_expired: expired, ..OpenMessage::dummy() }
}

/// the certifier holds, per signed entity type, the open message given by `state`; expiry marking is recorded
async fn run(state: Vec<(SignedEntityTypeDiscriminants, Option<(bool, bool)>)>, allow_create: bool) -> Option<OpenMessage> {
    let mut certifier = MockCertifierService::new();
    let lookup = state.clone();
    certifier.expect_get_open_message().returning(move |t| {
        let d = SignedEntityTypeDiscriminants::from(t);
        Ok(lookup.iter().find(|(k, _)| *k == d).and_then(|(_, v)| v.map(|(c, e)| message(t.clone(), c, e))))
    });
    certifier.expect_inform_epoch().returning(|_| Ok(()));
    certifier.expect_mark_open_message_if_expired().returning(|_| Ok(None));
    if allow_create {
        certifier.expect_create_open_message().returning(|t, _| Ok(message(t.clone(), false, false)));
    } else {
        certifier.expect_create_open_message().never();
    }
    let runner = build_runner_with_discriminants(temp_dir!(), certifier, state.iter().map(|(k, _)| *k).collect()).await;
    runner.get_current_non_certified_open_message(&TimePoint::dummy()).await.unwrap()
}

#[tokio::test]
async fn replay_get_current_non_certified_open_message() {
    use SignedEntityTypeDiscriminants::{CardanoStakeDistribution as Csd, MithrilStakeDistribution as Msd};
    // certified and expired open messages are never handed out
    for (c, e) in [(true, false), (false, true), (true, true)] {
        let r = run(vec![(Msd, Some((c, e))), (Csd, Some((c, e)))], false).await;
        assert!(r.is_none(), "an open message with is_certified = {}, is_expired = {} was handed out for certification: {:?}", c, e, r.map(|m| m.signed_entity_type));
    }
    // the first open one is handed out, skipping certified / expired ones before it
    let r = run(vec![(Msd, Some((false, true))), (Csd, Some((false, false)))], false).await.expect("no open message handed out although one is open");
    assert!(!r.is_certified && !r.is_expired && SignedEntityTypeDiscriminants::from(&r.signed_entity_type) == Csd, "the wrong open message was handed out: {:?}", r.signed_entity_type);
    let r = run(vec![(Msd, Some((true, false))), (Csd, Some((false, false)))], false).await.expect("no open message handed out although one is open");
    assert!(SignedEntityTypeDiscriminants::from(&r.signed_entity_type) == Csd && !r.is_certified && !r.is_expired);
    // a type without open message gets a new one
    let r = run(vec![(Msd, Some((true, false))), (Csd, None)], true).await.expect("no open message created for a type without one");
    assert!(SignedEntityTypeDiscriminants::from(&r.signed_entity_type) == Csd && !r.is_certified && !r.is_expired);
}

/// outdated exactly when the stored open message has expired or the configuration derives another signed entity for the type
#[tokio::test]
async fn replay_is_open_message_outdated() {
    for (expired, newer) in [(false, false), (true, false), (false, true), (true, true)] {
        let got = is_outdated_returned_when(temp_dir!(), if expired { IsExpired::Yes } else { IsExpired::No }, newer).await;
        assert_eq!(got, expired || newer, "is_open_message_outdated with expired = {}, newer signed entity = {} answered {}", expired, newer, got);
    }
}

/// the runner hands the certifier's answers on unchanged: the chain check is the certifier's for the time point's epoch, a
/// certificate is reported exactly when the certifier created one
#[tokio::test]
async fn replay_is_certificate_chain_valid() {
    for ok in [true, false] {
        let mut certifier = MockCertifierService::new();
        certifier.expect_inform_epoch().returning(|_| Ok(()));
        certifier.expect_verify_certificate_chain().withf(|e| *e == Epoch(7)).returning(move |_| if ok { Ok(()) } else { Err(anyhow::anyhow!("epoch gap")) });
        let runner = build_runner_with_discriminants(temp_dir!(), certifier, vec![SignedEntityTypeDiscriminants::MithrilStakeDistribution]).await;
        let r = runner.is_certificate_chain_valid(&TimePoint { epoch: Epoch(7), ..TimePoint::dummy() }).await;
        assert_eq!(r.is_ok(), ok, "is_certificate_chain_valid answered {:?} although the certifier's chain verification for epoch 7 {}", r.is_ok(), if ok { "succeeded" } else { "FAILED" });
    }
}

#[tokio::test]
async fn replay_create_certificate() {
    let t = SignedEntityType::MithrilStakeDistribution(Epoch(7));
    for produced in [true, false] {
        let mut certifier = MockCertifierService::new();
        certifier.expect_inform_epoch().returning(|_| Ok(()));
        certifier.expect_create_certificate().returning(move |_| Ok(if produced { Some(fake_data::certificate("hash")) } else { None }));
        let runner = build_runner_with_discriminants(temp_dir!(), certifier, vec![SignedEntityTypeDiscriminants::MithrilStakeDistribution]).await;
        let r = runner.create_certificate(&t).await.unwrap();
        assert_eq!(r.is_some(), produced, "the runner reports a certificate = {} although the certifier produced = {}", r.is_some(), produced);
    }
    let mut certifier = MockCertifierService::new();
    certifier.expect_inform_epoch().returning(|_| Ok(()));
    certifier.expect_create_certificate().returning(|_| Err(anyhow::anyhow!("verification failed")));
    let runner = build_runner_with_discriminants(temp_dir!(), certifier, vec![SignedEntityTypeDiscriminants::MithrilStakeDistribution]).await;
    assert!(runner.create_certificate(&t).await.is_err(), "the certifier's failure to create a certificate is swallowed");
}

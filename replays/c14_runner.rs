// C14 — replay on the REAL AggregatorRunner::get_current_non_certified_open_message (mithril-aggregator/src/runtime/runner.rs)
// with the repository's own runner builder (this module is attached INSIDE the file's `mod tests`) and a mocked certifier
// answering per signed entity type. A test that FAILS reproduces a violation.
use super::*;

fn message(t: SignedEntityType, certified: bool, expired: bool) -> OpenMessage {
    OpenMessage { signed_entity_type: t, is_certified: certified, is_expired: expired, ..OpenMessage::dummy() }
}

/// the certifier holds, per signed entity type, the open message given by `state`; expiry marking is recorded
async fn run(state: Vec<(SignedEntityTypeDiscriminants, Option<(bool, bool)>)>, allow_create: bool) -> Option<OpenMessage> {
    let mut certifier = MockCertifierService::new();
    let lookup = state.clone();
    certifier.expect_get_open_message().returning(move |t| {
        let d = SignedEntityTypeDiscriminants::from(t);
        Ok(lookup.iter().find(|(k, _)| *k == d).and_then(|(_, v)| v.map(|(c, e)| message(t.clone(), c, e))))
    });
    certifier.expect_inform_epoch().returning(|_| Ok(()));
    certifier.expect_mark_open_message_if_expired().returning(|_| Ok(None));
    if allow_create {
        certifier.expect_create_open_message().returning(|t, _| Ok(message(t.clone(), false, false)));
    } else {
        certifier.expect_create_open_message().never();
    }
    let runner = build_runner_with_discriminants(temp_dir!(), certifier, state.iter().map(|(k, _)| *k).collect()).await;
    runner.get_current_non_certified_open_message(&TimePoint::dummy()).await.unwrap()
}

#[tokio::test]
async fn replay_get_current_non_certified_open_message() {
    use SignedEntityTypeDiscriminants::{CardanoStakeDistribution as Csd, MithrilStakeDistribution as Msd};
    // certified and expired open messages are never handed out
    for (c, e) in [(true, false), (false, true), (true, true)] {
        let r = run(vec![(Msd, Some((c, e))), (Csd, Some((c, e)))], false).await;
        assert!(r.is_none(), "an open message with is_certified = {}, is_expired = {} was handed out for certification: {:?}", c, e, r.map(|m| m.signed_entity_type));
    }
    // the first open one is handed out, skipping certified / expired ones before it
    let r = run(vec![(Msd, Some((false, true))), (Csd, Some((false, false)))], false).await.expect("no open message handed out although one is open");
    assert!(!r.is_certified && !r.is_expired && SignedEntityTypeDiscriminants::from(&r.signed_entity_type) == Csd, "the wrong open message was handed out: {:?}", r.signed_entity_type);
    let r = run(vec![(Msd, Some((true, false))), (Csd, Some((false, false)))], false).await.expect("no open message handed out although one is open");
    assert!(SignedEntityTypeDiscriminants::from(&r.signed_entity_type) == Csd && !r.is_certified && !r.is_expired);
    // a type without open message gets a new one
    let r = run(vec![(Msd, Some((true, false))), (Csd, None)], true).await.expect("no open message created for a type without one");
    assert!(SignedEntityTypeDiscriminants::from(&r.signed_entity_type) == Csd && !r.is_certified && !r.is_expired);
}

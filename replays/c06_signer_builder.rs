// C06 — replay on the REAL SignerBuilder::new (mithril-common/src/protocol/signer_builder.rs), the one function through which
// signer, aggregator and client derive the aggregate verification key. Attached as a cfg(test) child module in the scratch
// copy. A test that FAILS reproduces a violation: every listed signer is registered with its own (key, stake) pair, the key is
// a function of the SET of registered (key, stake) pairs (not of the order of arrival), and distinct sets give distinct keys.
// Also the bounded stand-in for the Verus unit `signer_builder` when the changed text is outside the extractor's reach.
use rand_chacha::ChaCha20Rng;
use rand_core::SeedableRng;
use std::sync::Arc;

use crate::crypto_helper::{KesPeriod, KesSigner, KesSignerStandard, ProtocolInitializer, ProtocolKey};
use crate::entities::{ProtocolParameters, SignerWithStake};
use crate::test::builder::MithrilFixtureBuilder;

use super::SignerBuilder;

fn avk_json_hex(signers: &[SignerWithStake], parameters: &ProtocolParameters) -> String {
    let avk = SignerBuilder::new(signers, parameters).expect("SignerBuilder::new failed").compute_aggregate_verification_key();
    ProtocolKey::new(avk.to_concatenation_aggregate_verification_key().to_owned()).to_json_hex().unwrap()
}

#[test]
fn replay_new() {
    let fixture = MithrilFixtureBuilder::default().with_signers(4).build();
    let parameters = fixture.protocol_parameters();
    let signers = fixture.signers_with_stake();
    let reference = avk_json_hex(&signers, &parameters);

    // order of arrival: every rotation and the reversed list give the same key
    for r in 1..signers.len() {
        let mut rotated = signers.clone();
        rotated.rotate_left(r);
        assert_eq!(reference, avk_json_hex(&rotated, &parameters), "the aggregate key depends on the order of the signer list (rotation by {r})");
    }
    let mut reversed = signers.clone();
    reversed.reverse();
    assert_eq!(reference, avk_json_hex(&reversed, &parameters), "the aggregate key depends on the order of the signer list (reversed)");

    // distinct sets: dropping any one signer, or changing any one stake, changes the key
    for i in 0..signers.len() {
        let mut fewer = signers.clone();
        fewer.remove(i);
        assert_ne!(reference, avk_json_hex(&fewer, &parameters), "dropping signer {i} from the list does not change the aggregate key");
        let mut other_stake = signers.clone();
        other_stake[i].stake += 1;
        assert_ne!(reference, avk_json_hex(&other_stake, &parameters), "changing the stake of signer {i} does not change the aggregate key");
    }

    // every listed signer is registered, whatever its stake: {p0 (stake 0), p1, p2, p3} and {p1, p2, p3} are distinct sets
    let mut with_zero_stake = signers.clone();
    with_zero_stake[0].stake = 0;
    assert_ne!(avk_json_hex(&with_zero_stake, &parameters), avk_json_hex(&with_zero_stake[1..], &parameters),
               "{{p0 (stake 0), p1, p2, p3}} and {{p1, p2, p3}} gave the same aggregate key: a listed signer was not registered");

    // a pool listed twice with two different, validly certified keys: the same (key, stake) pairs in two orders of arrival
    let first = fixture.signers_fixture().first().unwrap().clone();
    let kes_signer = Some(Arc::new(KesSignerStandard::new(
        first.kes_secret_key_path().unwrap().to_path_buf(),
        first.operational_certificate_path().unwrap().to_path_buf(),
    )) as Arc<dyn KesSigner>);
    let s0 = signers[0].clone();
    let other_initializer = ProtocolInitializer::setup(
        parameters.clone().into(),
        kes_signer,
        s0.kes_evolutions.map(|kes_evolutions| KesPeriod(0) + kes_evolutions),
        s0.stake,
        &mut ChaCha20Rng::from_seed([42u8; 32]),
    )
    .unwrap();
    let s0_other_key = SignerWithStake {
        verification_key_for_concatenation: other_initializer.verification_key_for_concatenation().into(),
        verification_key_signature_for_concatenation: other_initializer.verification_key_signature_for_concatenation(),
        ..s0.clone()
    };
    assert_ne!(s0.verification_key_for_concatenation, s0_other_key.verification_key_for_concatenation);
    let arrival_a = vec![s0.clone(), s0_other_key.clone(), signers[1].clone(), signers[2].clone()];
    let arrival_b = vec![s0.clone(), signers[1].clone(), s0_other_key.clone(), signers[2].clone()];
    let arrival_c = vec![signers[2].clone(), s0_other_key, signers[1].clone(), s0];
    let key_a = avk_json_hex(&arrival_a, &parameters);
    assert_eq!(key_a, avk_json_hex(&arrival_b, &parameters), "the same four (key, stake) pairs gave two different aggregate keys (adjacent vs separated entries of one pool)");
    assert_eq!(key_a, avk_json_hex(&arrival_c, &parameters), "the same four (key, stake) pairs gave two different aggregate keys (another order)");
}

// C11 — replay on the REAL stake-distribution Merkle tree code (attached as cfg(test) child module of
// mithril-common/src/signable_builder/cardano_stake_distribution.rs in the scratch copy).
use super::*;
use crate::entities::StakeDistribution;

fn root(d: StakeDistribution) -> String {
    CardanoStakeDistributionSignableBuilder::compute_merkle_tree_from_stake_distribution(d).unwrap().compute_root().unwrap().to_hex()
}

/// two DIFFERENT (pool id, stake) mappings must not have the same certified Merkle root
#[test]
fn replay_c11_distinct_entries_distinct_leaves() {
    let certified = StakeDistribution::from([("pool1qqqqx7".to_string(), 5u64)]);
    let edited = StakeDistribution::from([("pool1qqqqx".to_string(), 75u64)]);
    assert_ne!(certified, edited);
    assert_ne!(root(certified), root(edited),
        "stake distributions {{\"pool1qqqqx7\": 5}} and {{\"pool1qqqqx\": 75}} have the same Merkle root: a digit moved from the pool identifier to the stake is not detected (leaf = format!(\"{{}}{{}}\", pool_id, stake))");
}

/// honest format (identifiers of one length): editing a stake or an identifier changes the root
#[test]
fn replay_c11_same_length_ids_distinct_leaves() {
    let a = StakeDistribution::from([("pool1aaaa".to_string(), 5u64), ("pool1bbbb".to_string(), 7u64)]);
    let b = StakeDistribution::from([("pool1aaaa".to_string(), 6u64), ("pool1bbbb".to_string(), 7u64)]);
    let c = StakeDistribution::from([("pool1aaab".to_string(), 5u64), ("pool1bbbb".to_string(), 7u64)]);
    assert_ne!(root(a.clone()), root(b), "edited stake not detected");
    assert_ne!(root(a), root(c), "edited pool identifier not detected");
}

// C01 — replay on the REAL code with REAL keys (phi_f = 1 so that every lottery index is won). Attached as a cfg(test)
// child module of mithril-stm/src/proof_system/concatenation/single_signature.rs in the scratch copy.
// A failing test reproduces the violation of the clause it names.
use crate::*;
use rand_chacha::ChaCha20Rng;
use rand_core::SeedableRng;

type D = MithrilMembershipDigest;

struct World {
    params: Parameters,
    closed: ClosedKeyRegistration,
    signers: Vec<Signer<D>>,
    msg: [u8; 16],
}

fn world(m: u64, k: u64) -> World {
    let params = Parameters { m, k, phi_f: 1.0 };
    let mut rng = ChaCha20Rng::from_seed([0u8; 32]);
    let mut reg = KeyRegistration::initialize();
    let mut inits = vec![];
    for i in 0..2u64 {
        let init = Initializer::new(params, 10 + i, &mut rng);
        reg.register_by_entry(&init.clone().try_into().unwrap()).unwrap();
        inits.push(init);
    }
    let closed = reg.close_registration(&params).unwrap();
    let signers: Vec<Signer<D>> = inits.into_iter().map(|i| i.try_create_signer::<D>(&closed).unwrap()).collect();
    World { params, closed, signers, msg: [7u8; 16] }
}

/// clause "every index lies in [0, m)": a single signature whose index list contains m (or more) must be rejected
#[test]
fn replay_check_indices() {
    let w = world(10, 3);
    let sig = w.signers[0].create_single_signature(&w.msg).unwrap();
    let clerk = Clerk::new_clerk_from_signer(&w.signers[0]);
    let avk = clerk.compute_aggregate_verification_key();
    let entry = w.closed.get_registration_entry_for_index(&sig.signer_index).unwrap();
    assert!(sig.verify(&w.params, &entry.get_verification_key_for_concatenation(), &entry.get_stake(), &avk, &w.msg).is_ok(), "honest signature rejected");
    for bad in [w.params.m, w.params.m + 1, u64::MAX] {
        let mut forged = sig.clone();
        let mut idx = forged.get_concatenation_signature_indices();
        idx.push(bad);
        forged.set_concatenation_signature_indices(&idx);
        let r = forged.verify(&w.params, &entry.get_verification_key_for_concatenation(), &entry.get_stake(), &avk, &w.msg);
        assert!(r.is_err(), "single signature with lottery index {} accepted although m = {} (indices must lie in [0, m))", bad, w.params.m);
    }
}

/// clause "won by the committed (key, stake)": the same signature presented with another party's key / stake is rejected
#[test]
fn replay_verify() {
    let w = world(10, 3);
    let sig = w.signers[0].create_single_signature(&w.msg).unwrap();
    let clerk = Clerk::new_clerk_from_signer(&w.signers[0]);
    let avk = clerk.compute_aggregate_verification_key();
    let other = w.closed.get_registration_entry_for_index(&(1 - sig.signer_index)).unwrap();
    let r = sig.verify(&w.params, &other.get_verification_key_for_concatenation(), &other.get_stake(), &avk, &w.msg);
    assert!(r.is_err(), "signature accepted under another party's key");
    let r = sig.verify(&w.params, &w.closed.get_registration_entry_for_index(&sig.signer_index).unwrap().get_verification_key_for_concatenation(), &1, &avk, &[1u8; 16]);
    assert!(r.is_err(), "signature accepted for another message");
}

/// aggregate level: duplicated indices, too few indices, index == m inside an aggregate
#[test]
fn replay_preliminary_verify() {
    let w = world(10, 3);
    let sigs: Vec<SingleSignature> = w.signers.iter().map(|s| s.create_single_signature(&w.msg).unwrap()).collect();
    let clerk = Clerk::new_clerk_from_signer(&w.signers[0]);
    let avk = clerk.compute_aggregate_verification_key();
    let agg = clerk.aggregate_signatures_with_type(&sigs, &w.msg, AggregateSignatureType::Concatenation, AncillaryProofInput::new(None, AncillaryGenesisData::new())).unwrap().0;
    assert!(agg.verify(&w.msg, &avk, &w.params, None, None).is_ok(), "honest aggregate rejected");
    if let AggregateSignature::Concatenation(proof) = &agg {
        // the same index claimed twice
        let mut p = proof.clone();
        let mut idx = p.signatures[0].sig.get_concatenation_signature_indices();
        let dup = idx[0];
        idx.push(dup);
        p.signatures[0].sig.set_concatenation_signature_indices(&idx);
        assert!(p.verify(&w.msg, avk.to_concatenation_aggregate_verification_key(), &w.params).is_err(), "aggregate with a repeated lottery index accepted");
        // index == m
        let mut p = proof.clone();
        let mut idx = p.signatures[0].sig.get_concatenation_signature_indices();
        idx.push(w.params.m);
        p.signatures[0].sig.set_concatenation_signature_indices(&idx);
        assert!(p.verify(&w.msg, avk.to_concatenation_aggregate_verification_key(), &w.params).is_err(), "aggregate with lottery index == m accepted");
        // fewer than k indices
        let strict = Parameters { m: 10, k: 1000, phi_f: 1.0 };
        assert!(proof.verify(&w.msg, avk.to_concatenation_aggregate_verification_key(), &strict).is_err(), "aggregate with fewer than k indices accepted");
        // another message
        assert!(proof.verify(&[9u8; 16], avk.to_concatenation_aggregate_verification_key(), &w.params).is_err(), "aggregate accepted for another message");
    }
    unregistered_party_scenario();
    after_quorum_scenario();
}

/// clause "EVERY index lies in [0, m) and no index is counted twice", for the slots placed after the point where the quorum is
/// already reached: slot 0 carries k valid indices, slot 1 carries an out-of-range resp. an already used index
fn after_quorum_scenario() {
    let params = Parameters { m: 5, k: 3, phi_f: 1.0 };
    let mut rng = ChaCha20Rng::from_seed([6u8; 32]);
    let mut reg = KeyRegistration::initialize();
    let inits: Vec<Initializer> = (0..3).map(|_| { let i = Initializer::new(params, 1, &mut rng); reg.register_by_entry(&i.clone().try_into().unwrap()).unwrap(); i }).collect();
    let closed = reg.close_registration(&params).unwrap();
    let signers: Vec<Signer<D>> = inits.into_iter().map(|i| i.try_create_signer::<D>(&closed).unwrap()).collect();
    let msg = [4u8; 16];
    let clerk = Clerk::new_clerk_from_signer(&signers[0]);
    let avk = clerk.compute_aggregate_verification_key();
    let mut a = signers[0].create_single_signature(&msg).unwrap();
    let mut b = signers[1].create_single_signature(&msg).unwrap();
    a.set_concatenation_signature_indices(&[0, 1]);
    b.set_concatenation_signature_indices(&[2]);
    let aggr = clerk.aggregate_signatures_with_type(&[a, b], &msg, AggregateSignatureType::Concatenation, AncillaryProofInput::new(None, AncillaryGenesisData::new())).unwrap().0;
    aggr.verify(&msg, &avk, &params, None, None).expect("honest aggregate rejected");
    let AggregateSignature::Concatenation(boxed) = &aggr else { panic!("not a concatenation proof") };
    assert_eq!(boxed.signatures.len(), 2);
    let concat_avk = avk.to_concatenation_aggregate_verification_key();
    for (bad, what) in [(vec![params.m], "an index == m"), (vec![params.m + 7], "an index > m"), (vec![1], "an index already counted for slot 0"), (vec![3, 3], "the same index twice")] {
        let mut proof = (**boxed).clone();
        proof.signatures[0].sig.set_concatenation_signature_indices(&[0, 1, 2]);
        proof.signatures[1].sig.set_concatenation_signature_indices(&bad);
        assert!(proof.verify(&msg, concat_avk, &params).is_err(),
                "aggregate ACCEPTED although the slot after the quorum point carries {} (indices {:?}, m = {}, k = {})", what, bad, params.m, params.k);
    }
}

/// clause "every (key, stake) pair that contributes indices is committed by the aggregate key": an aggregate whose quorum needs
/// the indices of a TRAILING slot signed by a never-registered key (claiming the total stake), with the honest batch path that
/// only opens the honest signer's leaf, must be rejected
fn unregistered_party_scenario() {
    use crate::proof_system::SingleSignatureForConcatenation;
    use crate::signature_scheme::BlsSigningKey;
    let params = Parameters { m: 10, k: 10, phi_f: 1.0 };
    let mut rng = ChaCha20Rng::from_seed([2u8; 32]);
    let mut reg = KeyRegistration::initialize();
    let inits: Vec<Initializer> = (0..4).map(|_| { let i = Initializer::new(params, 1, &mut rng); reg.register_by_entry(&i.clone().try_into().unwrap()).unwrap(); i }).collect();
    let closed = reg.close_registration(&params).unwrap();
    let signers: Vec<Signer<D>> = inits.into_iter().map(|i| i.try_create_signer::<D>(&closed).unwrap()).collect();
    let msg = [9u8; 16];
    let clerk = Clerk::new_clerk_from_signer(&signers[0]);
    let avk = clerk.compute_aggregate_verification_key();
    let honest = signers[0].create_single_signature(&msg).unwrap();
    let aggr = clerk.aggregate_signatures_with_type(&[honest], &msg, AggregateSignatureType::Concatenation, AncillaryProofInput::new(None, AncillaryGenesisData::new())).unwrap().0;
    aggr.verify(&msg, &avk, &params, None, None).expect("honest aggregate rejected");
    let AggregateSignature::Concatenation(boxed) = &aggr else { panic!("not a concatenation proof") };
    let mut proof = (**boxed).clone();
    proof.signatures[0].sig.set_concatenation_signature_indices(&[0, 1, 2, 3, 4]);
    let rogue_sk = BlsSigningKey::generate(&mut rng);
    let rogue_vk = VerificationKeyProofOfPossessionForConcatenation::from(&rogue_sk).vk;
    let concat_avk = avk.to_concatenation_aggregate_verification_key();
    let msgp = concat_avk.get_merkle_tree_batch_commitment().concatenate_with_message(&msg);
    proof.signatures.push(SingleSignatureWithRegisteredParty {
        sig: SingleSignature {
            concatenation_signature: SingleSignatureForConcatenation::new(rogue_sk.sign(&msgp), vec![5, 6, 7, 8, 9]),
            signer_index: 1,
            #[cfg(feature = "future_snark")]
            snark_signature: None,
        },
        reg_party: ClosedRegistrationEntry::new(
            rogue_vk,
            concat_avk.get_total_stake(),
            #[cfg(feature = "future_snark")]
            None,
            #[cfg(feature = "future_snark")]
            None,
        ),
    });
    assert!(proof.verify(&msg, concat_avk, &params).is_err(),
            "aggregate ACCEPTED although 5 of its 10 indices come from a key that was never registered (trailing slot beyond the Merkle batch path)");
}

/// batch clause: a batch is accepted only if each member would be accepted alone. An aggregate whose two slots carry each
/// other's BLS signature (no slot holds a valid signature under its own key) is rejected alone and must be rejected in a batch.
#[test]
fn replay_batch_verify() {
    use crate::proof_system::{ConcatenationProof, SingleSignatureForConcatenation};
    let params = Parameters { m: 5, k: 5, phi_f: 1.0 };
    let build = |msg: &[u8], seed: u8| -> (ConcatenationProof<D>, AggregateVerificationKey<D>) {
        let mut rng = ChaCha20Rng::from_seed([seed; 32]);
        let mut reg = KeyRegistration::initialize();
        let inits: Vec<Initializer> = (0..3).map(|_| { let i = Initializer::new(params, 1, &mut rng); reg.register_by_entry(&i.clone().try_into().unwrap()).unwrap(); i }).collect();
        let closed = reg.close_registration(&params).unwrap();
        let signers: Vec<Signer<D>> = inits.into_iter().map(|i| i.try_create_signer::<D>(&closed).unwrap()).collect();
        let clerk = Clerk::new_clerk_from_signer(&signers[0]);
        let avk = clerk.compute_aggregate_verification_key();
        let mut a = signers[0].create_single_signature(msg).unwrap();
        let mut b = signers[1].create_single_signature(msg).unwrap();
        a.set_concatenation_signature_indices(&[0, 1, 2]);
        b.set_concatenation_signature_indices(&[3, 4]);
        let aggr = clerk.aggregate_signatures_with_type(&[a, b], msg, AggregateSignatureType::Concatenation, AncillaryProofInput::new(None, AncillaryGenesisData::new())).unwrap().0;
        aggr.verify(msg, &avk, &params, None, None).expect("honest aggregate rejected");
        let AggregateSignature::Concatenation(boxed) = aggr else { panic!("not a concatenation proof") };
        (*boxed, avk)
    };
    let (msg_1, msg_2) = ([1u8; 16], [2u8; 16]);
    let (mut tampered, avk_1) = build(&msg_1, 3);
    let (honest, avk_2) = build(&msg_2, 4);
    assert_eq!(tampered.signatures.len(), 2);
    let (s0, s1) = (tampered.signatures[0].sig.get_concatenation_signature_sigma(), tampered.signatures[1].sig.get_concatenation_signature_sigma());
    let (i0, i1) = (tampered.signatures[0].sig.get_concatenation_signature_indices(), tampered.signatures[1].sig.get_concatenation_signature_indices());
    tampered.signatures[0].sig.concatenation_signature = SingleSignatureForConcatenation::new(s1, i0);
    tampered.signatures[1].sig.concatenation_signature = SingleSignatureForConcatenation::new(s0, i1);
    let (c1, c2) = (avk_1.to_concatenation_aggregate_verification_key().clone(), avk_2.to_concatenation_aggregate_verification_key().clone());
    assert!(tampered.verify(&msg_1, &c1, &params).is_err(), "aggregate with exchanged slot signatures accepted alone");
    assert!(ConcatenationProof::batch_verify(&[honest.clone()], &[msg_2.to_vec()], &[c2.clone()], &[params]).is_ok(), "honest singleton batch rejected");
    assert!(ConcatenationProof::batch_verify(&[tampered.clone()], &[msg_1.to_vec()], &[c1.clone()], &[params]).is_err(),
            "singleton batch ACCEPTED an aggregate that is rejected alone (slot signatures exchanged between the two slots)");
    assert!(ConcatenationProof::batch_verify(&[honest, tampered], &[msg_2.to_vec(), msg_1.to_vec()], &[c2, c1], &[params, params]).is_err(),
            "batch ACCEPTED although one member is rejected alone");
}

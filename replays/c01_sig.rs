// C01 — replay on the REAL code with REAL keys (phi_f = 1 so that every lottery index is won). Attached as a cfg(test)
// child module of mithril-stm/src/proof_system/concatenation/single_signature.rs in the scratch copy.
// A failing test reproduces the violation of the clause it names.
use crate::*;
use rand_chacha::ChaCha20Rng;
use rand_core::SeedableRng;

type D = MithrilMembershipDigest;

struct World {
    params: Parameters,
    closed: ClosedKeyRegistration,
    signers: Vec<Signer<D>>,
    msg: [u8; 16],
}

fn world(m: u64, k: u64) -> World {
    let params = Parameters { m, k, phi_f: 1.0 };
    let mut rng = ChaCha20Rng::from_seed([0u8; 32]);
    let mut reg = KeyRegistration::initialize();
    let mut inits = vec![];
    for i in 0..2u64 {
        let init = Initializer::new(params, 10 + i, &mut rng);
        reg.register_by_entry(&init.clone().try_into().unwrap()).unwrap();
        inits.push(init);
    }
    let closed = reg.close_registration(&params).unwrap();
    let signers: Vec<Signer<D>> = inits.into_iter().map(|i| i.try_create_signer::<D>(&closed).unwrap()).collect();
    World { params, closed, signers, msg: [7u8; 16] }
}

/// clause "every index lies in [0, m)": a single signature whose index list contains m (or more) must be rejected
#[test]
fn replay_check_indices() {
    let w = world(10, 3);
    let sig = w.signers[0].create_single_signature(&w.msg).unwrap();
    let clerk = Clerk::new_clerk_from_signer(&w.signers[0]);
    let avk = clerk.compute_aggregate_verification_key();
    let entry = w.closed.get_registration_entry_for_index(&sig.signer_index).unwrap();
    assert!(sig.verify(&w.params, &entry.get_verification_key_for_concatenation(), &entry.get_stake(), &avk, &w.msg).is_ok(), "honest signature rejected");
    for bad in [w.params.m, w.params.m + 1, u64::MAX] {
        let mut forged = sig.clone();
        let mut idx = forged.get_concatenation_signature_indices();
        idx.push(bad);
        forged.set_concatenation_signature_indices(&idx);
        let r = forged.verify(&w.params, &entry.get_verification_key_for_concatenation(), &entry.get_stake(), &avk, &w.msg);
        assert!(r.is_err(), "single signature with lottery index {} accepted although m = {} (indices must lie in [0, m))", bad, w.params.m);
    }
}

/// clause "won by the committed (key, stake)": the same signature presented with another party's key / stake is rejected
#[test]
fn replay_verify() {
    let w = world(10, 3);
    let sig = w.signers[0].create_single_signature(&w.msg).unwrap();
    let clerk = Clerk::new_clerk_from_signer(&w.signers[0]);
    let avk = clerk.compute_aggregate_verification_key();
    let other = w.closed.get_registration_entry_for_index(&(1 - sig.signer_index)).unwrap();
    let r = sig.verify(&w.params, &other.get_verification_key_for_concatenation(), &other.get_stake(), &avk, &w.msg);
    assert!(r.is_err(), "signature accepted under another party's key");
    let r = sig.verify(&w.params, &w.closed.get_registration_entry_for_index(&sig.signer_index).unwrap().get_verification_key_for_concatenation(), &1, &avk, &[1u8; 16]);
    assert!(r.is_err(), "signature accepted for another message");
}

/// aggregate level: duplicated indices, too few indices, index == m inside an aggregate
#[test]
fn replay_preliminary_verify() {
    let w = world(10, 3);
    let sigs: Vec<SingleSignature> = w.signers.iter().map(|s| s.create_single_signature(&w.msg).unwrap()).collect();
    let clerk = Clerk::new_clerk_from_signer(&w.signers[0]);
    let avk = clerk.compute_aggregate_verification_key();
    let agg = clerk.aggregate_signatures_with_type(&sigs, &w.msg, AggregateSignatureType::Concatenation, AncillaryProofInput::new(None, AncillaryGenesisData::new())).unwrap().0;
    assert!(agg.verify(&w.msg, &avk, &w.params, None, None).is_ok(), "honest aggregate rejected");
    if let AggregateSignature::Concatenation(proof) = &agg {
        // the same index claimed twice
        let mut p = proof.clone();
        let mut idx = p.signatures[0].sig.get_concatenation_signature_indices();
        let dup = idx[0];
        idx.push(dup);
        p.signatures[0].sig.set_concatenation_signature_indices(&idx);
        assert!(p.verify(&w.msg, avk.to_concatenation_aggregate_verification_key(), &w.params).is_err(), "aggregate with a repeated lottery index accepted");
        // index == m
        let mut p = proof.clone();
        let mut idx = p.signatures[0].sig.get_concatenation_signature_indices();
        idx.push(w.params.m);
        p.signatures[0].sig.set_concatenation_signature_indices(&idx);
        assert!(p.verify(&w.msg, avk.to_concatenation_aggregate_verification_key(), &w.params).is_err(), "aggregate with lottery index == m accepted");
        // fewer than k indices
        let strict = Parameters { m: 10, k: 1000, phi_f: 1.0 };
        assert!(proof.verify(&w.msg, avk.to_concatenation_aggregate_verification_key(), &strict).is_err(), "aggregate with fewer than k indices accepted");
        // another message
        assert!(proof.verify(&[9u8; 16], avk.to_concatenation_aggregate_verification_key(), &w.params).is_err(), "aggregate accepted for another message");
    }
}

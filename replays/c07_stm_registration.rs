// C07 — replay on the REAL mithril-stm key registration with real BLS keys (attached as a cfg(test) child module of
// mithril-stm/src/protocol/key_registration/register.rs in the scratch copy).
use super::*;
use crate::{RegistrationEntry, signature_scheme::BlsSigningKey};
use rand_chacha::ChaCha20Rng;
use rand_core::SeedableRng;

fn key(seed: u8) -> VerificationKeyProofOfPossessionForConcatenation {
    let mut rng = ChaCha20Rng::from_seed([seed; 32]);
    VerificationKeyProofOfPossessionForConcatenation::from(&BlsSigningKey::generate(&mut rng))
}

/// RegistrationEntry::new: a key without a valid proof of possession is never accepted, whatever the stake
#[test]
fn replay_new() {
    let (a, b) = (key(1), key(2));
    for stake in [0u64, 1, 10, u64::MAX] {
        let e = RegistrationEntry::new(a, stake).expect("honest key rejected");
        assert!(e.get_stake() == stake && e.get_verification_key_for_concatenation() == a.vk, "entry does not carry the given key and stake");
        let mut spliced = a;
        spliced.pop = b.pop;
        assert!(RegistrationEntry::new(spliced, stake).is_err(), "key accepted with another key's proof of possession (stake {stake})");
    }
}

/// KeyRegistration::register_by_entry / register: a key is registered at most once, and only what was registered is there
#[test]
fn replay_register_by_entry() {
    let (a, b) = (key(3), key(4));
    let mut reg = KeyRegistration::initialize();
    reg.register(5, &a).expect("honest registration rejected");
    let before = reg.clone();
    assert!(reg.register(5, &a).is_err() && reg.register(7, &a).is_err(), "the same key registered twice");
    assert!(reg == before, "a rejected registration changed the registration");
    let mut bad = b;
    bad.pop = a.pop;
    assert!(reg.register(1, &bad).is_err() && reg == before, "registration with an invalid proof of possession accepted or not without effect");
    reg.register(9, &b).expect("second honest registration rejected");
    let closed = reg.close_registration(&crate::Parameters { m: 5, k: 1, phi_f: 0.5 }).unwrap();
    assert_eq!(closed.number_of_registered_parties(), 2);
    assert_eq!(closed.total_stake, 14, "total stake is not the sum of the registered stakes");
}

#[test]
fn replay_register() {
    replay_register_by_entry();
}

// C11 / C09 (generic tree) — replay on the REAL MKMapProof::verify with real Merkle-mountain-range proofs (attached as a
// cfg(test) child module of internal/mithril-merkle-tree/src/merkle_map.rs in the scratch copy, so the private fields of
// MKMapProof are reachable). A failing test reproduces the violation: a proof whose sub-proofs are not all verified and all
// attached to the master proof is accepted.
use super::*;
use crate::{MKTreeStoreInMemory, test::TestRange};

fn tree(range: &TestRange, tag: &str) -> MKTree<MKTreeStoreInMemory> {
    let leaves = (range.start..range.end).map(|i| format!("{tag}{i}")).collect::<Vec<_>>();
    MKTree::new(&leaves).unwrap()
}

fn map_and_leaves(tag: &str) -> (MKMap<TestRange, MKMapNode<TestRange, MKTreeStoreInMemory>, MKTreeStoreInMemory>, Vec<MKTreeNode>) {
    let ranges = [TestRange::new(0, 3), TestRange::new(3, 6), TestRange::new(6, 9)];
    let trees: Vec<_> = ranges.iter().map(|r| (r.clone(), tree(r, tag))).collect();
    let leaves = vec![trees[0].1.leaves()[0].clone(), trees[1].1.leaves()[1].clone(), trees[2].1.leaves()[2].clone()];
    let entries: Vec<_> = trees.into_iter().map(|(r, t)| (r, MKMapNode::Tree(Arc::new(t)))).collect();
    (MKMap::new(&entries).unwrap(), leaves)
}

#[test]
fn replay_verify() {
    let (honest_map, honest_leaves) = map_and_leaves("");
    let honest = honest_map.compute_proof(&honest_leaves).unwrap();
    honest.verify().expect("honest map proof rejected");
    assert_eq!(honest.sub_proofs.len(), 3);

    // a second, unrelated map ("forged" leaves): its sub-proofs are valid on their own but are not attached to the honest master proof
    let (other_map, other_leaves) = map_and_leaves("forged-");
    let other = other_map.compute_proof(&other_leaves).unwrap();
    other.verify().expect("second honest map proof rejected");

    for position in 0..honest.sub_proofs.len() {
        // detached sub-proof at any position (first, middle, last): valid in itself, not a leaf of the master proof
        let mut detached = honest.clone();
        detached.sub_proofs[position].1 = other.sub_proofs[position].1.clone();
        assert!(detached.verify().is_err(), "sub-proof #{position} detached from the master proof accepted");

        // sub-proof attached under another key
        let mut rekeyed = honest.clone();
        rekeyed.sub_proofs[position].0 = TestRange::new(100, 200);
        assert!(rekeyed.verify().is_err(), "sub-proof #{position} presented under a key it is not attached to accepted");

        // invalid sub-proof at any position: the sub-proof's own leaves replaced (its root kept, so it still looks attached)
        let mut broken = honest.clone();
        let foreign_leaf_proof = other.sub_proofs[position].1.master_proof.clone();
        let mut sub = broken.sub_proofs[position].1.clone();
        let kept_root = sub.master_proof.root().to_owned();
        sub.master_proof = foreign_leaf_proof;
        sub.master_proof.inner_root = kept_root;
        broken.sub_proofs[position].1 = sub;
        assert!(broken.verify().is_err(), "invalid sub-proof #{position} (foreign leaves under the honest sub-root) accepted");
    }

    // an extra, detached sub-proof appended after the honest ones
    let mut extra = honest.clone();
    extra.sub_proofs.push((TestRange::new(9, 12), other.sub_proofs[0].1.clone()));
    assert!(extra.verify().is_err(), "extra detached sub-proof accepted");

    // invalid master proof
    let mut bad_master = honest.clone();
    bad_master.master_proof = other.master_proof.clone();
    assert!(bad_master.verify().is_err(), "sub-proofs under a foreign master proof accepted");
}

#[test]
fn replay_compute_root() {
    let (honest_map, honest_leaves) = map_and_leaves("");
    let honest = honest_map.compute_proof(&honest_leaves).unwrap();
    assert_eq!(honest.compute_root(), honest_map.compute_root().unwrap(), "proof root is not the map's root");
    assert_eq!(&honest.compute_root(), honest.master_proof.root());
}

// C11 / C09 (generic tree) — replay on the REAL MKMapProof::verify with real Merkle-mountain-range proofs (attached as a
// cfg(test) child module of internal/mithril-merkle-tree/src/merkle_map.rs in the scratch copy, so the private fields of
// MKMapProof are reachable). A failing test reproduces the violation: a proof whose sub-proofs are not all verified and all
// attached to the master proof is accepted.
use super::*;
use crate::{MKTreeStoreInMemory, test::TestRange};

fn tree(range: &TestRange, tag: &str) -> MKTree<MKTreeStoreInMemory> {
    let leaves = (range.start..range.end).map(|i| format!("{tag}{i}")).collect::<Vec<_>>();
    MKTree::new(&leaves).unwrap()
}

fn map_and_leaves(tag: &str) -> (MKMap<TestRange, MKMapNode<TestRange, MKTreeStoreInMemory>, MKTreeStoreInMemory>, Vec<MKTreeNode>) {
    let ranges = [TestRange::new(0, 3), TestRange::new(3, 6), TestRange::new(6, 9)];
    let trees: Vec<_> = ranges.iter().map(|r| (r.clone(), tree(r, tag))).collect();
    let leaves = vec![trees[0].1.leaves()[0].clone(), trees[1].1.leaves()[1].clone(), trees[2].1.leaves()[2].clone()];
    let entries: Vec<_> = trees.into_iter().map(|(r, t)| (r, MKMapNode::Tree(Arc::new(t)))).collect();
    (MKMap::new(&entries).unwrap(), leaves)
}

#[test]
fn replay_verify() {
    let (honest_map, honest_leaves) = map_and_leaves("");
    let honest = honest_map.compute_proof(&honest_leaves).unwrap();
    honest.verify().expect("honest map proof rejected");
    assert_eq!(honest.sub_proofs.len(), 3);

    // a second, unrelated map ("forged" leaves): its sub-proofs are valid on their own but are not attached to the honest master proof
    let (other_map, other_leaves) = map_and_leaves("forged-");
    let other = other_map.compute_proof(&other_leaves).unwrap();
    other.verify().expect("second honest map proof rejected");

    for position in 0..honest.sub_proofs.len() {
        // detached sub-proof at any position (first, middle, last): valid in itself, not a leaf of the master proof
        let mut detached = honest.clone();
        detached.sub_proofs[position].1 = other.sub_proofs[position].1.clone();
        assert!(detached.verify().is_err(), "sub-proof #{position} detached from the master proof accepted");

        // sub-proof attached under another key
        let mut rekeyed = honest.clone();
        rekeyed.sub_proofs[position].0 = TestRange::new(100, 200);
        assert!(rekeyed.verify().is_err(), "sub-proof #{position} presented under a key it is not attached to accepted");

        // invalid sub-proof at any position that still LOOKS attached (its master proof, hence its root, is kept): one level down it
        // carries a sub-proof of its own that is not attached to it
        let mut broken = honest.clone();
        broken.sub_proofs[position].1.sub_proofs.push((TestRange::new(0, 1), other.sub_proofs[position].1.clone()));
        assert!(broken.sub_proofs[position].1.verify().is_err(), "nested detached sub-proof accepted");
        assert!(broken.verify().is_err(), "invalid sub-proof #{position} (valid root, detached proof nested inside it) accepted");
    }

    // proofs with exactly ONE sub-proof (a single certified leaf): detached / re-keyed / invalid
    let single = honest_map.compute_proof(&honest_leaves[1..2]).unwrap();
    single.verify().expect("honest single-leaf map proof rejected");
    assert_eq!(single.sub_proofs.len(), 1);
    let mut detached = single.clone();
    detached.sub_proofs[0].1 = other.sub_proofs[1].1.clone();
    assert!(detached.verify().is_err(), "the only sub-proof, detached from the master proof, accepted");
    let mut rekeyed = single.clone();
    rekeyed.sub_proofs[0].0 = TestRange::new(100, 200);
    assert!(rekeyed.verify().is_err(), "the only sub-proof presented under another key accepted");
    let mut broken = single.clone();
    broken.sub_proofs[0].1.sub_proofs.push((TestRange::new(0, 1), other.sub_proofs[0].1.clone()));
    assert!(broken.verify().is_err(), "the only sub-proof is invalid (detached proof nested inside it) and accepted");

    // an extra, detached sub-proof appended after the honest ones
    let mut extra = honest.clone();
    extra.sub_proofs.push((TestRange::new(9, 12), other.sub_proofs[0].1.clone()));
    assert!(extra.verify().is_err(), "extra detached sub-proof accepted");

    // a detached sub-proof inserted under the SAME key as a genuine one, before / after it (duplicated key)
    for position in 0..honest.sub_proofs.len() {
        for after in [0usize, 1] {
            let mut duplicated = honest.clone();
            let key = duplicated.sub_proofs[position].0.clone();
            duplicated.sub_proofs.insert(position + after, (key, other.sub_proofs[position].1.clone()));
            assert!(duplicated.verify().is_err(), "detached sub-proof sharing the key of genuine sub-proof #{position} accepted (inserted at +{after})");
        }
    }

    // invalid master proof
    let mut bad_master = honest.clone();
    bad_master.master_proof = other.master_proof.clone();
    assert!(bad_master.verify().is_err(), "sub-proofs under a foreign master proof accepted");
}

#[test]
fn replay_compute_root() {
    let (honest_map, honest_leaves) = map_and_leaves("");
    let honest = honest_map.compute_proof(&honest_leaves).unwrap();
    assert_eq!(honest.compute_root(), honest_map.compute_root().unwrap(), "proof root is not the map's root");
    assert_eq!(&honest.compute_root(), honest.master_proof.root());
}

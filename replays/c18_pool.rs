// C18 — replay of pool-generation violations on the REAL ResourcePool<String> (attached as cfg(test) child module of
// internal/mithril-resource-pool/src/resource_pool.rs in the scratch copy). A failing test reproduces the violation.
use super::*;
use std::time::Duration;

fn pool_with_one() -> ResourcePool<String> {
    let pool = ResourcePool::<String>::new(2, vec!["generation-0".to_string()]);
    pool.set_discriminant(0).unwrap();
    pool
}

/// history: acquire under generation 0; refresh to generation 1 (set_discriminant, clear); return the stale item
#[test]
fn replay_stale_item_returned_by_give_back_resource_pool_item() {
    let pool = pool_with_one();
    let item = pool.acquire_resource(Duration::from_millis(10)).unwrap();
    pool.set_discriminant(1).unwrap();
    pool.clear();
    pool.give_back_resource_pool_item(item).unwrap();
    assert_eq!(pool.count().unwrap(), 0, "history [acquire@gen0, set_discriminant(1), clear, give_back_resource_pool_item(item@gen0)]: the stale resource was re-admitted into generation 1");
}

#[test]
fn replay_stale_item_returned_by_drop() {
    let pool = pool_with_one();
    let item = pool.acquire_resource(Duration::from_millis(10)).unwrap();
    pool.set_discriminant(1).unwrap();
    pool.clear();
    drop(item);
    assert_eq!(pool.count().unwrap(), 0, "history [acquire@gen0, set_discriminant(1), clear, drop(item@gen0)]: the stale resource was re-admitted into generation 1");
}

#[test]
fn replay_stale_item_returned_by_give_back_resource() {
    let pool = pool_with_one();
    let mut item = pool.acquire_resource(Duration::from_millis(10)).unwrap();
    let d = item.discriminant();
    let resource = item.take().unwrap();
    pool.set_discriminant(1).unwrap();
    pool.clear();
    pool.give_back_resource(resource, d).unwrap();
    assert_eq!(pool.count().unwrap(), 0, "history [acquire@gen0, set_discriminant(1), clear, give_back_resource(resource, 0)]: the stale resource was re-admitted into generation 1");
}

#[test]
fn replay_pool_never_exceeds_its_size() {
    let pool = ResourcePool::<String>::new(1, vec!["a".to_string()]);
    pool.give_back_resource("b".to_string(), pool.discriminant().unwrap()).unwrap();
    assert!(pool.count().unwrap() <= pool.size(), "pool holds more resources than its configured size");
    let item = pool.acquire_resource(Duration::from_millis(10)).unwrap();
    pool.give_back_resource("c".to_string(), pool.discriminant().unwrap()).unwrap();
    drop(item);
    assert!(pool.count().unwrap() <= pool.size(), "pool holds more resources than its configured size");
}

// C11 — replay on the REAL proof message verification with real Merkle-map proofs (attached as a cfg(test) child module of
// mithril-common/src/messages/cardano_transactions_proof.rs in the scratch copy). A failing test reproduces the violation.
use super::*;
use crate::crypto_helper::MKTreeStoreInMemory;
use crate::entities::{BlockNumber, CardanoTransaction, CardanoTransactionsSetProof, MkSetProof, ProtocolMessage, ProtocolMessagePartKey, SlotNumber};
use crate::messages::{CardanoTransactionMessagePart, CardanoTransactionsProofsV2Message, MkSetProofMessagePart};
use crate::entities::BlockNumberOffset;
use crate::test::entities_extensions::{CardanoTransactionsSetProofTestExtension, MkSetProofTestExtension};

fn legacy_part(leaves: &[(u64, &str)]) -> CardanoTransactionsSetProofMessagePart {
    let leaves: Vec<(BlockNumber, String)> = leaves.iter().map(|(b, t)| (BlockNumber(*b), t.to_string())).collect();
    CardanoTransactionsSetProof::from_leaves::<MKTreeStoreInMemory>(&leaves).unwrap().try_into().unwrap()
}

/// legacy format, CardanoTransactionsProofsMessage::verify / CardanoTransactionsSetProof::verify
#[test]
fn replay_verify() {
    let all = [(0, "tx-1"), (1, "tx-2"), (20, "tx-3"), (40, "tx-4")];
    let whole = legacy_part(&all);
    // honest: one part
    let v = CardanoTransactionsProofsMessage::new("cert", vec![whole.clone()], vec![], BlockNumber(99)).verify().expect("honest proof rejected");
    assert_eq!(v.certified_transactions(), &["tx-1", "tx-2", "tx-3", "tx-4"].map(String::from), "reported items are not the proven items");
    // a hash that is not a leaf of the part's proof
    let mut forged = whole.clone();
    forged.transactions_hashes.push("tx-forged".to_string());
    assert!(CardanoTransactionsProofsMessage::new("cert", vec![forged], vec![], BlockNumber(99)).verify().is_err(), "transaction that is not a proven leaf reported as certified");
    // a second part re-using the first part's proof with other hashes
    let mut second = whole.clone();
    second.transactions_hashes = vec!["tx-not-in-the-tree".to_string()];
    assert!(CardanoTransactionsProofsMessage::new("cert", vec![whole.clone(), second], vec![], BlockNumber(99)).verify().is_err(),
        "second part re-using the first part's proof string with other transaction hashes accepted");
    // parts proven under different roots
    let other_tree = legacy_part(&[(0, "tx-a"), (1, "tx-b")]);
    assert!(CardanoTransactionsProofsMessage::new("cert", vec![whole.clone(), other_tree.clone()], vec![], BlockNumber(99)).verify().is_err(), "parts with different Merkle roots accepted");
    assert!(CardanoTransactionsProofsMessage::new("cert", vec![other_tree, whole.clone()], vec![], BlockNumber(99)).verify().is_err(), "parts with different Merkle roots accepted");
    // no part at all
    assert!(CardanoTransactionsProofsMessage::new("cert", vec![], vec![], BlockNumber(99)).verify().is_err(), "empty proof accepted");
    // the set proof itself
    let p: CardanoTransactionsSetProof = whole.clone().try_into().unwrap();
    assert!(p.verify().is_ok());
    let mut forged = whole.clone();
    forged.transactions_hashes[0] = "tx-renamed".to_string();
    let p: CardanoTransactionsSetProof = forged.try_into().unwrap();
    assert!(p.verify().is_err(), "renamed transaction hash accepted by the set proof");

    // v2 format: ProofMessageVerifier::verify / MkSetProof::verify / CardanoTransactionsProofsV2Message::verify
    let tx = |h: &str, b: u64| CardanoTransaction::new(h, BlockNumber(b), SlotNumber(b * 10), format!("block-{b}"));
    let txs = vec![tx("tx-1", 1), tx("tx-2", 2), tx("tx-3", 30)];
    let proof = MkSetProof::<CardanoTransaction>::from_leaves::<MKTreeStoreInMemory>(&txs).unwrap();
    assert!(proof.verify().is_ok(), "honest v2 set proof rejected");
    let part: MkSetProofMessagePart<CardanoTransactionMessagePart> = proof.clone().try_into().unwrap();
    let msg = |p: MkSetProofMessagePart<CardanoTransactionMessagePart>| CardanoTransactionsProofsV2Message::new("cert", Some(p), vec![], BlockNumber(99), BlockNumberOffset(15));
    let v = msg(part.clone()).verify().expect("honest v2 proof rejected");
    assert_eq!(v.certified_transactions().len(), 3);
    assert_eq!(v.latest_certified_block_number(), BlockNumber(99));
    assert_eq!(v.security_parameter(), BlockNumberOffset(15));
    // an item moved to another block / slot (same hash)
    let mut moved = part.clone();
    moved.items[0].block_number = BlockNumber(7);
    assert!(msg(moved).verify().is_err(), "transaction moved to another block accepted");
    // an item listed a second time with altered fields
    let mut dup = part.clone();
    let mut again = dup.items[0].clone();
    again.slot_number = SlotNumber(9999);
    dup.items.push(again);
    assert!(msg(dup).verify().is_err(), "transaction listed a second time with another slot accepted");
    // an added item
    let mut added = part.clone();
    added.items.push(tx("tx-forged", 3).into());
    assert!(msg(added).verify().is_err(), "transaction that is not a proven leaf accepted (v2)");
    assert!(CardanoTransactionsProofsV2Message::new("cert", None, vec![], BlockNumber(99), BlockNumberOffset(15)).verify().is_err(), "v2 message without certified items accepted");
}

/// VerifiedCardanoTransactions::fill_protocol_message: the signed message is rebuilt from the verified root and block number
#[test]
fn replay_fill_protocol_message() {
    let whole = legacy_part(&[(0, "tx-1"), (1, "tx-2")]);
    let v = CardanoTransactionsProofsMessage::new("cert", vec![whole], vec![], BlockNumber(4321)).verify().unwrap();
    let mut message = ProtocolMessage::new();
    message.set_message_part(ProtocolMessagePartKey::LatestBlockNumber, "stale".to_string());
    v.fill_protocol_message(&mut message);
    assert_eq!(message.get_message_part(&ProtocolMessagePartKey::CardanoTransactionsMerkleRoot), Some(&v.merkle_root.clone()), "Merkle root not taken from the verified value");
    assert_eq!(message.get_message_part(&ProtocolMessagePartKey::LatestBlockNumber), Some(&"4321".to_string()), "latest block number not taken from the verified value");
}

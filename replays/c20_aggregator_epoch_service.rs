// C20 / C06 — replay on the REAL aggregator MithrilEpochService (mithril-aggregator/src/services/epoch_service.rs). Attached
// as a cfg(test) child module in the scratch copy. The stores are keyed by LITERAL epochs (not by the offset functions, which
// the repository's own test builder uses on both sides): signers recorded under epochs 4, 5, 6, 7 are four different sets,
// and the three configurations carry three different protocol parameters. A test that FAILS reproduces a violation.
use std::collections::BTreeSet;
use std::sync::Arc;

use mithril_cardano_node_chain::test::double::FakeChainObserver;
use mithril_common::entities::{Epoch, ProtocolParameters, SignerWithStake, SupportedEra};
use mithril_common::protocol::SignerBuilder;
use mithril_common::test::builder::MithrilFixtureBuilder;
use mithril_common::test::double::Dummy;
use mithril_protocol_config::test::double::configuration_provider::FakeMithrilNetworkConfigurationProvider;

use crate::store::{EpochSettingsStorer, FakeEpochSettingsStorer, MockVerificationKeyStorer};
use crate::test::TestLogger;
use crate::test::double::mocks::MockStakeStore;

use super::*;

fn fixture_recorded_under(epoch: u64) -> mithril_common::test::builder::MithrilFixture {
    // a different number of signers per recording epoch: 2 under epoch 4, 3 under 5, 4 under 6, 5 under 7; the key material
    // recorded under epoch 5 / 6 was made for the parameters for aggregation / next aggregation of epoch 6
    let tag = match epoch { 5 => 1, 6 => 2, _ => 3 };
    MithrilFixtureBuilder::default().with_signers((epoch - 2) as usize).with_protocol_parameters(parameters(tag)).build()
}
fn signers_recorded_under(epoch: u64) -> Vec<SignerWithStake> { fixture_recorded_under(epoch).signers_with_stake() }
/// three strongly different parameter sets: 1 = for aggregation (every index won), 2 = for next aggregation, 3 = for registration
fn parameters(tag: u64) -> ProtocolParameters {
    match tag { 1 => ProtocolParameters::new(2, 10, 1.0), 2 => ProtocolParameters::new(20, 300, 0.2), _ => ProtocolParameters::new(5, 100, 0.65) }
}
fn settings(tag: u64) -> AggregatorEpochSettings {
    AggregatorEpochSettings { protocol_parameters: parameters(tag), ..AggregatorEpochSettings::dummy() }
}

async fn service() -> (MithrilEpochService, Arc<FakeEpochSettingsStorer>) {
    let mut verification_key_store = MockVerificationKeyStorer::new();
    verification_key_store.expect_get_signers().returning(|e| {
        Ok(if (4..=7).contains(&*e) { Some(signers_recorded_under(*e)) } else { None })
    });
    let chain_observer = FakeChainObserver::default();
    chain_observer.set_current_era("era".to_string()).await;
    let mut stake_store = MockStakeStore::new();
    stake_store.expect_get_stakes().returning(|_| Ok(None));
    let allowed = BTreeSet::new();
    let provider = FakeMithrilNetworkConfigurationProvider::new(
        settings(1).into_network_configuration_for_epoch(allowed.clone()),   // for aggregation
        settings(2).into_network_configuration_for_epoch(allowed.clone()),   // for next aggregation
        settings(3).into_network_configuration_for_epoch(allowed.clone()),   // for registration
    );
    let settings_storer = Arc::new(FakeEpochSettingsStorer::new(Vec::new()));
    let service = MithrilEpochService::new(
        EpochServiceDependencies::new(
            Arc::new(provider),
            settings_storer.clone(),
            Arc::new(verification_key_store),
            Arc::new(chain_observer),
            Arc::new(EraChecker::new(SupportedEra::dummy(), Epoch::default())),
            Arc::new(stake_store),
        ),
        allowed,
        TestLogger::stdout(),
    );
    (service, settings_storer)
}

fn set(v: &[SignerWithStake]) -> BTreeSet<SignerWithStake> { v.iter().cloned().collect() }

/// inform_epoch(6): signers in force = recorded under epoch 5, next signers = recorded under epoch 6, the registration
/// settings are saved under epoch 7 (and nowhere else)
#[tokio::test]
async fn replay_inform_epoch() {
    let (mut service, settings_storer) = service().await;
    service.inform_epoch(Epoch(6)).await.expect("inform_epoch(6) failed");
    assert_eq!(set(service.current_signers_with_stake().unwrap()), set(&signers_recorded_under(5)),
               "inform_epoch(6): the signer set in force is not the one recorded under epoch 5 ({} signers instead of 3)", service.current_signers_with_stake().unwrap().len());
    assert_eq!(set(service.next_signers_with_stake().unwrap()), set(&signers_recorded_under(6)),
               "inform_epoch(6): the next signer set is not the one recorded under epoch 6 ({} signers instead of 4)", service.next_signers_with_stake().unwrap().len());
    for e in 0..10u64 {
        let saved = settings_storer.get_epoch_settings(Epoch(e)).await.unwrap();
        if e == 7 {
            assert_eq!(saved.map(|s| s.protocol_parameters), Some(parameters(3)), "inform_epoch(6): the registration settings are not saved under epoch 7");
        } else {
            assert!(saved.is_none(), "inform_epoch(6): epoch settings saved under epoch {} (expected only under epoch 7)", e);
        }
    }
    assert_eq!(service.epoch_of_current_data().unwrap(), Epoch(6));
    assert!(service.current_aggregate_verification_key().is_err(), "inform_epoch(6): aggregate keys of the previous epoch survive");
    // epoch 0 has no signer-retrieval epoch
    let (mut service, _) = self::service().await;
    assert!(service.inform_epoch(Epoch(0)).await.is_err(), "inform_epoch(0) succeeded although no signer-retrieval epoch exists");
}

/// precompute_epoch_data: current key from (signers in force, parameters for aggregation), next key from (next signers,
/// parameters for next aggregation), exactly as SignerBuilder computes them
#[tokio::test]
async fn replay_precompute_epoch_data() {
    let (mut service, _) = service().await;
    service.inform_epoch(Epoch(6)).await.unwrap();
    service.precompute_epoch_data().await.expect("precompute_epoch_data failed");
    let expected = SignerBuilder::new(&signers_recorded_under(5), &parameters(1)).unwrap().compute_aggregate_verification_key();
    let expected_next = SignerBuilder::new(&signers_recorded_under(6), &parameters(2)).unwrap().compute_aggregate_verification_key();
    assert!(service.current_aggregate_verification_key().unwrap() == &expected,
            "current aggregate key is not SignerBuilder(signers recorded under epoch 5, parameters for aggregation)");
    assert!(service.next_aggregate_verification_key().unwrap() == &expected_next,
            "next aggregate key is not SignerBuilder(signers recorded under epoch 6, parameters for next aggregation)");
    assert!(service.protocol_multi_signer().unwrap().compute_aggregate_verification_key() == expected, "current multi-signer built from other inputs");
    assert!(service.next_protocol_multi_signer().unwrap().compute_aggregate_verification_key() == expected_next, "next multi-signer built from other inputs");
    // the parameters are not part of the concatenation key, so they are checked through behaviour: single signatures made by
    // the signers recorded under epoch 5 with the parameters for aggregation (phi_f = 1: all 10 indices) verify under the
    // current multi-signer, those made by the signers recorded under epoch 6 with the parameters for next aggregation
    // (m = 300) verify under the next multi-signer
    let mut message = mithril_common::entities::ProtocolMessage::new();
    message.set_message_part(mithril_common::entities::ProtocolMessagePartKey::CurrentEpoch, "6".to_string());
    let signatures = fixture_recorded_under(5).sign_all(&message);
    assert_eq!(signatures.len(), 3);
    for s in &signatures {
        service.protocol_multi_signer().unwrap().verify_single_signature(&message, s)
            .expect("a signature made with the parameters for aggregation is rejected by the current multi-signer (built with other parameters?)");
    }
    let next_signatures = fixture_recorded_under(6).sign_all(&message);
    assert!(next_signatures.iter().any(|s| s.won_indexes.iter().any(|i| *i >= 10)), "fixture too small to tell the two parameter sets apart");
    for s in &next_signatures {
        service.next_protocol_multi_signer().unwrap().verify_single_signature(&message, s)
            .expect("a signature made with the parameters for next aggregation is rejected by the next multi-signer (built with other parameters?)");
    }
}

/// update_next_signers_with_stake: re-reads the signers recorded under the CURRENT epoch (6) and recomputes the keys
#[tokio::test]
async fn replay_update_next_signers_with_stake() {
    let (mut service, _) = service().await;
    service.inform_epoch(Epoch(6)).await.unwrap();
    service.update_next_signers_with_stake().await.expect("update_next_signers_with_stake failed");
    assert_eq!(set(service.next_signers_with_stake().unwrap()), set(&signers_recorded_under(6)),
               "update_next_signers_with_stake at epoch 6: next signers are not those recorded under epoch 6 ({} signers instead of 4)", service.next_signers_with_stake().unwrap().len());
    assert_eq!(set(service.current_signers_with_stake().unwrap()), set(&signers_recorded_under(5)), "update_next_signers_with_stake changed the signer set in force");
    let expected_next = SignerBuilder::new(&signers_recorded_under(6), &parameters(2)).unwrap().compute_aggregate_verification_key();
    assert!(service.next_aggregate_verification_key().unwrap() == &expected_next, "next aggregate key not recomputed from the refreshed next signers");
}

#[tokio::test]
async fn replay_get_signers_with_stake_at_epoch() {
    let (service, _) = service().await;
    assert_eq!(set(&service.get_signers_with_stake_at_epoch(Epoch(5)).await.unwrap()), set(&signers_recorded_under(5)));
    assert!(service.get_signers_with_stake_at_epoch(Epoch(9)).await.unwrap().is_empty(), "signers returned for an epoch with nothing recorded");
}

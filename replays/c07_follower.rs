// C07 — replay on the REAL follower (mithril-aggregator/src/services/signer_registration/follower.rs): real registration
// verifier (real cold / KES / BLS keys), real SQLite verification-key store; the leader's answer and the follower's stake store
// are mocks. Attached as a cfg(test) child module in the scratch copy. A test that FAILS reproduces a violation.
use std::sync::Arc;
use tokio::sync::RwLock;

use mithril_cardano_node_chain::test::double::FakeChainObserver;
use mithril_common::entities::{Epoch, Signer, StakeDistribution, TimePoint};
use mithril_common::messages::{EpochSettingsMessage, SignerMessagePart, TryFromMessageAdapter};
use mithril_common::test::builder::MithrilFixtureBuilder;
use mithril_common::test::double::Dummy;

use crate::database::{repository::SignerRegistrationStore, test_helper::main_db_connection};
use crate::message_adapters::FromEpochSettingsAdapter;
use crate::services::{FakeEpochService, MithrilSignerRegistrationVerifier, MockLeaderAggregatorClient, MockSignerRecorder};
use crate::test::double::mocks::MockStakeStore;
use crate::VerificationKeyStorer;

use super::*;

fn follower(leader_epoch: Epoch, announced: Vec<Signer>, stakes_by_epoch: Vec<(Epoch, StakeDistribution)>) -> (MithrilSignerRegistrationFollower, Arc<SignerRegistrationStore>) {
    let store = Arc::new(SignerRegistrationStore::new(Arc::new(main_db_connection().unwrap()), None));
    let mut recorder = MockSignerRecorder::new();
    recorder.expect_record_signer_registration().returning(|_| Ok(()));
    let settings = FromEpochSettingsAdapter::try_adapt(EpochSettingsMessage { epoch: leader_epoch, next_signers: SignerMessagePart::from_signers(announced), ..EpochSettingsMessage::dummy() }).unwrap();
    let mut leader = MockLeaderAggregatorClient::new();
    leader.expect_retrieve_epoch_settings().returning(move || Ok(Some(settings.clone())));
    let mut stake_store = MockStakeStore::new();
    stake_store.expect_get_stakes().returning(move |e| Ok(stakes_by_epoch.iter().find(|(k, _)| *k == e).map(|(_, d)| d.clone())));
    let f = MithrilSignerRegistrationFollower::new(
        Arc::new(RwLock::new(FakeEpochService::without_data())),
        store.clone(),
        Arc::new(recorder),
        Arc::new(MithrilSignerRegistrationVerifier::new(Arc::new(FakeChainObserver::new(Some(TimePoint::dummy()))))),
        Arc::new(leader),
        Arc::new(stake_store),
    );
    (f, store)
}

async fn scenarios() {
    let fixture = MithrilFixtureBuilder::default().with_signers(4).build();
    let signers: Vec<Signer> = fixture.signers();
    let stakes = |tag: u64, n: usize| -> StakeDistribution { signers[0..n].iter().enumerate().map(|(i, s)| (s.party_id.clone(), tag + i as u64)).collect() };
    let sync = Epoch(8).offset_to_leader_synchronization_epoch();

    // a signer announced by the leader that is NOT in the follower's own stake distribution: nothing of it is saved
    let (f, store) = follower(Epoch(8), signers.clone(), vec![(sync, stakes(300, 3))]);
    let _ = f.synchronize_all_signers().await;   // (fails on the epoch-service refresh or on the unknown pool; either way:)
    let saved = store.get_signers(sync).await.unwrap().unwrap_or_default();
    assert!(!saved.iter().any(|s| s.party_id == signers[3].party_id), "a pool absent from the follower's OWN stake distribution was saved because the leader announced it");

    // a signer announced under ANOTHER pool's name: saved, if at all, under the pool id bound to its certificate, with that pool's stake
    let mut spliced = signers[0].clone();
    spliced.party_id = signers[1].party_id.clone();
    let (f, store) = follower(Epoch(8), vec![spliced], vec![(sync, stakes(300, 4))]);
    let _ = f.synchronize_all_signers().await;
    let saved = store.get_signers(sync).await.unwrap().unwrap_or_default();
    assert!(saved.iter().all(|s| s.party_id == signers[0].party_id && s.stake == 300), "a leader-announced signer was saved under a CLAIMED party id / another pool's stake: {:?}", saved.iter().map(|s| (s.party_id.clone(), s.stake)).collect::<Vec<_>>());

    // honest announcement: saved under the synchronization epoch only, with the follower's OWN stakes for that epoch
    let (f, store) = follower(Epoch(8), signers[0..3].to_vec(), vec![(Epoch(7), stakes(100, 4)), (sync, stakes(300, 4)), (Epoch(9), stakes(500, 4))]);
    let _ = f.synchronize_all_signers().await;
    let saved = store.get_signers(sync).await.unwrap().unwrap_or_default();
    assert_eq!(saved.len(), 3, "honestly announced signers were not saved under the synchronization epoch");
    assert!(saved.iter().all(|s| (300..304).contains(&s.stake)), "saved with the stakes of another epoch: {:?}", saved.iter().map(|s| s.stake).collect::<Vec<_>>());
    for e in [Epoch(7), Epoch(9), Epoch(10)] {
        if e != sync { assert!(store.get_signers(e).await.unwrap().unwrap_or_default().is_empty(), "signers saved under {:?} (synchronization epoch {:?})", e, sync); }
    }
    // the follower never accepts a direct registration
    assert!(crate::SignerRegisterer::register_signer(&f, sync, &signers[3]).await.is_err(), "a follower accepted a direct registration");
}

#[tokio::test]
async fn replay_synchronize_signers() { scenarios().await }
#[tokio::test]
async fn replay_synchronize_all_signers() { scenarios().await }

/// the follower synchronizes only when the leader is at the SAME epoch
#[tokio::test]
async fn replay_can_synchronize_signers() {
    let (f, _) = follower(Epoch(8), vec![], vec![]);
    for (e, expected) in [(Epoch(7), false), (Epoch(8), true), (Epoch(9), false)] {
        let got = crate::services::SignerSynchronizer::can_synchronize_signers(&f, e).await.unwrap();
        assert_eq!(got, expected, "can_synchronize_signers({:?}) with the leader at epoch 8 answered {}", e, got);
    }
}

// C03 — replay on the REAL mithril-client chain walk (certificate_client/verify.rs, default features). Attached as a
// cfg(test) child module of verify.rs in the scratch copy. Real chains (real keys, signatures, hashes) from
// CertificateChainBuilder; the aggregator is a map hash -> certificate message. A test that FAILS reproduces a violation:
// a chain with ANY tampered certificate on the walk (including the first one and the genesis one), or a genesis certificate
// signed under another key, must be rejected; the untouched chain must be accepted.
use std::collections::HashMap;

use mithril_common::messages::CertificateMessage;
use mithril_common::test::builder::CertificateChainBuilder;

use crate::certificate_client::tests_utils::CertificateClientTestBuilder;

use super::*;

fn key_hex(genesis_verifier: &GenesisVerifier) -> String {
    genesis_verifier.to_ed25519_verification_key().try_into().unwrap()
}

fn client_for(served: &[(String, Certificate)], key: String) -> CertificateClient {
    let map: HashMap<String, CertificateMessage> =
        served.iter().map(|(h, c)| (h.clone(), c.clone().try_into().unwrap())).collect();
    CertificateClientTestBuilder::default()
        .config_aggregator_requester_mock(move |mock| {
            mock.expect_get_by_hash().returning(move |h| Ok(map.get(h).cloned()));
        })
        .with_genesis_verification_key(key)
        .build()
}

async fn scenarios() {
    let chain = CertificateChainBuilder::new()
        .with_total_certificates(7)
        .with_certificates_per_epoch(2)
        .build();
    let certs: Vec<Certificate> = chain.certificates_chained.clone();
    let head = certs[0].hash.clone();
    let key = key_hex(&chain.genesis_verifier);
    let served: Vec<(String, Certificate)> = certs.iter().map(|c| (c.hash.clone(), c.clone())).collect();

    // the untouched chain is accepted
    client_for(&served, key.clone()).verify_chain(&head).await.expect("valid chain rejected");

    // the walk from the head: follow previous_hash until the genesis certificate (the builder links the certificates of an
    // epoch to one certificate of the previous epoch, so not every certificate of the chain is on the walk)
    let mut walk: Vec<usize> = vec![];
    let mut at = Some(0usize);
    while let Some(i) = at {
        walk.push(i);
        at = if certs[i].is_genesis() { None } else { certs.iter().position(|c| c.hash == certs[i].previous_hash) };
    }
    assert!(walk.len() >= 3 && certs[*walk.last().unwrap()].is_genesis(), "unexpected chain shape from the builder: walk {:?}", walk);

    // any tampered certificate on the walk (served under the hash its successor refers to) makes the chain invalid
    for i in walk {
        let mut served = served.clone();
        served[i].1.signed_message = "00".repeat(32);
        let r = client_for(&served, key.clone()).verify_chain(&head).await;
        assert!(r.is_err(), "chain accepted although certificate #{} of {} on the walk (hash {}) is tampered (signed message replaced)", i, certs.len(), served[i].0);
    }

    // a chain whose genesis certificate is signed under ANOTHER genesis key is rejected
    // (the chain builder's genesis key is a fixed-seed one, so the other key is freshly generated)
    let other_verifier = mithril_common::crypto_helper::GenesisSigner::from_ed25519(
        mithril_common::crypto_helper::GenesisEd25519Signer::create_non_deterministic_signer(),
    )
    .create_verifier();
    let r = client_for(&served, key_hex(&other_verifier)).verify_chain(&head).await;
    assert!(r.is_err(), "chain accepted under a genesis verification key that did not sign its genesis certificate");
}

#[tokio::test]
async fn replay_verify_chain() { scenarios().await }
#[tokio::test]
async fn replay_verify_with_cache_enabled() { scenarios().await }
#[tokio::test]
async fn replay_verify_without_cache() { scenarios().await }

// C07 / C20 — replay on the REAL AggregatorRunner::open_signer_registration_round (mithril-aggregator/src/runtime/runner.rs)
// with the real leader and real stores. Attached as a cfg(test) child module in the scratch copy. Stake distributions are
// stored under LITERAL epochs with distinctive stakes. A test that FAILS reproduces a violation.
use std::sync::Arc;

use mithril_cardano_node_chain::test::double::FakeChainObserver;
use mithril_common::entities::{Epoch, StakeDistribution, TimePoint};
use mithril_common::test::double::Dummy;
use mithril_persistence::store::StakeStorer;

use crate::dependency_injection::DependenciesBuilder;
use crate::{MithrilSignerRegistrationLeader, MithrilSignerRegistrationVerifier, ServeCommandConfiguration};

use super::*;

async fn setup(temp_dir: std::path::PathBuf) -> (AggregatorRunner, Arc<MithrilSignerRegistrationLeader>, Arc<dyn StakeStorer>) {
    let config = ServeCommandConfiguration::new_sample(temp_dir);
    let mut builder = DependenciesBuilder::new_with_stdout_logger(Arc::new(config));
    let leader = Arc::new(MithrilSignerRegistrationLeader::new(
        builder.get_verification_key_store().await.unwrap(),
        builder.get_signer_store().await.unwrap(),
        Arc::new(MithrilSignerRegistrationVerifier::new(Arc::new(FakeChainObserver::new(Some(TimePoint::dummy()))))),
    ));
    let mut deps = builder.build_serve_dependencies_container().await.unwrap();
    deps.signer_registration_round_opener = leader.clone();
    let stake_store: Arc<dyn StakeStorer> = deps.stake_store.clone();
    (AggregatorRunner::new(Arc::new(deps)), leader, stake_store)
}

fn stakes(tag: u64) -> StakeDistribution { [("pool-a".to_string(), tag), ("pool-b".to_string(), tag + 1)].into_iter().collect() }

#[tokio::test]
async fn replay_open_signer_registration_round() {
    // stake distributions stored under epochs 9, 10, 11: the round opened at epoch 10 is the round of epoch 11 with the
    // distribution stored under epoch 11
    let (runner, leader, stake_store) = setup(mithril_common::temp_dir!()).await;
    for e in 9..=11u64 { stake_store.save_stakes(Epoch(e), stakes(100 * e)).await.unwrap(); }
    let time_point = TimePoint { epoch: Epoch(10), ..TimePoint::dummy() };
    runner.open_signer_registration_round(&time_point).await.unwrap();
    let round = leader.get_current_round().await.expect("no round opened");
    assert_eq!(round.epoch, Epoch(11), "the round opened at epoch 10 is not the round of the recording epoch 11");
    assert!(round == crate::SignerRegistrationRound::dummy(Epoch(11), stakes(1100)), "the round of epoch 11 does not carry the stake distribution stored under epoch 11: {:?}", round);

    // nothing stored under the recording epoch: the round carries NO stakes (so nobody can register), not another epoch's
    let (runner, leader, stake_store) = setup(mithril_common::temp_dir!()).await;
    stake_store.save_stakes(Epoch(10), stakes(1000)).await.unwrap();
    runner.open_signer_registration_round(&time_point).await.unwrap();
    let round = leader.get_current_round().await.expect("no round opened");
    assert_eq!(round.epoch, Epoch(11));
    assert!(round == crate::SignerRegistrationRound::dummy(Epoch(11), StakeDistribution::new()), "the round of epoch 11 was opened with the stake distribution of ANOTHER epoch although none is stored under epoch 11: {:?}", round);
}

// C07 — replay on the REAL KeyRegWrapper / KES verifier / OpCert with real cold keys, KES keys and BLS keys (attached as a
// cfg(test) child module of mithril-common/src/crypto_helper/cardano/key_certification.rs in the scratch copy).
// Each test asserts the clauses of C07 that the named function must enforce; a failing test reproduces the violation.
use super::*;
use crate::crypto_helper::cardano::kes::KesSignerStandard;
use crate::crypto_helper::cardano::{KesVerifier, KesVerifierStandard};
use crate::crypto_helper::{KesPeriod, OpCert, SerDeShelleyFileFormat};
use crate::test::crypto_helper::{KesCryptographicMaterialForTest, KesPartyIndexForTest, create_kes_cryptographic_material};
use rand_chacha::ChaCha20Rng;
use rand_core::SeedableRng;

struct Party {
    party_id: ProtocolPartyId,
    opcert: ProtocolOpCert,
    initializer: StmInitializerWrapper,
}

fn party(index: u64, kes_period_at_signing: u64, stake: Stake, tag: &str) -> Party {
    let params = Parameters { m: 5, k: 5, phi_f: 1.0 };
    let mut rng = ChaCha20Rng::from_seed([index as u8; 32]);
    let KesCryptographicMaterialForTest { party_id, operational_certificate_file, kes_secret_key_file } =
        create_kes_cryptographic_material(index as KesPartyIndexForTest, KesPeriod(0), tag);
    let initializer = StmInitializerWrapper::setup(
        params,
        Some(Arc::new(KesSignerStandard::new(kes_secret_key_file, operational_certificate_file.clone()))),
        Some(KesPeriod(kes_period_at_signing)),
        stake,
        &mut rng,
    )
    .unwrap();
    let opcert: ProtocolOpCert = OpCert::from_file(operational_certificate_file).unwrap().into();
    Party { party_id, opcert, initializer }
}

fn request(p: &Party, evolutions: u64) -> SignerRegistrationParameters {
    SignerRegistrationParameters {
        party_id: None,
        operational_certificate: Some(p.opcert.clone()),
        verification_key_signature_for_concatenation: p.initializer.verification_key_signature_for_concatenation(),
        kes_evolutions: Some(KesEvolutions(evolutions)),
        verification_key_for_concatenation: p.initializer.stm_initializer.get_verification_key_proof_of_possession_for_concatenation().into(),
    }
}

/// KeyRegWrapper::register: pool-bound id, stake from the distribution, key signed by THIS opcert's KES key
#[test]
fn replay_register() {
    let (a, b) = (party(1, 0, 10, "replay_register"), party(2, 0, 3, "replay_register"));
    // honest
    let mut reg = KeyRegWrapper::init(&vec![(a.party_id.clone(), 10), (b.party_id.clone(), 3)]);
    assert_eq!(reg.register(request(&a, 0)).expect("honest registration rejected"), a.party_id, "returned party id must be the pool id derived from the cold key");
    // the same key twice
    assert!(reg.register(request(&a, 0)).is_err(), "key registered twice");
    // pool not in the stake distribution
    let mut reg = KeyRegWrapper::init(&vec![(b.party_id.clone(), 3)]);
    assert!(reg.register(request(&a, 0)).is_err(), "pool absent from the stake distribution registered");
    // a CLAIMED party id must not replace the certified one (identity and stake come from the cold key)
    let mut reg = KeyRegWrapper::init(&vec![(a.party_id.clone(), 10), (b.party_id.clone(), 3)]);
    let mut claimed = request(&a, 0);
    claimed.party_id = Some(b.party_id.clone());
    match reg.register(claimed) {
        Ok(id) => assert_eq!(id, a.party_id, "registration of pool A's material with claimed party id B was recorded under B"),
        Err(_) => {}
    }
    let mut reg = KeyRegWrapper::init(&vec![(b.party_id.clone(), 3)]);
    let mut claimed = request(&a, 0);
    claimed.party_id = Some(b.party_id.clone());
    assert!(reg.register(claimed).is_err(), "a pool absent from the stake distribution registered by naming a member");
    // splicing: B's key with A's opcert / A's KES signature
    let mut reg = KeyRegWrapper::init(&vec![(a.party_id.clone(), 10), (b.party_id.clone(), 3)]);
    let mut spliced = request(&a, 0);
    spliced.verification_key_for_concatenation = request(&b, 0).verification_key_for_concatenation;
    assert!(reg.register(spliced).is_err(), "key of B accepted with the KES signature made for the key of A");
    let mut spliced = request(&a, 0);
    spliced.operational_certificate = Some(b.opcert.clone());
    assert!(reg.register(spliced).is_err(), "KES signature of A accepted under the operational certificate of B");
    // missing pieces
    let mut r = request(&a, 0);
    r.operational_certificate = None;
    assert!(reg.register(r).is_err(), "registration without operational certificate accepted");
    let mut r = request(&a, 0);
    r.verification_key_signature_for_concatenation = None;
    assert!(reg.register(r).is_err(), "registration without KES signature accepted");
    let mut r = request(&a, 0);
    r.kes_evolutions = None;
    assert!(reg.register(r).is_err(), "registration without KES evolutions accepted");
}

/// KesVerifierStandard::verify: only evolutions within one period of the announced one
#[test]
fn replay_verify() {
    for signed_at in [0u64, 1, 2, 5] {
        let p = party(3, signed_at, 10, "replay_verify");
        let sig = p.initializer.verification_key_signature_for_concatenation().unwrap().into_inner();
        let key_bytes = request(&p, 0).verification_key_for_concatenation.to_bytes();
        for announced in 0u64..9 {
            let accepted = KesVerifierStandard.verify(&key_bytes, &sig, &p.opcert, KesEvolutions(announced)).is_ok();
            let within_one_period = announced + 1 >= signed_at && announced <= signed_at + 1;
            assert!(!accepted || within_one_period, "KES signature made at evolution {} accepted with announced evolution {} (more than one period away)", signed_at, announced);
        }
        assert!(KesVerifierStandard.verify(b"another message", &sig, &p.opcert, KesEvolutions(signed_at)).is_err(), "KES signature accepted for another message");
    }
}

/// OpCert::validate: every signed field matters
#[test]
fn replay_validate() {
    use crate::crypto_helper::cardano::OpCertWithoutColdVerificationKey;
    let (a, b) = (party(4, 0, 10, "replay_validate"), party(5, 0, 10, "replay_validate"));
    assert!(a.opcert.validate().is_ok(), "honest operational certificate rejected");
    let forge = |kes_from: &ProtocolOpCert, issue_delta: u64, cold_from: &ProtocolOpCert| OpCert {
        opcert_without_vk: OpCertWithoutColdVerificationKey {
            kes_vk: kes_from.get_kes_verification_key(),
            issue_number: a.opcert.get_issue_number() + issue_delta,
            start_kes_period: a.opcert.get_start_kes_period(),
            cert_sig: a.opcert.get_certificate_signature(),
        },
        cold_vk: cold_from.get_cold_verification_key(),
    };
    assert!(forge(&a.opcert, 0, &a.opcert).validate().is_ok(), "re-assembled honest operational certificate rejected");
    assert!(forge(&a.opcert, 1, &a.opcert).validate().is_err(), "operational certificate with altered issue number accepted");
    assert!(forge(&b.opcert, 0, &a.opcert).validate().is_err(), "operational certificate with another KES key accepted");
    assert!(forge(&a.opcert, 0, &b.opcert).validate().is_err(), "operational certificate accepted under another cold key");
}

// C06 — replay on the REAL signer path (mithril-signer/src/services/single_signer.rs build_protocol_single_signer). Attached
// as a cfg(test) child module in the scratch copy. A test that FAILS reproduces a violation: the single signer must be
// restored from exactly (the epoch's CURRENT signers with their stakes, the key material's own parameters), so the aggregate
// key it signs against equals the one SignerBuilder derives from those inputs.
use std::sync::Arc;
use tokio::sync::RwLock;

use mithril_common::entities::{Epoch, ProtocolMessage, ProtocolMessagePartKey};
use mithril_common::protocol::SignerBuilder;
use mithril_common::test::builder::MithrilFixtureBuilder;
use mithril_common::test::double::Dummy;
use mithril_persistence::store::StakeStorer;

use crate::database::repository::{ProtocolInitializerRepository, StakePoolStore};
use crate::database::test_helper::main_db_connection;
use crate::services::MithrilEpochService;
use crate::test::TestLogger;

use super::*;

#[tokio::test]
async fn replay_build_protocol_single_signer() {
    let fixture = MithrilFixtureBuilder::default().with_signers(5).build();
    let other = MithrilFixtureBuilder::default().with_signers(3).build();
    let me = fixture.signers_fixture()[0].clone();
    let connection = Arc::new(main_db_connection().unwrap());
    let stake_store = Arc::new(StakePoolStore::new(connection.clone(), None));
    // epoch 12: current signers use the stakes saved under epoch 11, next signers those under epoch 12
    stake_store.save_stakes(Epoch(11), fixture.stake_distribution()).await.unwrap();
    stake_store.save_stakes(Epoch(12), other.stake_distribution()).await.unwrap();
    let protocol_initializer_store = Arc::new(ProtocolInitializerRepository::new(connection, None));
    let epoch_service = MithrilEpochService::new(
        Arc::new(mithril_era::EraChecker::new(mithril_common::entities::SupportedEra::dummy(), Epoch::default())),
        stake_store,
        protocol_initializer_store,
        TestLogger::stdout(),
    )
    .set_data_to_default_or_fake(Epoch(12))
    .alter_data(|d| {
        d.protocol_initializer = Some(me.protocol_initializer.clone());
        d.current_signers = fixture.signers();
        d.next_signers = other.signers();
    });
    let single_signer = MithrilSingleSigner::new(me.party_id(), Arc::new(RwLock::new(epoch_service)), TestLogger::stdout());
    let protocol_signer = single_signer.build_protocol_single_signer().await.expect("signer could not be restored");

    let expected = SignerBuilder::new(&fixture.signers_with_stake(), &fixture.protocol_parameters()).unwrap().compute_aggregate_verification_key();
    let mut message = ProtocolMessage::new();
    message.set_message_part(ProtocolMessagePartKey::CurrentEpoch, "12".to_string());
    // a signature made by the restored signer verifies under the key derived from (current signers, the key material's parameters)
    let multi_signer = SignerBuilder::new(&fixture.signers_with_stake(), &fixture.protocol_parameters()).unwrap().build_multi_signer();
    assert!(multi_signer.compute_aggregate_verification_key() == expected);
    let signature = protocol_signer.sign(&message).expect("signing failed").expect("no lottery won (fixture parameters give every signer indices)");
    multi_signer.verify_single_signature(&message, &signature)
        .expect("the restored signer's signature does not verify under SignerBuilder(current signers with stake, key material's parameters)");
}

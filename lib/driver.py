"""check <Cxx> [--tier quick|thorough] [--replay file]  — see /verif/DESIGN.md §2."""
import argparse
import importlib
import json
import os
import re
import sys
import time

sys.path.insert(0, os.path.dirname(os.path.abspath(__file__)))
sys.path.insert(0, os.path.join(os.path.dirname(os.path.abspath(__file__)), "..", "props"))

import kani as K
import verus as V
from common import (EVIDENCE, EXIT_OK, EXIT_UNDECIDED, EXIT_VIOLATION, REPO, VERIF, Scratch, Undecided, attach, log,
                    require_anchor, run, write_json)


def load_known():
    p = os.path.join(VERIF, "known_findings.json")
    if not os.path.exists(p):
        return []
    return json.load(open(p)).get("findings", [])


def known_match(known, pid, unit_name, failed_desc):
    """A failed check is a known finding iff a `known` entry names this property, this harness / verus unit and a
    substring of the failed check's description. `fixed` entries suppress nothing."""
    for k in known:
        if k.get("status") != "known" or k.get("property") != pid:
            continue
        if k.get("harness") != unit_name:
            continue
        if k.get("check") and k["check"] not in failed_desc:
            continue
        return k
    return None


def scan_trusted(paths):
    """Mechanical scan for everything that is an assumption rather than a proof."""
    pats = [("kani::stub", r"kani::stub\(([^,]+),"), ("kani::assume", r"kani::assume\((.*)\);"),
            ("external_body", r"external_body"), ("assume_specification", r"assume_specification"),
            ("admit", r"\badmit\(\)"), ("verus assume", r"^\s*assume\("), ("unsafe", r"\bunsafe\b"),
            ("mem::forget", r"mem::forget")]
    found = []
    counts = {}
    for p in paths:
        if not os.path.exists(p):
            continue
        for n, line in enumerate(open(p, errors="replace"), 1):
            s = line.strip()
            if s.startswith("//"):
                continue
            for label, rx in pats:
                m = re.search(rx, line)
                if m:
                    counts[label] = counts.get(label, 0) + 1
                    if label in ("kani::stub",):
                        found.append("%s:%d stub of %s (callee replaced by its contract)" % (os.path.relpath(p, VERIF), n, m.group(1).strip()))
                    elif label in ("external_body", "assume_specification", "admit", "verus assume"):
                        # describe with the next fn name if any
                        found.append("%s:%d %s" % (os.path.relpath(p, VERIF), n, label))
    summary = ["scan: %d x %s" % (c, l) for l, c in sorted(counts.items())]
    # dedupe stubs by target
    seen, out = set(), []
    for f in found:
        key = f.split(" ", 1)[1]
        if key in seen and "stub of" in f:
            continue
        seen.add(key)
        out.append(f)
    return summary + out


def tier_harnesses(unit, tier):
    return [h for h in unit.harnesses if tier == "thorough" or h.tier == "quick"]


def V_errors(raw):
    """the compiler / verifier error messages of a Verus run, without the JSON tail"""
    i = raw.find("{\n")
    head = raw[:i] if i > 0 else raw
    errs = [m.group(0) for m in re.finditer(r"^error[^\n]*\n(?:[^\n]*\n){0,6}", head, re.M)]
    return "\n".join(errs) if errs else head[-1500:]


def main(argv=None):
    ap = argparse.ArgumentParser()
    ap.add_argument("prop")
    ap.add_argument("--tier", default=os.environ.get("VERIF_TIER", "quick"), choices=["quick", "thorough"])
    ap.add_argument("--replay", default=None)
    ap.add_argument("--only", default=None, help="comma separated harness / verus unit names (debugging)")
    args = ap.parse_args(argv)
    pid = args.prop
    seed = int(os.environ.get("VERIF_SEED", "0") or 0)
    t0 = time.time()
    try:
        mod = importlib.import_module(pid)
    except ModuleNotFoundError:
        log("unknown property %s" % pid)
        return EXIT_UNDECIDED
    prop = mod.PROP
    if args.replay:
        import replay as R
        return R.replay_file(prop, args.replay)

    evidence_path = os.path.join(EVIDENCE, pid + ".json")
    only = set(args.only.split(",")) if args.only else None
    known = load_known()
    harness_reports, verus_reports, cmds = [], [], []
    undecided, violations, known_hits = [], [], []
    fallback_lines = []     # violations shown by the bounded replay stand-in of a unit the verifier could not process
    resource_limited = []   # timeouts / solver memory limits: recorded in the evidence, never an alarm and never a failure of the check
    trusted_paths = []
    fns_under_contract = []

    try:
        with Scratch(pid) as scratch:
            # ------------------------------------------------------------------ Kani units
            for unit in prop.kani:
                hs = [h for h in tier_harnesses(unit, args.tier) if not only or h.name in only]
                if not hs:
                    continue
                for (rel, fn, within) in unit.anchors:
                    require_anchor(scratch, rel, fn, within)
                atts = [(rel, os.path.join(VERIF, modfile), modname, "kani") for (rel, modfile, modname) in unit.attach]
                attach(scratch, atts, unit.contracts)
                trusted_paths += [a[1] for a in atts]
                budget = max([h.timeout or 0 for h in hs] + [300 if args.tier == "quick" else 1800])
                total_budget = 900 + budget * (1 + len(hs) // max(1, unit.jobs or K.JOBS))
                log("[%s] kani: %d harnesses on %s (per-harness budget %ds)" % (pid, len(hs), unit.crate, budget))
                results, shown, secs, out = K.run_kani(scratch.tree, unit.crate, [h.name for h in hs], total_budget, budget,
                                                       features=unit.features, env=unit.env, cbmc_args=unit.cbmc_args, jobs=unit.jobs)
                cmds.append(shown)
                # thorough tier: harnesses whose solver ran out of memory at the parallel budget get a second, nearly sequential
                # run with a large resident-set budget before they are reported as resource-limited
                oom = [h.name for h in hs if results[h.name].status == "out-of-memory"]
                if args.tier == "thorough" and oom and os.environ.get("VERIF_NO_RETRY") != "1":
                    log("[%s] kani: retrying %d out-of-memory harnesses with 2 jobs x %d GB" % (pid, len(oom), K.RETRY_MEM_GB))
                    res2, shown2, secs2, out2 = K.run_kani(scratch.tree, unit.crate, oom, 900 + budget * (1 + len(oom) // 2), budget,
                                                            features=unit.features, env=unit.env, cbmc_args=unit.cbmc_args, jobs=2, mem_gb=K.RETRY_MEM_GB)
                    cmds.append(shown2)
                    results.update(res2)
                for h in hs:
                    r = results[h.name]
                    rep = r.to_json()
                    rep.update(kind=h.kind, bound=h.bound, obligation=h.obligation, functions=h.fns,
                               backend="kani 0.68 / cbmc 6.11 + cadical", bounded=(h.kind == "bounded"))
                    harness_reports.append(rep)
                    for f in h.fns:
                        if f not in fns_under_contract:
                            fns_under_contract.append(f)
                    if r.status == "success":
                        if r.checks_total == 0:
                            undecided.append("%s: zero checks generated (vacuous)" % h.name)
                        elif r.covers_total != r.covers_satisfied:
                            undecided.append("%s: cover not reachable (%s) - harness vacuous" % (h.name, "; ".join(r.unsat_covers)))
                        continue
                    if r.status == "failed" and K.classify(r) == "property":
                        unknown = []
                        for c in r.failed_checks:
                            k = known_match(known, pid, h.name, c["description"])
                            if k:
                                known_hits.append((k, h.name, c))
                            else:
                                unknown.append(c)
                        if unknown:
                            violations.append(dict(unit=unit, harness=h, result=r, failed=unknown))
                        continue
                    if r.status == "failed":
                        undecided.append("%s: tool limit (%s)" % (h.name, "; ".join(c["description"] for c in r.failed_checks[:3]) or "no failed check reported"))
                    elif r.status in ("timeout", "out-of-memory", "solver-error"):
                        resource_limited.append("%s: %s (budget %ss)" % (h.name, r.status, h.timeout or budget))
                    else:
                        undecided.append("%s: %s" % (h.name, r.status))
            # ------------------------------------------------------------------ Verus units
            for vu in prop.verus:
                if only and vu.name not in only:
                    continue
                tmpl = os.path.join(VERIF, vu.tmpl)
                trusted_paths.append(tmpl)
                try:
                    text, extracted = V.expand_template(scratch, tmpl)
                except Undecided as e:
                    # this unit cannot be assembled from the changed text (lost anchor / rewrite no longer matching): the
                    # unit is undecided; the other units of the property are still run and may decide
                    import replay as R
                    line = R.fallback_on_undecided(prop, scratch, vu, e)
                    if line:
                        fallback_lines.append(line)
                    undecided.append("verus %s: %s" % (vu.name, e))
                    verus_reports.append(dict(unit=vu.name, status="not-assembled", verified=0, errors=0, smt_s=None, wall_s=0.0, obligation=vu.obligation,
                                              functions=vu.fns, extracted=[], file="", backend="verus 0.2026.09.13 / z3", failures=[], failed_functions=[]))
                    continue
                outp = os.path.join(EVIDENCE, "extracted", "%s_%s.rs" % (pid, vu.name))
                os.makedirs(os.path.dirname(outp), exist_ok=True)
                open(outp, "w").write(text)
                log("[%s] verus: %s (%d functions extracted from the working tree)" % (pid, vu.name, len(extracted)))
                res = V.run_verus(outp, timeout_s=vu.timeout)
                cmds.append(res["cmd"])
                rep = dict(unit=vu.name, status=res["status"], verified=res["verified"], errors=res["errors"],
                           smt_s=res.get("smt_s"), wall_s=round(res["secs"], 2), obligation=vu.obligation, functions=vu.fns,
                           extracted=extracted, file=os.path.relpath(outp, VERIF), backend="verus 0.2026.09.13 / z3",
                           failures=res["failures"][:8], failed_functions=res.get("failed_functions", []))
                verus_reports.append(rep)
                for f in vu.fns:
                    if f not in fns_under_contract:
                        fns_under_contract.append(f)
                if res["status"] == "success":
                    if res["verified"] == 0:
                        undecided.append("verus %s: zero functions verified" % vu.name)
                    continue
                if res["status"] == "failed":
                    exec_failed = [f for f in res.get("failed_functions", []) if f.get("mode") == "exec"]
                    if exec_failed and not res.get("rlimit"):
                        descs = "; ".join(f["function"] for f in exec_failed)
                        k = known_match(known, pid, vu.name, descs)
                        if k:
                            known_hits.append((k, vu.name, dict(description=descs)))
                        else:
                            violations.append(dict(verus=vu, result=res, failed=exec_failed))
                    else:
                        undecided.append("verus %s: a lemma that does not depend on the code failed or rlimit (%s)" % (vu.name, res["failures"][:2]))
                elif res["status"] == "timeout":
                    resource_limited.append("verus %s: timeout" % vu.name)
                else:
                    import replay as R
                    line = R.fallback_on_undecided(prop, scratch, vu, V_errors(res["raw"])) if res["status"] == "error" else None
                    if line:
                        fallback_lines.append(line)
                    undecided.append("verus %s: %s %s" % (vu.name, res["status"], V_errors(res["raw"])[-600:]))

            # ------------------------------------------------------------------ violations: replay
            viol_lines = list(fallback_lines)
            if violations:
                import replay as R
                for n, v in enumerate(violations):
                    line = R.make_violation(prop, scratch, v, n, harness_reports)
                    if line.startswith("VIOLATION"):
                        viol_lines.append(line)
                    else:
                        undecided.append(line)
    except Undecided as e:
        undecided.append(str(e))
        viol_lines = list(fallback_lines)

    # ---------------------------------------------------------------------- evidence
    kani_checks = sum(h["checks"] for h in harness_reports)
    kani_ok = sum(h["checks"] - h["failed"] for h in harness_reports if h["status"] in ("success", "failed"))
    verus_total = sum(v["verified"] + v["errors"] for v in verus_reports)
    verus_ok = sum(v["verified"] for v in verus_reports)
    bounded = [h for h in harness_reports if h["bounded"]]
    unbounded = [h for h in harness_reports if not h["bounded"]]
    samples = []
    for h in harness_reports[:40]:
        samples.append(dict(engine="kani", harness=h["harness"], kind=h["kind"], bound=h["bound"], obligation=h["obligation"],
                            functions=h["functions"], checks=h["checks"], status=h["status"], solver_s=h["solver_s"]))
    for v in verus_reports:
        samples.append(dict(engine="verus", unit=v["unit"], obligation=v["obligation"], functions=v["functions"], verified=v["verified"],
                            errors=v["errors"], file=v["file"], extracted=v["extracted"], status=v["status"]))
    # obligations that fail only because of a recorded known finding are reported separately, not counted as discharged
    known_failed = len({(u, c.get("description")) for (k, u, c) in known_hits})
    coverage = dict(
        obligations=kani_checks + verus_total - known_failed,
        discharged=kani_ok + verus_ok,
        checker_cmd=" ;; ".join(cmds) or "none run",
        trusted_base=scan_trusted(trusted_paths) + list(prop.trusted),
        explanation=prop.explanation,
        functions_under_contract=fns_under_contract,
        kani_harnesses=len(harness_reports),
        kani_harnesses_unbounded=len(unbounded),
        kani_harnesses_bounded=len(bounded),
        bounded_stand_ins=[dict(harness=h["harness"], bound=h["bound"]) for h in bounded],
        kani_checks=kani_checks,
        verus_functions_verified=verus_ok,
        solver_s=round(sum(h["solver_s"] for h in harness_reports) + sum((v["smt_s"] or 0) for v in verus_reports), 2),
        samples=samples,
        not_decided=prop.not_decided,
        undecided_this_run=undecided,
        resource_limited_this_run=resource_limited,
        known_findings_hit=[dict(harness=u, what=k.get("what"), check=c.get("description")) for (k, u, c) in known_hits],
        per_harness=harness_reports,
        per_verus_unit=[{k: v for k, v in r.items() if k != "raw"} for r in verus_reports],
    )
    ev = dict(property_id=pid, tier=args.tier, seed=seed, level=prop.level, coverage=coverage,
              assumptions=prop.assumptions, wall_s=round(time.time() - t0, 1), violations=len(viol_lines))
    write_json(evidence_path, ev)

    seen = set()
    for (k, u, c) in known_hits:
        key = (k.get("id"), u)
        if key in seen:
            continue
        seen.add(key)
        log("KNOWN-FINDING: property=%s %s [%s]" % (pid, k.get("what"), u))
    for l in viol_lines:
        log(l)
    if viol_lines:
        return EXIT_VIOLATION
    for u in resource_limited:
        log("RESOURCE-LIMIT[%s]: %s - not discharged in this run (recorded in the evidence; neither an alarm nor a pass of that obligation)" % (pid, u))
    if undecided:
        for u in undecided:
            log("UNDECIDED[%s]: %s" % (pid, u))
        return EXIT_UNDECIDED
    log("[%s] OK: %d obligations discharged (%d kani checks in %d harnesses, %d verus functions)%s; %.0fs" % (
        pid, coverage["discharged"], kani_checks, len(harness_reports), verus_ok,
        ("; %d harnesses hit a resource limit" % len(resource_limited)) if resource_limited else "", time.time() - t0))
    return EXIT_OK


if __name__ == "__main__":
    sys.exit(main())

"""Engine V: mechanical extraction of real function text into a Verus file + running Verus.

Template syntax (lines starting with //@ inside a .tmpl.rs file):

  //@extract file=<rel path> fn=<name> [within="<impl header substring>"] [ret=<name>] [as=<new fn name>]
  //@  rewrite /<regex>/ => /<replacement>/          (applied to the extracted text, in order; `rewrite?` = optional: applied
  //@                                                 if it matches, e.g. a type annotation Verus needs for one spelling only)
  //@  spec <verus clause line>                      (requires / ensures / decreases lines, copied verbatim
  //@                                                 between the signature and the body)
  //@  attr <verus attribute>                       (placed in front of the function, e.g. #[verifier::exec_allows_no_decreases_clause]
  //@                                                 where termination is explicitly NOT claimed)
  //@  with_feature <feature>                       (what a build WITH the feature compiles: cfg(not(feature)) items dropped,
  //@                                                cfg(feature) attributes erased)
  //@  strip_cfg <feature>                          (drop items guarded by #[cfg(feature = "<feature>")]: what a build without
  //@                                                 that feature compiles)
  //@  body_prefix <text>                           (proof hint placed right after the opening brace of the body; may only
  //@                                                 mention parameters, so it cannot depend on how the body computes)
  //@  loop_prefix <n> <text>                       (proof-only text - `broadcast use ...;` - placed right after the opening brace
  //@                                                 of the n-th loop body: Verus verifies loop bodies separately)
  //@  loop <n> <verus clause line>                  (invariant / decreases lines put in front of the body of
  //@                                                 the n-th loop (0-based, in text order) of the function)
  //@end

Everything between the signature and the closing brace is the working tree's text. What the extraction drops
or rewrites, always: the item's attributes and doc comments, the return type is given a name (`-> T` becomes
`-> (ret: T)`); per template: the listed regex rewrites and nothing else. A rewrite whose regex does not match
is an error (exit 2), so a template cannot silently stop applying to changed code.
"""
import json
import os
import re
import shlex

from common import Undecided, _strip_comments_keep_layout, fn_text, match_brace, run

VERUS = os.environ.get("VERIF_VERUS", "verus")


def _name_return(sig, ret):
    # sig: text from `fn` up to (not including) the body '{'
    m = re.search(r"->\s*([^{]+?)\s*(where\b.*)?$", sig, re.S)
    if not m:
        return sig.rstrip() + "\n"
    ty = m.group(1).strip()
    where = m.group(2) or ""
    return sig[:m.start()] + "-> (%s: %s) %s\n" % (ret, ty, where)


def _loops(clean_body):
    """indices of the '{' that open loop bodies (for/while/loop), in text order"""
    res = []
    for m in re.finditer(r"\b(for|while|loop)\b", clean_body):
        # body '{' = first '{' at paren depth 0 after the keyword
        depth = 0
        i = m.end()
        while i < len(clean_body):
            ch = clean_body[i]
            if ch in "([":
                depth += 1
            elif ch in ")]":
                depth -= 1
            elif ch == "{" and depth == 0:
                res.append(i)
                break
            i += 1
    return res


def strip_cfg(text, feature, negated=False):
    """Remove every `#[cfg(feature = "<feature>")]` (negated: `#[cfg(not(feature = "<feature>"))]`) attribute together with the item it guards (a parameter, argument,
    struct-expression field or statement: everything up to and including the first `,` or `;` at bracket depth 0, or up
    to the closing bracket of the enclosing list). This is what rustc does in a build without that feature."""
    attr = re.compile((r'#\[cfg\(not\(feature\s*=\s*"%s"\)\)\]\s*' if negated else r'#\[cfg\(feature\s*=\s*"%s"\)\]\s*') % re.escape(feature))
    while True:
        m = attr.search(text)
        if not m:
            return text
        i = m.end()
        depth = 0
        while i < len(text):
            ch = text[i]
            if ch in "([{":
                depth += 1
            elif ch in ")]}":
                if depth == 0:
                    break
                depth -= 1
                if depth == 0 and ch == "}" :
                    # a block statement (if ... { } / { ... }) ends here unless followed by else / method call
                    j = i + 1
                    rest = text[j:].lstrip()
                    if not (rest.startswith("else") or rest.startswith(".") or rest.startswith("?") or rest.startswith(";") or rest.startswith(",")):
                        i += 1
                        break
            elif ch in ",;" and depth == 0:
                i += 1
                break
            i += 1
        text = text[:m.start()] + text[i:]


LET_ELSE = re.compile(r"(?<!if )(?<!while )\blet\s+(Some|Ok|Err)\((\w+)\)\s*=\s*")


def desugar_let_else(text):
    """`let Some(x) = EXPR else { BLOCK };`  ==>  `let x = match EXPR { Some(x) => x, _ => { BLOCK } };`
    (let-else is outside Verus' subset; this is its definition for a pattern binding a single identifier). Anything else
    is left untouched."""
    pos = 0
    while True:
        m = LET_ELSE.search(text, pos)
        if not m:
            return text
        # scan EXPR up to ` else {` at bracket depth 0; give up at `;` (a plain `let` or an if-let)
        i, depth, found = m.end(), 0, None
        while i < len(text):
            ch = text[i]
            if ch in "([{":
                depth += 1
            elif ch in ")]}":
                if depth == 0:
                    break
                depth -= 1
            elif ch == ";" and depth == 0:
                break
            elif depth == 0 and re.match(r"\belse\s*\{", text[i:]) and not text[i - 1].isalnum():
                found = i
                break
            i += 1
        if found is None:
            pos = m.end()
            continue
        expr = text[m.end():found].strip()
        b0 = text.index("{", found)
        j, depth = b0, 0
        while j < len(text):
            if text[j] == "{":
                depth += 1
            elif text[j] == "}":
                depth -= 1
                if depth == 0:
                    break
            j += 1
        k = j + 1
        while k < len(text) and text[k] in " \t\n":
            k += 1
        if k >= len(text) or text[k] != ";":
            pos = m.end()
            continue
        variant, ident = m.group(1), m.group(2)
        new = "let %s = match %s { %s(%s) => %s, _ => %s };" % (ident, expr, variant, ident, ident, text[b0:j + 1])
        text = text[:m.start()] + new + text[k + 1:]
        pos = m.start() + len(new)


def expand_template(scratch, tmpl_path):
    lines = open(tmpl_path).read().split("\n")
    out = []
    extracted = []
    i = 0
    while i < len(lines):
        line = lines[i]
        if line.strip().startswith("//@extract"):
            args = dict(a.split("=", 1) for a in shlex.split(line.strip()[len("//@extract"):]))
            rewrites, specs, loops, prefix, loop_prefix, strip, attrs = [], [], {}, [], {}, [], []
            with_feature = []
            i += 1
            while not lines[i].strip().startswith("//@end"):
                l = lines[i].strip()
                assert l.startswith("//@"), "bad template line %d in %s" % (i + 1, tmpl_path)
                l = l[3:].strip()
                if l.startswith("rewrite ") or l.startswith("rewrite? "):
                    m = re.match(r"rewrite\?? /(.*)/ => /(.*)/$", l)
                    assert m, "bad rewrite line %d" % (i + 1)
                    rewrites.append((m.group(1), m.group(2), l.startswith("rewrite? ")))
                elif l.startswith("spec "):
                    specs.append(l[5:])
                elif l.startswith("attr "):
                    attrs.append(l[len("attr "):].strip())
                elif l.startswith("strip_cfg "):
                    strip.append(l[len("strip_cfg "):].strip())
                elif l.startswith("with_feature "):
                    with_feature.append(l[len("with_feature "):].strip())
                elif l.startswith("body_prefix "):
                    prefix.append(l[len("body_prefix "):])
                elif l.startswith("loop_prefix "):
                    m = re.match(r"loop_prefix (\d+) (.*)$", l)
                    loop_prefix.setdefault(int(m.group(1)), []).append(m.group(2))
                elif l.startswith("loop "):
                    m = re.match(r"loop (\d+) (.*)$", l)
                    loops.setdefault(int(m.group(1)), []).append(m.group(2))
                elif l == "":
                    pass
                else:
                    raise AssertionError("bad template directive: " + l)
                i += 1
            text, line_no = fn_text(scratch, args["file"], args["fn"], args.get("within"), int(args.get("nth", "0")))
            for feat in strip:
                text = strip_cfg(text, feat)
            for feat in with_feature:
                # what a build WITH the feature compiles: items under cfg(not(feature)) dropped, cfg(feature) attributes erased
                text = strip_cfg(text, feat, negated=True)
                text = re.sub(r'#\[cfg\(feature\s*=\s*"%s"\)\]\s*' % re.escape(feat), "", text)
            text = desugar_let_else(text)
            for rx, rep, optional in rewrites:
                text, n = re.subn(rx, rep, text)
                if n == 0 and not optional:
                    raise Undecided("extraction rewrite /%s/ no longer matches %s::%s (code shape changed)" % (rx, args["file"], args["fn"]))
            clean = _strip_comments_keep_layout(text)
            # split signature / body
            depth = 0
            bo = None
            for k, ch in enumerate(clean):
                if ch in "([":
                    depth += 1
                elif ch in ")]":
                    depth -= 1
                elif ch == "{" and depth == 0:
                    bo = k
                    break
            sig, body = text[:bo], text[bo:]
            sig = re.sub(r"^\s*pub(\([^)]*\))?\s+", "", sig)
            sig = re.sub(r"^\s*", "", sig)
            if "as" in args:
                sig = re.sub(r"\bfn\s+" + re.escape(args["fn"]) + r"\b", "fn " + args["as"], sig, count=1)
            sig = _name_return(sig, args.get("ret", "ret"))
            # loop clauses
            if loops or loop_prefix:
                cb = _strip_comments_keep_layout(body)
                opens = _loops(cb)
                for n in sorted(set(loops) | set(loop_prefix), reverse=True):
                    if n >= len(opens):
                        raise Undecided("loop %d not found in %s::%s (code shape changed)" % (n, args["file"], args["fn"]))
                    pos = opens[n]
                    if n in loop_prefix:   # proof-only text right after the loop body's opening brace
                        body = body[:pos + 1] + " " + " ".join(loop_prefix[n]) + " " + body[pos + 1:]
                    if n in loops:
                        body = body[:pos] + "\n" + "\n".join("        " + c for c in loops[n]) + "\n    " + body[pos:]
            if prefix:
                body = "{\n        " + "\n        ".join(prefix) + body[1:]
            vis = args.get("vis", "")
            out.append("// ---- extracted from %s:%d (fn %s) ----" % (args["file"], line_no, args["fn"]))
            for a in attrs:
                out.append(a)
            out.append((vis + " " if vis else "") + sig.rstrip())
            for s in specs:
                out.append("    " + s)
            out.append(body)
            out.append("// ---- end of extracted text ----")
            extracted.append(dict(file=args["file"], fn=args["fn"], within=args.get("within"), line=line_no,
                                  rewrites=[r[0] + " => " + r[1] for r in rewrites]))
        else:
            out.append(line)
        i += 1
    return "\n".join(out), extracted


def run_verus(path, timeout_s=600, extra=()):
    cmd = [VERUS, path, "--triggers-mode", "silent", "--output-json", "--time", "--num-threads", "8", "--edition", "2024"] + list(extra)
    rc, out, secs = run(cmd, cwd=os.path.dirname(path), timeout=timeout_s)
    res = dict(cmd=" ".join(cmd), rc=rc, secs=secs, verified=0, errors=0, raw=out, failures=[], smt_s=None)
    if rc is None:
        res["status"] = "timeout"
        return res
    # JSON object is printed on stdout, diagnostics on stderr (merged). Find the outermost JSON object.
    m = re.search(r"\{\s*\"(encountered-vir-error|verification-results|times-ms)\".*\}\s*$", out, re.S)
    j = None
    start = out.find("{\n")
    while start >= 0:
        try:
            j = json.loads(out[start:out.rfind("}") + 1])
            break
        except Exception:
            start = out.find("{\n", start + 1)
    if j and "verification-results" in j:
        vr = j["verification-results"]
        res["verified"] = vr.get("verified", 0)
        res["errors"] = vr.get("errors", 0)
        res["status"] = "success" if vr.get("success") else "failed"
        t = j.get("times-ms", {})
        try:
            res["smt_s"] = t["smt"]["total"] / 1000.0 if isinstance(t.get("smt"), dict) else None
        except Exception:
            pass
        res["failed_functions"] = []
        res["function_times"] = []
        try:
            for mt in t["smt"]["smt-run-module-times"]:
                for fb in mt.get("function-breakdown", []):
                    res["function_times"].append(dict(function=fb["function"], mode=fb.get("mode:"), ms=fb.get("time"), ok=fb.get("success")))
                    if not fb.get("success"):
                        res["failed_functions"].append(dict(function=fb["function"], mode=fb.get("mode:")))
        except Exception:
            pass
    else:
        res["status"] = "error"
    # failure diagnostics
    for m in re.finditer(r"(error|note)(\[[A-Z0-9]+\])?: ([^\n]+)\n\s*--> ([^\n]+)", out):
        res["failures"].append(dict(kind=m.group(1), msg=m.group(3), at=m.group(4)))
    if res["status"] == "failed":
        # distinguish proof failures from dialect / syntax errors (tool limit => undecided)
        if j and j.get("encountered-vir-error") or "error: aborting due to" in out and res["errors"] == 0:
            res["status"] = "error"
    if "Resource limit (rlimit) exceeded" in out or "rlimit" in out and "exceeded" in out:
        res["rlimit"] = True
    return res

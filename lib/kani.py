"""Run Kani harnesses that live in /verif/contracts on the scratch copy of the real crate and parse results."""
import os
import re
import shutil
import time

from common import KANI_TARGET, Undecided, log, run

JOBS = int(os.environ.get("VERIF_JOBS", "6"))
RETRY_MEM_GB = int(os.environ.get("VERIF_RETRY_MEM_GB", "26"))
MEM_GB = int(os.environ.get("VERIF_MEM_GB", "9"))  # resident-set limit per cbmc process (watchdog in common.run); JOBS x MEM_GB must stay below RAM


class HarnessResult:
    def __init__(self, name):
        self.name = name
        self.full_name = None
        self.status = "missing"      # success | failed | timeout | error | missing
        self.checks_total = 0
        self.checks_failed = 0
        self.covers_total = 0
        self.covers_satisfied = 0
        self.failed_checks = []      # list of dict(description, location, klass)
        self.unsat_covers = []
        self.time_s = 0.0
        self.raw = ""
        self.stubs = []

    def to_json(self):
        return dict(harness=self.name, status=self.status, checks=self.checks_total, failed=self.checks_failed,
                    covers=self.covers_total, covers_satisfied=self.covers_satisfied,
                    failed_checks=self.failed_checks[:10], solver_s=round(self.time_s, 2))


CHECK_RE = re.compile(r"Check (\d+): (.+)\n\s*- Status: (\S+)\n\s*- Description: \"(.*)\"\n(?:\s*- Description: .*\n)*\s*- Location: (.*)\n")


def parse_harness_file(text, res):
    res.raw = text
    for m in CHECK_RE.finditer(text):
        _, cid, status, desc, loc = m.groups()
        klass = cid.rsplit(".", 2)[-2] if cid.count(".") >= 2 else cid
        if ".cover." in cid:
            res.covers_total += 1
            if status == "SATISFIED":
                res.covers_satisfied += 1
            else:
                res.unsat_covers.append(desc)
            continue
        res.checks_total += 1
        if status in ("FAILURE", "UNDETERMINED") and status == "FAILURE":
            res.checks_failed += 1
            res.failed_checks.append(dict(description=desc.strip('"'), location=loc.strip(), klass=klass, check_id=cid))
    m = re.search(r"Verification Time: ([0-9.]+)s", text)
    if m:
        res.time_s = float(m.group(1))
    if "CBMC timed out" in text:
        res.status = "timeout"
    elif "run out of memory" in text:
        res.status = "out-of-memory"
    elif "VERIFICATION:- SUCCESSFUL" in text:
        res.status = "success"
    elif "VERIFICATION:- FAILED" in text and res.checks_failed == 0 and re.search(r"Status: ERROR|CBMC failed with status", text):
        res.status = "solver-error"   # solver / memory limit: tool limit, not a property failure
    elif "VERIFICATION:- FAILED" in text:
        res.status = "failed"
        if res.checks_failed == 0:
            # failure without a failed check we can name (unwinding, unsupported construct reached ...)
            res.status = "failed"
    elif "TIMEOUT" in text.upper() or "timed out" in text:
        res.status = "timeout"
    else:
        res.status = "error"
    # unsupported-construct / unwinding failures are tool limits, not property failures
    return res


def classify(res):
    """'property' if some failed check is a user assertion / contract clause / built-in safety check;
    'limit' if every failure is an unwinding assertion or an unsupported construct."""
    if res.status != "failed":
        return None
    if not res.failed_checks:
        return "limit"
    limit_markers = ("unwinding assertion", "is not currently supported by Kani", "unsupported", "recursion unwinding")
    # an assertion of the harness about ITSELF (description starting with "harness:", e.g. a ghost table too small for this
    # shape) failed: the harness' model is not faithful for this run, so nothing it reports - including other failed
    # assertions - is a statement about the code: tool limit
    if any(c["description"].startswith("harness:") for c in res.failed_checks):
        return "limit"
    real = [c for c in res.failed_checks if not any(k in c["description"] for k in limit_markers)]
    return "property" if real else "limit"


def run_kani(tree, crate, harnesses, timeout_s, harness_timeout_s, extra_args=(), features=None, exact=True,
             solver=None, jobs=None, env=None, cbmc_args=(), mem_gb=None):
    """harnesses: list of short harness names (fn names, unique in the crate). Returns dict name -> HarnessResult,
    plus the command line and total seconds."""
    os.makedirs(KANI_TARGET, exist_ok=True)
    outdir = os.path.join(KANI_TARGET, "result_output_dir")
    os.makedirs(outdir, exist_ok=True)
    for f in os.listdir(outdir):
        if any(f.endswith("::" + h) for h in harnesses):
            os.remove(os.path.join(outdir, f))
    cmd = ["cargo", "kani", "-p", crate, "--target-dir", KANI_TARGET, "-Z", "function-contracts", "-Z", "stubbing",
           "-Z", "unstable-options", "--harness-timeout", "%ds" % harness_timeout_s, "--output-into-files",
           "--output-format=terse", "-j", str(jobs or JOBS)]
    if features:
        cmd += ["--features", features]
    if solver:
        cmd += ["--solver", solver]
    cmd += list(extra_args)
    for h in harnesses:
        cmd += ["--harness", h]
    if cbmc_args:
        cmd += ["--cbmc-args"] + list(cbmc_args)   # must be the last flag
    shown = "CARGO_NET_OFFLINE=true " + "".join("%s='%s' " % kv for kv in (env or {}).items()) + " ".join(cmd)
    # one cargo-kani at a time per target directory: concurrent runs on the same target dir lose per-harness result files
    import fcntl
    with open(os.path.join(KANI_TARGET, ".verif-lock"), "w") as lockf:
        fcntl.flock(lockf, fcntl.LOCK_EX)
        rc, out, secs = run(cmd, cwd=tree, timeout=timeout_s, mem_gb=mem_gb or MEM_GB, env=env)
    results = {h: HarnessResult(h) for h in harnesses}
    # build failure?
    if "Checking harness" not in out and "Complete -" not in out:
        if rc is None:
            raise Undecided("cargo kani timed out after %ds before verification started" % timeout_s)
        errs = [l for l in out.splitlines() if l.startswith("error")]
        raise Undecided("cargo kani build failed: " + " | ".join(errs[:6]) + "\n" + out[-1500:])
    # map full harness names
    for m in re.finditer(r"Checking harness (\S+?)\.\.\.", out):
        full = m.group(1)
        short = full.rsplit("::", 1)[-1]
        if short in results:
            results[short].full_name = full
    for m in re.finditer(r"- Stub: (.*)", out):
        pass
    for h, res in results.items():
        if res.full_name is None:
            if rc is None:
                res.status = "timeout"   # the whole run hit its wall-clock budget before this harness started
            continue
        f = os.path.join(outdir, res.full_name)
        if os.path.exists(f):
            parse_harness_file(open(f, errors="replace").read(), res)
        else:
            res.status = "timeout" if (rc is None or "timed out" in out) else "error"
    # harness-timeout message on stdout
    for m in re.finditer(r"Harness (\S+) timed out", out):
        short = m.group(1).rsplit("::", 1)[-1]
        if short in results:
            results[short].status = "timeout"
    return results, shown, secs, out


def playback_values(tree, crate, harness, timeout_s, extra_args=(), features=None, env=None):
    """Re-run one failing harness with concrete playback and return (unit test text, raw output)."""
    cmd = ["cargo", "kani", "-p", crate, "--target-dir", KANI_TARGET, "-Z", "function-contracts", "-Z", "stubbing",
           "-Z", "concrete-playback", "--concrete-playback=print", "--harness", harness]
    if features:
        cmd += ["--features", features]
    cmd += list(extra_args)
    rc, out, secs = run(cmd, cwd=tree, timeout=timeout_s, env=env)
    m = re.search(r"```\n(.*?)```", out, re.S)
    test = m.group(1) if m else None
    return test, out

"""Declarative description of what a property's check consists of."""


class H:
    """One Kani harness = one named group of obligations on real functions."""

    def __init__(self, name, kind, obligation, fns, bound=None, tier="quick", replay="playback", timeout=None,
                 known=None, expect_fail_until_fixed=None):
        assert kind in ("contract", "full", "unwind", "bounded")
        self.name = name
        self.kind = kind                # contract | full | unwind (complete) ; bounded (stand-in, never 'proved')
        self.obligation = obligation    # the postcondition in words / formula
        self.fns = fns                  # real functions under contract in this harness
        self.bound = bound              # stated bound for kind == bounded / unwind
        self.tier = tier
        self.replay = replay            # 'playback' (stub-free: Kani's concrete values run on the real code),
        #                                 'custom:<name>' (replay test constructing a real instance), 'none'
        self.timeout = timeout


class KaniUnit:
    def __init__(self, crate, attach, harnesses, contracts=(), features=None, anchors=(), replay_module=None, env=None, cbmc_args=(), jobs=None):
        self.crate = crate
        self.attach = attach            # [(rel source file, contract module rel to /verif, module name)]
        self.harnesses = harnesses
        self.contracts = list(contracts)  # [dict(file, fn, within, attrs)] attribute contracts on real fns
        self.features = features
        self.anchors = list(anchors)    # [(rel file, fn, within)] functions that must still exist
        self.replay_module = replay_module
        self.jobs = jobs                  # parallel harnesses (default lib/kani.py JOBS); light harnesses can use more
        self.cbmc_args = list(cbmc_args)  # passed through to CBMC (e.g. a larger unwind bound for the builtin memcmp only)
        self.env = dict(env or {})      # extra environment for cargo kani (e.g. RUSTFLAGS enabling a nightly feature the stubs need)


class VerusUnit:
    def __init__(self, name, tmpl, obligation, fns, paired_kani=(), timeout=600, twins_equivalent=False, advisory=False):
        self.name = name
        self.tmpl = tmpl                # template rel to /verif
        self.obligation = obligation
        self.fns = fns
        self.paired_kani = list(paired_kani)  # harness names that give counterexamples for the same functions
        self.timeout = timeout
        # True iff the paired Kani harnesses are complete proofs of the SAME contract on the real code: then a Verus failure with
        # passing twins is a proof-engineering failure (reported undecided), not a violation
        self.twins_equivalent = twins_equivalent
        # True iff the unit's intermediate specification mirrors the code more closely than the property demands (so a failure need
        # not be a violation): a failure is a violation only if a replay scenario reproduces it on the real code, else undecided
        self.advisory = advisory


class Property:
    def __init__(self, pid, level, kani=(), verus=(), assumptions=(), explanation="", not_decided=(), trusted=(), replays=()):
        self.id = pid
        self.level = level              # 'proof' | 'other'
        self.kani = list(kani)
        self.verus = list(verus)
        self.assumptions = list(assumptions)
        self.explanation = explanation
        self.not_decided = list(not_decided)
        self.trusted = list(trusted)
        self.replays = list(replays)    # [dict(crate, file=<rel source to attach to>, module=<replay test module rel to /verif>)]

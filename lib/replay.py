"""From a failed obligation to a VIOLATION line (DESIGN.md §2.3).

Kani failure  -> re-run the harness with concrete playback, write the replay file, run Kani's generated unit test
                 (`cargo kani playback`): the harness body then executes the REAL functions (kani::stub attributes are
                 inert in playback) on the concrete counterexample values.
Verus failure -> no counterexample exists; paired Kani harnesses have run already - if one of them failed it carries the
                 input, otherwise the line ends with no-failing-input-found.
"""
import json
import os
import re
import shutil

import kani as K
from common import EVIDENCE, KANI_TARGET, VERIF, log, run, write_json

REPLAY_DIR = os.path.join(EVIDENCE, "replay")


def _decode_vals(test_text):
    """concrete_vals: Vec<Vec<u8>> printed by Kani, each with a trailing `// <value>` comment"""
    vals = []
    for m in re.finditer(r"//\s*(.+)\n\s*vec!\[([0-9,\s]*)\]", test_text):
        by = [int(x) for x in m.group(2).replace("\n", " ").split(",") if x.strip()]
        vals.append(dict(bytes=by, shown=m.group(1).strip(), le_uint=int.from_bytes(bytes(by), "little") if by else None))
    return vals


def _playback_on_real_code(scratch, unit, harness, test_text):
    """Put Kani's generated unit test next to the harness (in a copy of the contract module inside the scratch tree) and
    run it with `cargo kani playback`. Returns (reproduced: bool|None, output)."""
    m = re.search(r"fn (kani_concrete_playback_\w+)", test_text)
    if not m:
        return None, "no playback test generated"
    test_name = m.group(1)
    # find the module that holds the harness
    for (rel, modfile, modname) in unit.attach:
        src = open(os.path.join(VERIF, modfile)).read()
        if re.search(r"\bfn\s+" + re.escape(harness.name) + r"\b", src) or harness.name in src:
            copy = os.path.join(scratch.root, "replay_" + os.path.basename(modfile))
            # textual includes are resolved relative to the module file: inline them in the copy
            moddir = os.path.dirname(os.path.join(VERIF, modfile))
            src = re.sub(r'include!\("([^"]+)"\);', lambda mm: open(os.path.join(moddir, mm.group(1))).read(), src)
            open(copy, "w").write(src + "\n" + test_text + "\n")
            p = scratch.path(rel)
            s = open(p).read()
            s = s.replace('#[path = "%s"]' % os.path.join(VERIF, modfile), '#[path = "%s"]' % copy)
            open(p, "w").write(s)
            break
    else:
        return None, "harness module not found"
    cmd = ["cargo", "kani", "playback", "-p", unit.crate, "-Z", "concrete-playback", "-Z", "function-contracts", "-Z", "stubbing"]
    if unit.features:
        cmd += ["--features", unit.features]
    cmd += ["--", test_name, "--nocapture"]
    rc, out, secs = run(cmd, cwd=scratch.tree, timeout=1500, env=dict(unit.env, RUST_BACKTRACE="0", CARGO_TARGET_DIR=os.path.join(KANI_TARGET, "playback")))
    os.makedirs(REPLAY_DIR, exist_ok=True)
    open(os.path.join(REPLAY_DIR, "%s.playback.log" % harness.name), "w").write(out)
    if rc is None:
        return None, "playback timed out\n" + out[-1500:]
    errs = "\n".join(m.group(0) for m in re.finditer(r"^error[^\n]*\n(?:[^\n]*\n){0,8}", out, re.M))
    if errs and "test result:" not in out:
        return None, "playback build failed:\n" + errs[:3000]
    if re.search(r"test result: FAILED|panicked at|test .* \.\.\. FAILED", out):
        return True, out[-3000:]
    if re.search(r"test result: ok\. 1 passed", out):
        return False, out[-1500:]
    return None, out[-3000:]


TEST_TARGET = os.path.join(os.path.dirname(KANI_TARGET), "test-target")


def run_custom_replay(prop, scratch, test_names):
    """Run canned replay tests (real instances built with the repository's own test builders) against the scratch copy of
    the working tree. Returns list of dict(test, reproduced, output). A test that FAILS reproduces the violation."""
    out = []
    by_mod = {}
    for rp in getattr(prop, "replays", []):
        src = open(os.path.join(VERIF, rp["module"])).read()
        for t in test_names:
            if re.search(r"\bfn\s+" + re.escape(t) + r"\b", src):
                by_mod.setdefault(rp["module"], (rp, []))[1].append(t)
    for modfile, (rp, tests) in by_mod.items():
        p = scratch.path(rp["file"])
        s = open(p).read()
        modname = "verif_replay_" + re.sub(r"\W", "_", os.path.basename(modfile).replace(".rs", ""))
        if ("mod %s;" % modname) not in s:
            decl = "\n#[cfg(test)]\n#[path = \"%s\"]\nmod %s;\n" % (os.path.join(VERIF, modfile), modname)
            if rp.get("inside_tests"):
                # child of the file's own `mod tests` (the LAST item of the file), so that the repository's private test helpers
                # (service containers with a dozen dependencies) can be reused by `use super::*`
                k = s.rstrip().rfind("}")
                s = s[:k] + decl + s[k:]
            else:
                s += decl
            open(p, "w").write(s)
        for t in tests:
            cmd = ["cargo", "test", "-p", rp["crate"], "--lib", "--offline"] + (["--features", rp["features"]] if rp.get("features") else []) + \
                  [modname + "::" + t, "--", "--nocapture"]
            rc, o, secs = run(cmd, cwd=scratch.tree, timeout=3000, env={"CARGO_TARGET_DIR": TEST_TARGET, "RUST_BACKTRACE": "0"})
            if rc is None:
                out.append(dict(test=t, reproduced=None, output="timeout"))
            elif re.search(r"test result: FAILED", o):
                m = re.search(r"panicked at[^\n]*\n([^\n]*)", o)
                out.append(dict(test=t, reproduced=True, failing_input=(m.group(1) if m else ""), output=o[-2500:], cmd=" ".join(cmd)))
            elif re.search(r"test result: ok\. [1-9]\d* passed; 0 failed", o):
                out.append(dict(test=t, reproduced=False, output=o[-600:], cmd=" ".join(cmd)))
            else:
                out.append(dict(test=t, reproduced=None, output=o[-2500:], cmd=" ".join(cmd)))
    return out


def make_violation(prop, scratch, v, n, harness_reports):
    os.makedirs(REPLAY_DIR, exist_ok=True)
    if "harness" in v:
        h, r, unit = v["harness"], v["result"], v["unit"]
        path = os.path.join(REPLAY_DIR, "%s-%s.json" % (prop.id, h.name))
        rec = dict(property=prop.id, engine="kani", harness=h.name, obligation=h.obligation, functions=h.fns, kind=h.kind,
                   bound=h.bound, failed_checks=v["failed"], verifier_output=r.raw[-6000:])
        reproduced = None
        if h.replay == "playback":
            test, out = K.playback_values(scratch.tree, unit.crate, r.full_name or h.name, 1500, features=unit.features, env=unit.env)
            if test:
                rec["concrete_playback_test"] = test
                rec["inputs"] = _decode_vals(test)
                reproduced, pout = _playback_on_real_code(scratch, unit, h, test)
                rec["replay_on_real_code"] = dict(reproduced=reproduced, output=pout,
                                                  how="Kani's generated unit test run with `cargo kani playback`: the harness body calls the real, un-stubbed functions on the concrete values")
            else:
                rec["playback_output"] = out[-3000:]
        elif h.replay.startswith("custom:"):
            res = run_custom_replay(prop, scratch, h.replay[len("custom:"):].split(","))
            rec["replay_on_real_code"] = res
            reproduced = any(r["reproduced"] for r in res)
        rec["failing_input_found"] = bool(reproduced)
        write_json(path, rec)
        suffix = "" if reproduced else " no-failing-input-found"
        return "VIOLATION property=%s replay=%s obligation=%s%s" % (prop.id, path, h.name, suffix) if False else \
            "VIOLATION property=%s replay=%s%s" % (prop.id, path, suffix)
    vu, res = v["verus"], v["result"]
    path = os.path.join(REPLAY_DIR, "%s-verus-%s.json" % (prop.id, vu.name))
    paired = [hr for hr in harness_reports if hr["harness"] in vu.paired_kani and hr["status"] == "failed"]
    rec = dict(property=prop.id, engine="verus", unit=vu.name, obligation=vu.obligation, functions=vu.fns,
               failed_functions=v["failed"], failures=res["failures"], verifier_output=_strip_json(res["raw"])[-6000:],
               paired_kani_failures=[p["harness"] for p in paired], failing_input_found=False,
               note="Verus gives no counterexample; the paired Kani harnesses (bounded twins of the same functions) %s" %
                    ("failed too: see their replay files" if paired else "did not fail"))
    tests = ["replay_" + f["function"].rsplit("::", 1)[-1] for f in v["failed"]]
    res = run_custom_replay(prop, scratch, tests)
    rec["replay_on_real_code"] = res
    reproduced = any(r["reproduced"] for r in res)
    rec["failing_input_found"] = bool(reproduced) or bool(paired)
    # A Verus failure carries no counterexample. If EVERY failed function has a replay test (real instances asserting the
    # clause the obligation stands for) and all of them pass on the changed code, and no paired Kani harness failed, the
    # failure is most likely a proof that no longer goes through (a construct without a library specification, a reshaped
    # loop) rather than a violation: reported as undecided, not as an alarm.
    have = {r["test"] for r in res if r["reproduced"] is not None}
    # (b) the unit's paired Kani harnesses are COMPLETE proofs (kind full / contract / unwind) of the same functions on the
    #     real code and all of them passed in this run: the Verus failure is a proof-engineering failure, not a violation
    twins = [hr for hr in harness_reports if hr["harness"] in vu.paired_kani]
    if (vu.twins_equivalent and not reproduced and twins and len(twins) == len(vu.paired_kani)
            and all(t["status"] == "success" and t["kind"] in ("full", "contract", "unwind") for t in twins)):
        rec["downgraded"] = "the complete Kani twins %s of the failed functions passed on the real code: undecided, not a violation" % [t["harness"] for t in twins]
        write_json(path, rec)
        return "UNDECIDED-NOT-A-VIOLATION property=%s unit=%s failed functions %s: their complete Kani twins pass on the real code (replay=%s)" % (
            prop.id, vu.name, [f["function"].rsplit("::", 1)[-1] for f in v["failed"]], path)
    if getattr(vu, "advisory", False) and not reproduced and not paired:
        rec["downgraded"] = "advisory unit (its intermediate specification mirrors the code more closely than the property demands) and no replay scenario reproduces a violation on the real code: undecided, not a violation"
        write_json(path, rec)
        return "UNDECIDED-NOT-A-VIOLATION property=%s unit=%s (advisory) failed functions %s: no replay scenario reproduces a violation on the real code (replay=%s)" % (
            prop.id, vu.name, [f["function"].rsplit("::", 1)[-1] for f in v["failed"]], path)
    if not reproduced and not paired and tests and all(t in have for t in tests):
        rec["downgraded"] = "all replay tests of the failed functions pass on the real code and no Kani harness failed: undecided, not a violation"
        write_json(path, rec)
        return "UNDECIDED-NOT-A-VIOLATION property=%s unit=%s failed functions %s: their replay tests pass on the real code (replay=%s)" % (
            prop.id, vu.name, [f["function"].rsplit("::", 1)[-1] for f in v["failed"]], path)
    write_json(path, rec)
    return "VIOLATION property=%s replay=%s%s" % (prop.id, path, "" if reproduced else " no-failing-input-found")


def fallback_on_undecided(prop, scratch, vu, reason):
    """A Verus unit could not be assembled or parsed from the changed text (construct outside the verifier's input language,
    extraction rewrite no longer matching). The verifier then decides nothing. As a BOUNDED stand-in (never counted as
    proved) the replay scenarios written for the unit's functions are run on the real code; a scenario that FAILS is a
    concrete failing input on the real code and is reported as a violation of the unit's obligation. Returns a VIOLATION
    line or None (still undecided)."""
    if not getattr(prop, "replays", None):
        return None
    tmpl = open(os.path.join(VERIF, vu.tmpl)).read()
    fns = []
    for m in re.finditer(r"//@extract[^\n]*\bfn=(\w+)", tmpl):
        if m.group(1) not in fns:
            fns.append(m.group(1))
    tests = ["replay_" + f for f in fns]
    res = run_custom_replay(prop, scratch, tests)
    if not any(r["reproduced"] for r in res):
        return None
    os.makedirs(REPLAY_DIR, exist_ok=True)
    path = os.path.join(REPLAY_DIR, "%s-verus-%s.json" % (prop.id, vu.name))
    rec = dict(property=prop.id, engine="verus", unit=vu.name, obligation=vu.obligation, functions=vu.fns,
               failed_functions=[dict(function=r["test"][len("replay_"):], mode="exec") for r in res if r["reproduced"]],
               failures=[], verifier_output=str(reason)[-4000:], paired_kani_failures=[], failing_input_found=True,
               bounded_stand_in=True,
               note="The verifier could not process the changed text of this unit (see verifier_output), so no obligation was discharged or refuted deductively. "
                    "Bounded stand-in: the replay scenarios of the unit's functions were run on the real code and at least one FAILS - a concrete failing input on the real code.",
               replay_on_real_code=res)
    write_json(path, rec)
    return "VIOLATION property=%s replay=%s" % (prop.id, path)


def _strip_json(raw):
    i = raw.find("{\n")
    return raw[:i] if i > 0 else raw


def replay_file(prop, path):
    """check <Cxx> --replay <file>: re-run what the replay file records against /repo's current working tree: Kani's
    concrete-playback unit test (real functions on the counterexample values) and / or the canned replay tests.
    Exit 1 (and a VIOLATION line) if the failure reproduces, 0 if it does not, 2 if nothing could be run."""
    from common import Scratch, attach
    rec = json.load(open(path))
    log(json.dumps({k: rec[k] for k in rec if k not in ("verifier_output", "concrete_playback_test", "replay_on_real_code", "playback_output")}, indent=1)[:3000])
    reproduced, ran = False, False
    with Scratch(prop.id + "-replay") as scratch:
        if rec.get("engine") == "kani" and rec.get("concrete_playback_test"):
            for unit in prop.kani:
                for h in unit.harnesses:
                    if h.name == rec.get("harness"):
                        atts = [(rel, os.path.join(VERIF, m), n, "kani") for (rel, m, n) in unit.attach]
                        attach(scratch, atts, unit.contracts)
                        ok, out = _playback_on_real_code(scratch, unit, h, rec["concrete_playback_test"])
                        ran = ran or ok is not None
                        reproduced = reproduced or bool(ok)
                        log("concrete playback on the real code: reproduced=%s" % ok)
                        log(out[-1500:])
        tests = []
        rr = rec.get("replay_on_real_code")
        if isinstance(rr, list):
            tests = [r["test"] for r in rr]
        elif rec.get("engine") == "verus":
            tests = ["replay_" + f["function"].rsplit("::", 1)[-1] for f in rec.get("failed_functions", [])]
        if tests:
            for r in run_custom_replay(prop, scratch, tests):
                ran = ran or r["reproduced"] is not None
                reproduced = reproduced or bool(r["reproduced"])
                log("replay test %s on the real code: reproduced=%s %s" % (r["test"], r["reproduced"], r.get("failing_input", "")))
    if reproduced:
        log("VIOLATION property=%s replay=%s" % (prop.id, path))
        return 1
    return 0 if ran else 2

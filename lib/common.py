"""Shared plumbing for the /verif driver: scratch copies of the working tree, attaching contract
modules to the real source files, running subprocesses under a timeout."""
import fcntl
import json
import os
import re
import shutil
import subprocess
import sys
import time

REPO = os.environ.get("VERIF_REPO", "/repo")
VERIF = os.path.dirname(os.path.dirname(os.path.abspath(__file__)))
SCRATCH_ROOT = os.environ.get("VERIF_SCRATCH", "/var/tmp/mithril-verif")
CACHE = os.path.join(VERIF, ".cache")
KANI_TARGET = os.environ.get("VERIF_KANI_TARGET", os.path.join(CACHE, "kani-target"))
EVIDENCE = os.environ.get("VERIF_EVIDENCE", os.path.join(VERIF, "evidence"))

EXIT_OK, EXIT_VIOLATION, EXIT_UNDECIDED = 0, 1, 2


class Undecided(Exception):
    """Tool limit, lost anchor, timeout, build error: exit 2, never an alarm."""


def log(msg):
    print(msg, flush=True)


def _kill_fat_children(sid, limit_kb, name="cbmc"):
    """kill every process named `name` of session `sid` whose resident set exceeds the limit (cbmc blow-ups must not take
    the machine down; a killed cbmc is reported by Kani as a failed run of that harness = resource limit)"""
    killed = 0
    for pid in os.listdir("/proc"):
        if not pid.isdigit():
            continue
        try:
            with open("/proc/%s/stat" % pid) as f:
                st = f.read()
            comm = st[st.index("(") + 1:st.rindex(")")]
            fields = st[st.rindex(")") + 2:].split()
            if comm != name or int(fields[3]) != sid:     # fields[3] = session id
                continue
            rss_kb = int(fields[21]) * (os.sysconf("SC_PAGE_SIZE") // 1024)   # fields[21] = rss in pages
            if rss_kb > limit_kb:
                os.kill(int(pid), 9)
                killed += 1
        except (OSError, ValueError, IndexError):
            continue
    return killed


def run(cmd, cwd=None, timeout=None, env=None, stdin=None, mem_gb=None):
    """Run a command, return (rc, combined output, seconds). rc None on timeout. mem_gb: resident-set limit per `cbmc`
    child (watchdog; an address-space rlimit would also hit the Kani driver itself)."""
    import threading
    t0 = time.time()
    e = dict(os.environ)
    e["CARGO_NET_OFFLINE"] = "true"
    if env:
        e.update(env)
    p = subprocess.Popen(cmd, cwd=cwd, env=e, stdout=subprocess.PIPE, stderr=subprocess.STDOUT,
                         stdin=subprocess.DEVNULL if stdin is None else subprocess.PIPE,
                         start_new_session=True, text=True, errors="replace")
    stop = threading.Event()
    if mem_gb:
        def watchdog():
            while not stop.wait(4):
                _kill_fat_children(p.pid, mem_gb * 1024 * 1024)
        threading.Thread(target=watchdog, daemon=True).start()
    try:
        out, _ = p.communicate(input=stdin, timeout=timeout)
        return p.returncode, out, time.time() - t0
    except subprocess.TimeoutExpired:
        try:
            os.killpg(p.pid, 9)
        except ProcessLookupError:
            pass
        out, _ = p.communicate()
        return None, out, time.time() - t0
    finally:
        stop.set()


class Scratch:
    """A copy of /repo's current working tree outside /repo and /verif. One fixed path per
    property, so cargo fingerprints stay valid between runs of the same check; protected by a
    lock file so two runs of the same property do not trample each other."""

    def __init__(self, prop):
        self.prop = prop
        self.root = os.path.join(SCRATCH_ROOT, prop)
        self.tree = os.path.join(self.root, "tree")
        self._lock = None

    def __enter__(self):
        os.makedirs(self.root, exist_ok=True)
        self._lock = open(os.path.join(self.root, ".lock"), "w")
        fcntl.flock(self._lock, fcntl.LOCK_EX)
        os.makedirs(self.tree, exist_ok=True)
        # -c: compare by checksum, so files that did not change keep their mtime in the scratch copy and
        # cargo does not rebuild the world; --delete: files removed from /repo disappear here too.
        rc, out, _ = run(["rsync", "-a", "-c", "--delete", "--exclude", "/target", "--exclude", "/.git",
                          "--exclude", "/docs", "--exclude", "/mithril-explorer", "--exclude", "/mithril-infra",
                          "--exclude", "node_modules", REPO + "/", self.tree + "/"], timeout=300)
        if rc != 0:
            raise Undecided("rsync of the working tree failed: " + out[-400:])
        return self

    def __exit__(self, *a):
        # remove the copy (sources only, 21 MB); build output lives in /verif/.cache
        if os.environ.get("VERIF_KEEP_SCRATCH") != "1":
            shutil.rmtree(self.tree, ignore_errors=True)
        fcntl.flock(self._lock, fcntl.LOCK_UN)
        self._lock.close()

    def path(self, rel):
        return os.path.join(self.tree, rel)


# ---------------------------------------------------------------------------------------------------
# Attaching contracts: a child module appended to the anchored file, contract attributes inserted above
# anchored functions. Anchors are function names (optionally qualified by an `impl` header substring),
# found by scanning the real source text; a missing anchor is Undecided ("lost anchor").
# ---------------------------------------------------------------------------------------------------

def _strip_comments_keep_layout(src):
    """Replace comments and string/char literals by spaces (same length, newlines kept) so that brace
    matching and anchor search are not fooled by text inside them."""
    out = list(src)
    i, n = 0, len(src)
    while i < n:
        c = src[i]
        if src.startswith("//", i):
            j = src.find("\n", i)
            j = n if j < 0 else j
            for k in range(i, j):
                out[k] = " "
            i = j
        elif src.startswith("/*", i):
            depth, j = 1, i + 2
            while j < n and depth:
                if src.startswith("/*", j):
                    depth += 1; j += 2
                elif src.startswith("*/", j):
                    depth -= 1; j += 2
                else:
                    j += 1
            for k in range(i, j):
                if out[k] != "\n":
                    out[k] = " "
            i = j
        elif c == '"' or (c == "r" and re.match(r'r#*"', src[i:i + 8]) and (i == 0 or not (src[i - 1].isalnum() or src[i - 1] == "_"))):
            if c == "r":
                m = re.match(r'r(#*)"', src[i:])
                hashes = m.group(1)
                end = src.find('"' + hashes, i + len(m.group(0)))
                j = n if end < 0 else end + 1 + len(hashes)
            else:
                j = i + 1
                while j < n and src[j] != '"':
                    j += 2 if src[j] == "\\" else 1
                j += 1
            for k in range(i + 1, min(j, n) - 1):
                if out[k] != "\n":
                    out[k] = " "
            i = j
        elif c == "'":
            # char literal or lifetime
            m = re.match(r"'(\\.[^']*|[^'\\])'", src[i:i + 12])
            if m:
                for k in range(i + 1, i + len(m.group(0)) - 1):
                    out[k] = " "
                i += len(m.group(0))
            else:
                i += 1
        else:
            i += 1
    return "".join(out)


def find_fn(src, name, within=None, nth=0):
    """Locate `fn <name>` in src. `within`: substring that must appear in the header of the enclosing
    `impl`/`trait`/`mod` block (e.g. 'impl CardanoTransactionsSigningConfig'). Returns dict with
    start (index of the first attribute/doc line of the item), fn_kw (index of `fn`), body_open, body_close."""
    clean = _strip_comments_keep_layout(src)
    hits = []
    for m in re.finditer(r"\bfn\s+" + re.escape(name) + r"\b", clean):
        if within == "<toplevel>":
            if _enclosing_header(clean, m.start()) is not None:
                continue
        elif within is not None:
            hdr = _enclosing_header(clean, m.start())
            if hdr is None or within not in " ".join(hdr.split()):
                continue
        hits.append(m.start())
    if len(hits) <= nth:
        return None
    fn_kw = hits[nth]
    # body: first '{' at paren depth 0 after fn_kw (skip where clauses / return types); ';' first => no body
    depth = 0
    i = fn_kw
    body_open = None
    while i < len(clean):
        ch = clean[i]
        if ch in "([":
            depth += 1
        elif ch in ")]":
            depth -= 1
        elif ch == "{" and depth == 0:
            body_open = i
            break
        elif ch == ";" and depth == 0:
            break
        i += 1
    body_close = None
    if body_open is not None:
        body_close = match_brace(clean, body_open)
    # start of item: walk back over the line start, then over preceding attribute / doc lines
    line_start = clean.rfind("\n", 0, fn_kw) + 1
    start = line_start
    while True:
        prev_end = start - 1
        if prev_end <= 0:
            break
        prev_start = src.rfind("\n", 0, prev_end) + 1
        line = src[prev_start:prev_end].strip()
        if line.startswith("#[") or line.startswith("///") or line.startswith("//!"):
            start = prev_start
        else:
            break
    return dict(start=start, line_start=line_start, fn_kw=fn_kw, body_open=body_open, body_close=body_close)


def match_brace(clean, open_idx):
    depth = 0
    for i in range(open_idx, len(clean)):
        if clean[i] == "{":
            depth += 1
        elif clean[i] == "}":
            depth -= 1
            if depth == 0:
                return i
    return None


def _enclosing_header(clean, pos):
    """Header text (from previous ';' or '}' or '{' to the '{') of the innermost block enclosing pos
    that is an impl/trait/mod."""
    depth = 0
    i = pos
    while i > 0:
        i -= 1
        ch = clean[i]
        if ch == "}":
            depth += 1
        elif ch == "{":
            if depth == 0:
                # header of this block
                j = i
                k = j - 1
                while k > 0 and clean[k] not in ";{}":
                    k -= 1
                hdr = clean[k + 1:j]
                if re.search(r"\b(impl|trait|mod)\b", hdr):
                    return hdr
                # a fn body or other block: keep going outwards
            else:
                depth -= 1
    return None


def attach(scratch, attachments, contracts=()):
    """attachments: list of (rel source file, abs module file, module name, cfg) ; contracts: list of
    dict(file=rel, fn=name, within=..., attrs=[lines]). Edits the scratch copy only."""
    edits = {}
    for c in contracts:
        p = scratch.path(c["file"])
        if not os.path.exists(p):
            raise Undecided("lost anchor: file %s" % c["file"])
        src = edits.get(p) or open(p).read()
        loc = find_fn(src, c["fn"], c.get("within"))
        if loc is None:
            raise Undecided("lost anchor: fn %s (%s) in %s" % (c["fn"], c.get("within"), c["file"]))
        indent = re.match(r"\s*", src[loc["line_start"]:]).group(0).replace("\n", "")
        ins = "".join(indent + a + "\n" for a in c["attrs"])
        src = src[:loc["line_start"]] + ins + src[loc["line_start"]:]
        edits[p] = src
    for rel, modfile, modname, cfg in attachments:
        p = scratch.path(rel)
        if not os.path.exists(p):
            raise Undecided("lost anchor: file %s" % rel)
        if not os.path.exists(modfile):
            raise Undecided("missing contract module %s" % modfile)
        src = edits.get(p) or open(p).read()
        src += "\n#[cfg(%s)]\n#[path = \"%s\"]\npub(crate) mod %s;\n" % (cfg, modfile, modname)
        edits[p] = src
    for p, src in edits.items():
        with open(p, "w") as f:
            f.write(src)


def require_anchor(scratch, rel, fn, within=None, nth=0):
    p = scratch.path(rel)
    if not os.path.exists(p):
        raise Undecided("lost anchor: file %s" % rel)
    loc = find_fn(open(p).read(), fn, within, nth)
    if loc is None:
        raise Undecided("lost anchor: fn %s (%s) in %s" % (fn, within, rel))
    return loc


def fn_text(scratch, rel, fn, within=None, nth=0):
    """Text of a function (signature + body) copied out of the scratch copy of the working tree (nth: the n-th function of
    that name inside `within`, e.g. the second of two cfg-alternatives)."""
    p = scratch.path(rel)
    src = open(p).read()
    loc = require_anchor(scratch, rel, fn, within, nth)
    if loc["body_close"] is None:
        raise Undecided("fn %s in %s has no body" % (fn, rel))
    line = src.count("\n", 0, loc["fn_kw"]) + 1
    return src[loc["line_start"]:loc["body_close"] + 1], line


def write_json(path, obj):
    os.makedirs(os.path.dirname(path), exist_ok=True)
    tmp = path + ".tmp"
    with open(tmp, "w") as f:
        json.dump(obj, f, indent=1, sort_keys=False)
        f.write("\n")
    os.replace(tmp, path)

#!/bin/bash
# tools_try_mutant.sh <worktree> <patch.diff> <Cxx> [extra check args]  — run a check against a patched worktree of /repo
# (never /repo itself); evidence goes to a throw-away directory. Prints the check's last lines and exit code.
WT=$1; PATCH=$2; PROP=$3; shift 3
git -C "$WT" checkout -q -- . && git -C "$WT" apply "$PATCH" || { echo "patch does not apply"; exit 3; }
OUT=/var/tmp/mithril-verif-mut/$(basename $(dirname "$PATCH"))
mkdir -p "$OUT"
VERIF_REPO="$WT" VERIF_SCRATCH="$OUT/scratch" VERIF_EVIDENCE="$OUT/evidence" VERIF_KANI_TARGET=/var/tmp/mithril-verif-mut/kani-target /verif/check "$PROP" "$@" > "$OUT/check.log" 2>&1
RC=$?
git -C "$WT" checkout -q -- .
echo "== $(basename $(dirname "$PATCH")) $PROP exit=$RC"; grep -E "VIOLATION|KNOWN-FINDING|UNDECIDED|OK:" "$OUT/check.log" | cut -c1-300
exit $RC

#!/bin/bash
# Run once after a fresh restore (offline): warms the Kani build cache for the crates the checks verify and
# Verus' first-run cache. Nothing is downloaded. Safe to re-run.
set -u
cd "$(dirname "$0")"
VERIF="$(pwd)"
export CARGO_NET_OFFLINE=true
mkdir -p .cache/kani-target evidence
S=/var/tmp/mithril-verif/setup/tree
mkdir -p "$S"
rsync -a -c --delete --exclude /target --exclude /.git --exclude /docs --exclude /mithril-explorer --exclude /mithril-infra /repo/ "$S/"
for crate in mithril-stm mithril-common mithril-resource-pool; do
  ( cd "$S" && timeout 1500 cargo kani -p $crate --target-dir "$VERIF/.cache/kani-target" --only-codegen >/dev/null 2>&1 ) || true
done
rm -rf /var/tmp/mithril-verif/setup
cat > .cache/warm.rs <<'EOT'
use vstd::prelude::*;
verus! { proof fn warm() ensures 1 + 1 == 2int {} }
fn main() {}
EOT
( cd .cache && timeout 300 verus warm.rs >/dev/null 2>&1 ) || true
echo "setup done"

// C20 (clause "an aggregator that derived its signer set from the same registrations under the protocol's epoch offsets") and
// C06 (the aggregator's computation path of the aggregate key) — Verus on the working tree's text of the aggregator's
// MithrilEpochService::{inform_epoch, update_next_signers_with_stake, precompute_epoch_data, get_signers_with_stake_at_epoch,
// unwrap_data} (mithril-aggregator/src/services/epoch_service.rs).
//   inform_epoch(e) Ok ==> the signer set in force is the one the verification-key store holds for
//   e.offset_to_signer_retrieval_epoch() (= e - 1), the next one is the store's for e.offset_to_next_signer_retrieval_epoch()
//   (= e), and the registration settings are saved under e.offset_to_recording_epoch() (= e + 1);
//   precompute_epoch_data Ok ==> both aggregate keys / multi-signers are SignerBuilder's results for exactly
//   (current signers, parameters for aggregation) and (next signers, parameters for next aggregation).
// The Epoch offset functions are callee contracts here; they are proved on the real code by this property's Kani unit.
use vstd::prelude::*;
verus! {

pub type Stake = u64;
#[derive(Clone, Copy)] pub struct Epoch(pub u64);
pub struct StdError {}
#[verifier::external_body] pub struct CardanoEra { _p: core::marker::PhantomData<u8> }
#[verifier::external_body] #[derive(Clone, Copy)] pub struct SupportedEra { _p: core::marker::PhantomData<u8> }
#[verifier::external_body] pub struct SignerWithStake { _p: core::marker::PhantomData<u8> }
#[verifier::external_body] pub struct Signer { _p: core::marker::PhantomData<u8> }
#[verifier::external_body] pub struct ProtocolParameters { _p: core::marker::PhantomData<u8> }
#[verifier::external_body] pub struct TxConfig { _p: core::marker::PhantomData<u8> }      // Option<CardanoTransactionsSigningConfig>
#[verifier::external_body] pub struct BlkConfig { _p: core::marker::PhantomData<u8> }     // Option<CardanoBlocksTransactionsSigningConfig>
#[verifier::external_body] pub struct DiscriminantSet { _p: core::marker::PhantomData<u8> } // BTreeSet<SignedEntityTypeDiscriminants>
#[verifier::external_body] pub struct ProtocolAggregateVerificationKey { _p: core::marker::PhantomData<u8> }
#[verifier::external_body] pub struct ProtocolMultiSigner { _p: core::marker::PhantomData<u8> }
#[verifier::external_body] pub struct SignerBuilder { _p: core::marker::PhantomData<u8> }
pub type TotalSPOs = u32;

impl Clone for ProtocolParameters { #[verifier::external_body] fn clone(&self) -> (r: Self) ensures r == *self { unimplemented!() } }
impl Clone for TxConfig { #[verifier::external_body] fn clone(&self) -> (r: Self) ensures r == *self { unimplemented!() } }
impl Clone for BlkConfig { #[verifier::external_body] fn clone(&self) -> (r: Self) ensures r == *self { unimplemented!() } }

pub struct SignedEntityTypesConfig { pub cardano_transactions: TxConfig, pub cardano_blocks_transactions: BlkConfig }
pub struct MithrilNetworkConfigurationForEpoch {
    pub protocol_parameters: ProtocolParameters,
    pub enabled_signed_entity_types: DiscriminantSet,
    pub signed_entity_types_config: SignedEntityTypesConfig,
}
pub struct MithrilNetworkConfiguration {
    pub epoch: Epoch,
    pub configuration_for_aggregation: MithrilNetworkConfigurationForEpoch,
    pub configuration_for_next_aggregation: MithrilNetworkConfigurationForEpoch,
    pub configuration_for_registration: MithrilNetworkConfigurationForEpoch,
}
pub struct AggregatorEpochSettings {
    pub protocol_parameters: ProtocolParameters,
    pub cardano_transactions_signing_config: TxConfig,
    pub cardano_blocks_transactions_signing_config: BlkConfig,
}
pub struct SignedEntityConfig {
    pub allowed_discriminants: DiscriminantSet,
    pub cardano_transactions_signing_config: TxConfig,
    pub cardano_blocks_transactions_signing_config: BlkConfig,
}

// ---- Epoch offsets: the contracts proved on the real functions by the Kani unit of this property (c20_epoch.rs) ----
impl Epoch {
    #[verifier::external_body]
    pub fn offset_to_signer_retrieval_epoch(&self) -> (r: Result<Epoch, StdError>)
        ensures (r is Ok) == (self.0 >= 1), r is Ok ==> r->Ok_0.0 == self.0 - 1
    { unimplemented!() }
    #[verifier::external_body]
    pub fn offset_to_next_signer_retrieval_epoch(&self) -> (r: Epoch) ensures r.0 == self.0 { unimplemented!() }
    #[verifier::external_body]
    pub fn offset_to_recording_epoch(&self) -> (r: Epoch) requires self.0 < u64::MAX, ensures r.0 == self.0 + 1 { unimplemented!() }
}

// ---- stores and providers (async trait objects): contracts over uninterpreted functions of the store's content ----
#[verifier::external_body] pub struct VerificationKeyStore { _p: core::marker::PhantomData<u8> }
#[verifier::external_body] pub struct EpochSettingsStorer { _p: core::marker::PhantomData<u8> }
#[verifier::external_body] pub struct NetworkConfigurationProvider { _p: core::marker::PhantomData<u8> }
#[verifier::external_body] pub struct EraChecker { _p: core::marker::PhantomData<u8> }
/// the signers recorded in the verification-key store under this epoch (None: nothing recorded)
pub uninterp spec fn recorded_signers(s: &VerificationKeyStore, e: Epoch) -> Option<Seq<SignerWithStake>>;
pub uninterp spec fn configuration_at(p: &NetworkConfigurationProvider, e: Epoch) -> MithrilNetworkConfiguration;
/// save_epoch_settings(epoch, settings) was called on the storer with these arguments
pub uninterp spec fn settings_saved(s: &EpochSettingsStorer, e: Epoch, settings: AggregatorEpochSettings) -> bool;

impl VerificationKeyStore {
    #[verifier::external_body]
    pub fn get_signers(&self, e: Epoch) -> (r: Result<Option<Vec<SignerWithStake>>, StdError>)
        ensures r is Ok ==> (r->Ok_0 is Some) == (recorded_signers(self, e) is Some),
                r is Ok && r->Ok_0 is Some ==> r->Ok_0->Some_0@ == recorded_signers(self, e)->Some_0
    { unimplemented!() }
}
impl NetworkConfigurationProvider {
    #[verifier::external_body]
    pub fn get_network_configuration(&self, e: Epoch) -> (r: Result<MithrilNetworkConfiguration, StdError>)
        ensures r is Ok ==> r->Ok_0 == configuration_at(self, e)
    { unimplemented!() }
}
impl EraChecker { #[verifier::external_body] pub fn current_era(&self) -> SupportedEra { unimplemented!() } }

/// what the store holds for an epoch, with "nothing recorded" read as the empty list (`.unwrap_or_default()`)
pub open spec fn signers_in_force(s: &VerificationKeyStore, e: Epoch) -> Seq<SignerWithStake> {
    if recorded_signers(s, e) is Some { recorded_signers(s, e)->Some_0 } else { Seq::empty() }
}

// ---- helper contracts for iterator expressions the extraction replaces (listed in the evidence) ----
/// `Signer::vec_from(x.clone())`
#[verifier::external_body] fn signers_of(x: &Vec<SignerWithStake>) -> Vec<Signer> { unimplemented!() }
/// `x.iter().map(|s| s.stake).sum()`
#[verifier::external_body] fn total_stake_of(x: &Vec<SignerWithStake>) -> Stake { unimplemented!() }
/// `self.allowed_signed_entity_discriminants.intersection(&enabled).cloned().collect()`
#[verifier::external_body] fn intersect_discriminants(a: &DiscriminantSet, b: &DiscriminantSet) -> DiscriminantSet { unimplemented!() }

// ---- SignerBuilder (mithril-common; its own contract: C06 unit signer_builder) ----
pub uninterp spec fn built_from(b: &SignerBuilder) -> (Seq<SignerWithStake>, ProtocolParameters);
pub uninterp spec fn multi_signer_source(m: &ProtocolMultiSigner) -> (Seq<SignerWithStake>, ProtocolParameters);
pub uninterp spec fn avk_of(src: (Seq<SignerWithStake>, ProtocolParameters)) -> ProtocolAggregateVerificationKey;
impl SignerBuilder {
    #[verifier::external_body]
    pub fn new(signers: &Vec<SignerWithStake>, p: &ProtocolParameters) -> (r: Result<SignerBuilder, StdError>)
        ensures r is Ok ==> built_from(&r->Ok_0) == (signers@, *p)
    { unimplemented!() }
    #[verifier::external_body]
    pub fn build_multi_signer(&self) -> (r: ProtocolMultiSigner) ensures multi_signer_source(&r) == built_from(self) { unimplemented!() }
}
impl ProtocolMultiSigner {
    #[verifier::external_body]
    pub fn compute_aggregate_verification_key(&self) -> (r: ProtocolAggregateVerificationKey) ensures r == avk_of(multi_signer_source(self)) { unimplemented!() }
}

pub struct EpochData {
    pub cardano_era: CardanoEra,
    pub mithril_era: SupportedEra,
    pub epoch: Epoch,
    pub network_configuration: MithrilNetworkConfiguration,
    pub current_signers_with_stake: Vec<SignerWithStake>,
    pub next_signers_with_stake: Vec<SignerWithStake>,
    pub current_signers: Vec<Signer>,
    pub next_signers: Vec<Signer>,
    pub total_stakes_signers: Stake,
    pub total_next_stakes_signers: Stake,
    pub signed_entity_config: SignedEntityConfig,
    pub total_spo: Option<TotalSPOs>,
    pub total_stake: Option<Stake>,
}
pub struct ComputedEpochData {
    pub aggregate_verification_key: ProtocolAggregateVerificationKey,
    pub next_aggregate_verification_key: ProtocolAggregateVerificationKey,
    pub protocol_multi_signer: ProtocolMultiSigner,
    pub next_protocol_multi_signer: ProtocolMultiSigner,
}
pub enum EpochServiceError { NotYetInitialized }

pub struct MithrilEpochService {
    pub epoch_data: Option<EpochData>,
    pub computed_epoch_data: Option<ComputedEpochData>,
    pub mithril_network_configuration_provider: NetworkConfigurationProvider,
    pub epoch_settings_storer: EpochSettingsStorer,
    pub verification_key_store: VerificationKeyStore,
    pub era_checker: EraChecker,
    pub allowed_signed_entity_discriminants: DiscriminantSet,
}

impl MithrilEpochService {
    #[verifier::external_body]
    fn get_cardano_era(&self) -> Result<CardanoEra, StdError> { unimplemented!() }
    #[verifier::external_body]
    fn get_total_spo_and_total_stake(&self, epoch: Epoch) -> Result<(Option<TotalSPOs>, Option<Stake>), StdError> { unimplemented!() }
    /// `self.epoch_settings_storer.save_epoch_settings(recording_epoch, epoch_settings.clone()).await.map(|_| ())`
    #[verifier::external_body]
    fn insert_epoch_settings(&self, recording_epoch: Epoch, epoch_settings: &AggregatorEpochSettings) -> (r: Result<(), StdError>)
        ensures r is Ok ==> settings_saved(&self.epoch_settings_storer, recording_epoch, *epoch_settings)
    { unimplemented!() }
    #[verifier::external_body]
    fn unwrap_data_std(&self) -> (ret: Result<&EpochData, StdError>)
        ensures ret is Ok ==> self.epoch_data is Some && *ret->Ok_0 == self.epoch_data->Some_0
    { unimplemented!() }

// ---- extracted from mithril-aggregator/src/services/epoch_service.rs:277 (fn unwrap_data) ----
fn unwrap_data(&self) -> (ret: Result<&EpochData, EpochServiceError>)
    ensures ret is Ok ==> self.epoch_data is Some && *ret->Ok_0 == self.epoch_data->Some_0
{
        self.epoch_data.as_ref().ok_or(EpochServiceError::NotYetInitialized)
    }
// ---- end of extracted text ----

// ---- extracted from mithril-aggregator/src/services/epoch_service.rs:249 (fn get_signers_with_stake_at_epoch) ----
fn get_signers_with_stake_at_epoch(
        &self,
        signer_retrieval_epoch: Epoch,
    ) -> (ret: Result<Vec<SignerWithStake>, StdError>)
    ensures ret is Ok ==> ret->Ok_0@ == signers_in_force(&self.verification_key_store, signer_retrieval_epoch)
{
        let signers = self
            .verification_key_store
            .get_signers(signer_retrieval_epoch)
            ?
            .unwrap_or(Vec::new());

        Ok(signers)
    }
// ---- end of extracted text ----

// ---- extracted from mithril-aggregator/src/services/epoch_service.rs:292 (fn inform_epoch) ----
fn inform_epoch(&mut self, epoch: Epoch) -> (ret: Result<(), StdError>)
    requires epoch.0 < u64::MAX
    ensures ret is Ok ==> ({
        let d = final(self).epoch_data;
        &&& epoch.0 >= 1 && d is Some && d->Some_0.epoch == epoch
        // signer set in force: recorded under the signer-retrieval epoch (e - 1); next signer set: recorded under e
        &&& d->Some_0.current_signers_with_stake@ == signers_in_force(&old(self).verification_key_store, Epoch((epoch.0 - 1) as u64))
        &&& d->Some_0.next_signers_with_stake@ == signers_in_force(&old(self).verification_key_store, epoch)
        // the configuration is the provider's for this epoch; the registration settings are saved under the recording epoch (e + 1)
        &&& d->Some_0.network_configuration == configuration_at(&old(self).mithril_network_configuration_provider, epoch)
        &&& settings_saved(&old(self).epoch_settings_storer, Epoch((epoch.0 + 1) as u64), AggregatorEpochSettings {
                protocol_parameters: d->Some_0.network_configuration.configuration_for_registration.protocol_parameters,
                cardano_transactions_signing_config: d->Some_0.network_configuration.configuration_for_registration.signed_entity_types_config.cardano_transactions,
                cardano_blocks_transactions_signing_config: d->Some_0.network_configuration.configuration_for_registration.signed_entity_types_config.cardano_blocks_transactions })
        // keys computed for the previous epoch are dropped
        &&& final(self).computed_epoch_data is None
    }),
{
        

        let cardano_era = self.get_cardano_era()?;

        let mithril_era = self.era_checker.current_era();

        let signer_retrieval_epoch =
            epoch.offset_to_signer_retrieval_epoch()?;
        let next_signer_retrieval_epoch = epoch.offset_to_next_signer_retrieval_epoch();
        let signer_registration_epoch = epoch.offset_to_recording_epoch();

        let network_configuration = self
            .mithril_network_configuration_provider
            .get_network_configuration(epoch)
            ?;

        let signer_registration_epoch_settings = AggregatorEpochSettings {
            protocol_parameters: network_configuration
                .configuration_for_registration
                .protocol_parameters
                .clone(),
            cardano_transactions_signing_config: network_configuration
                .configuration_for_registration
                .signed_entity_types_config
                .cardano_transactions
                .clone(),
            cardano_blocks_transactions_signing_config: network_configuration
                .configuration_for_registration
                .signed_entity_types_config
                .cardano_blocks_transactions
                .clone(),
        };
        self.insert_epoch_settings(
            signer_registration_epoch,
            &signer_registration_epoch_settings,
        )
        ?;

        let current_signers_with_stake =
            self.get_signers_with_stake_at_epoch(signer_retrieval_epoch)?;
        let next_signers_with_stake = self
            .get_signers_with_stake_at_epoch(next_signer_retrieval_epoch)
            ?;
        let current_signers = signers_of(&current_signers_with_stake);
        let next_signers = signers_of(&next_signers_with_stake);
        let total_stakes_signers = total_stake_of(&current_signers_with_stake);
        let total_next_stakes_signers = total_stake_of(&next_signers_with_stake);

        let signed_entity_config = SignedEntityConfig {
            allowed_discriminants: intersect_discriminants(&self.allowed_signed_entity_discriminants, &network_configuration
                        .configuration_for_aggregation
                        .enabled_signed_entity_types),
            cardano_transactions_signing_config: network_configuration
                .configuration_for_aggregation
                .signed_entity_types_config
                .cardano_transactions
                .clone(),
            cardano_blocks_transactions_signing_config: network_configuration
                .configuration_for_aggregation
                .signed_entity_types_config
                .cardano_blocks_transactions
                .clone(),
        };

        let (total_spo, total_stake) =
            self.get_total_spo_and_total_stake(signer_retrieval_epoch)?;

        self.epoch_data = Some(EpochData {
            cardano_era,
            mithril_era,
            epoch,
            network_configuration,
            current_signers_with_stake,
            next_signers_with_stake,
            current_signers,
            next_signers,
            total_stakes_signers,
            total_next_stakes_signers,
            signed_entity_config,
            total_spo,
            total_stake,
        });
        self.computed_epoch_data = None;

        Ok(())
    }
// ---- end of extracted text ----

// ---- extracted from mithril-aggregator/src/services/epoch_service.rs:388 (fn update_next_signers_with_stake) ----
fn update_next_signers_with_stake(&mut self) -> (ret: Result<(), StdError>)
    ensures ret is Ok ==> old(self).epoch_data is Some && final(self).epoch_data is Some
        && final(self).epoch_data->Some_0.next_signers_with_stake@ == signers_in_force(&old(self).verification_key_store, old(self).epoch_data->Some_0.epoch)
        && final(self).epoch_data->Some_0.current_signers_with_stake == old(self).epoch_data->Some_0.current_signers_with_stake
        && final(self).epoch_data->Some_0.epoch == old(self).epoch_data->Some_0.epoch
        && computed_for(final(self).computed_epoch_data, final(self).epoch_data->Some_0)
{
        

        let data = self.unwrap_data_std()?;

        let next_signer_retrieval_epoch = data.epoch.offset_to_next_signer_retrieval_epoch();
        let next_signers_with_stake = self
            .get_signers_with_stake_at_epoch(next_signer_retrieval_epoch)
            ?;

        self.set_next_signers_with_stake(next_signers_with_stake);

        self.precompute_epoch_data()?;

        Ok(())
    }
// ---- end of extracted text ----

    /// `self.epoch_data.as_mut().unwrap().next_signers_with_stake = v` (Option::as_mut + field assignment through it)
    #[verifier::external_body]
    fn set_next_signers_with_stake(&mut self, v: Vec<SignerWithStake>)
        requires old(self).epoch_data is Some
        ensures final(self).epoch_data is Some, final(self).epoch_data->Some_0.next_signers_with_stake == v,
                final(self).epoch_data->Some_0.current_signers_with_stake == old(self).epoch_data->Some_0.current_signers_with_stake,
                final(self).epoch_data->Some_0.epoch == old(self).epoch_data->Some_0.epoch,
                final(self).epoch_data->Some_0.network_configuration == old(self).epoch_data->Some_0.network_configuration,
                final(self).computed_epoch_data == old(self).computed_epoch_data,
                final(self).verification_key_store == old(self).verification_key_store,
    { unimplemented!() }

// ---- extracted from mithril-aggregator/src/services/epoch_service.rs:409 (fn precompute_epoch_data) ----
fn precompute_epoch_data(&mut self) -> (ret: Result<(), StdError>)
    ensures ret is Ok ==> old(self).epoch_data is Some && final(self).epoch_data == old(self).epoch_data
        && computed_for(final(self).computed_epoch_data, old(self).epoch_data->Some_0)
{
        

        let data = self.unwrap_data_std()?;

        let protocol_multi_signer = SignerBuilder::new(
            &data.current_signers_with_stake,
            &data
                .network_configuration
                .configuration_for_aggregation
                .protocol_parameters,
        )
        ?
        .build_multi_signer();

        let next_protocol_multi_signer = SignerBuilder::new(
            &data.next_signers_with_stake,
            &data
                .network_configuration
                .configuration_for_next_aggregation
                .protocol_parameters,
        )
        ?
        .build_multi_signer();

        self.computed_epoch_data = Some(ComputedEpochData {
            aggregate_verification_key: protocol_multi_signer.compute_aggregate_verification_key(),
            next_aggregate_verification_key: next_protocol_multi_signer
                .compute_aggregate_verification_key(),
            protocol_multi_signer,
            next_protocol_multi_signer,
        });

        Ok(())
    }
// ---- end of extracted text ----
}

/// both aggregate keys and multi-signers are SignerBuilder's results for exactly (current signers, parameters for aggregation)
/// and (next signers, parameters for next aggregation)
pub open spec fn computed_for(c: Option<ComputedEpochData>, d: EpochData) -> bool {
    let cur = (d.current_signers_with_stake@, d.network_configuration.configuration_for_aggregation.protocol_parameters);
    let next = (d.next_signers_with_stake@, d.network_configuration.configuration_for_next_aggregation.protocol_parameters);
    &&& c is Some
    &&& multi_signer_source(&c->Some_0.protocol_multi_signer) == cur
    &&& multi_signer_source(&c->Some_0.next_protocol_multi_signer) == next
    &&& c->Some_0.aggregate_verification_key == avk_of(cur)
    &&& c->Some_0.next_aggregate_verification_key == avk_of(next)
}

} // verus!
fn main() {}

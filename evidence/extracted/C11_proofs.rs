// C11 — Verus on the working tree's text of the client-side proof message verification (mithril-common) and of the
// protocol-message reconstruction (mithril-client MessageBuilder). Merkle-map proof verification / membership
// (ckb-merkle-mountain-range behind MKMapProof), hex/JSON decoding and Display are callee contracts.
use vstd::prelude::*;
use vstd::std_specs::cmp::PartialEqSpec;
verus! {

pub type TransactionHash = String;
#[derive(Clone, Copy, PartialEq, Eq)] pub struct BlockNumber(pub u64);
#[derive(Clone, Copy, PartialEq, Eq)] pub struct BlockNumberOffset(pub u64);
#[verifier::external_body] pub struct ProtocolMkProof { _p: core::marker::PhantomData<u8> }
#[verifier::external_body] pub struct MKTreeNode { _p: core::marker::PhantomData<u8> }
pub struct StdError {}

// ---- callee contracts -------------------------------------------------------------------------------------------
pub uninterp spec fn proof_valid(p: &ProtocolMkProof) -> bool;                  // MKMapProof::verify: sub-proofs + master proof (C09 assumptions)
pub uninterp spec fn proof_contains(p: &ProtocolMkProof, n: MKTreeNode) -> bool;  // MKMapProof::contains
pub uninterp spec fn proof_root(p: &ProtocolMkProof) -> Seq<char>;                // compute_root().to_hex()
pub uninterp spec fn hash_node(h: Seq<char>) -> MKTreeNode;                       // From<String> for MKTreeNode
pub uninterp spec fn decode_proof(s: Seq<char>) -> Option<ProtocolMkProof>;       // ProtocolMkProof::from_json_hex (a partial function of the string)
pub uninterp spec fn u64_str(v: u64) -> Seq<char>;                                // Display of the number newtypes (decimal)

pub assume_specification<T: Clone>[<[T]>::to_vec](s: &[T]) -> (r: Vec<T>);   // only used to decorate error values

/// std semantics of `!=` on Option<String>: structural comparison of the strings
pub open spec fn string_eq_is_view_eq() -> bool {
    <String as PartialEqSpec<String>>::obeys_eq_spec()
    && forall|x: String, y: String| #[trigger] <String as PartialEqSpec<String>>::eq_spec(&x, &y) == (x@ == y@)
}
/// std semantics of String's PartialEq (vstd specifies `==` on String but not the PartialEqSpec used for Option<String>)
#[verifier::external_body]
pub proof fn axiom_string_eq() ensures string_eq_is_view_eq() {}

pub struct RootHex { pub hex: String }
impl RootHex { pub fn to_hex(&self) -> (r: String) ensures r@ == self.hex@ { self.hex.clone() } }

impl ProtocolMkProof {
    #[verifier::external_body]
    pub fn verify(&self) -> (r: Result<(), StdError>) ensures r is Ok ==> proof_valid(self) { unimplemented!() }
    #[verifier::external_body]
    pub fn contains(&self, n: &MKTreeNode) -> (r: Result<(), StdError>) ensures r is Ok ==> proof_contains(self, *n) { unimplemented!() }
    #[verifier::external_body]
    pub fn compute_root(&self) -> (r: RootHex) ensures r.hex@ == proof_root(self) { unimplemented!() }
}
#[verifier::external_body]
fn tx_hash_node(h: &TransactionHash) -> (r: MKTreeNode) ensures r == hash_node(h@) { unimplemented!() }

// ---- legacy format: a list of (transaction hashes, proof) parts ----------------------------------------------------
pub struct CardanoTransactionsSetProof { pub transactions_hashes: Vec<TransactionHash>, pub transactions_proof: ProtocolMkProof }
pub struct CardanoTransactionsSetProofMessagePart { pub transactions_hashes: Vec<TransactionHash>, pub proof: String }

/// every listed hash is a leaf proven by a valid proof
pub open spec fn set_proof_ok(hashes: Seq<TransactionHash>, p: &ProtocolMkProof) -> bool {
    proof_valid(p) && forall|i: int| 0 <= i < hashes.len() ==> proof_contains(p, hash_node(#[trigger] hashes[i]@))
}

impl CardanoTransactionsSetProof {
// ---- extracted from mithril-common/src/entities/cardano_transactions_set_proof.rs:40 (fn verify) ----
fn verify(&self) -> (ret: Result<(), StdError>)
    ensures ret is Ok ==> set_proof_ok(self.transactions_hashes@, &self.transactions_proof)
{
        self.transactions_proof.verify()?;
        for hash in it: self.transactions_hashes.iter() 
        invariant proof_valid(&self.transactions_proof), forall|i: int| 0 <= i < it.index@ ==> proof_contains(&self.transactions_proof, hash_node(#[trigger] self.transactions_hashes@[i]@)),
    {
            self.transactions_proof.contains(&tx_hash_node(hash))?;
        }

        Ok(())
    }
// ---- end of extracted text ----

// ---- extracted from mithril-common/src/entities/cardano_transactions_set_proof.rs:30 (fn merkle_root) ----
fn merkle_root(&self) -> (ret: String)
    ensures ret@ == proof_root(&self.transactions_proof)
{
        self.transactions_proof.compute_root().to_hex()
    }
// ---- end of extracted text ----

// ---- extracted from mithril-common/src/entities/cardano_transactions_set_proof.rs:35 (fn transactions_hashes) ----
fn transactions_hashes(&self) -> (ret: &[TransactionHash])
    ensures ret@ == self.transactions_hashes@
{
        &self.transactions_hashes
    }
// ---- end of extracted text ----
}

impl CardanoTransactionsSetProofMessagePart {
    /// contract of `TryFrom<CardanoTransactionsSetProofMessagePart> for CardanoTransactionsSetProof` (hex/JSON decoding):
    /// the hashes are carried over unchanged, the proof is the decoding of the proof string
    #[verifier::external_body]
    pub fn try_into(self) -> (r: Result<CardanoTransactionsSetProof, StdError>)
        ensures r is Ok ==> r->Ok_0.transactions_hashes@ == self.transactions_hashes@ && decode_proof(self.proof@) == Some(r->Ok_0.transactions_proof)
    { unimplemented!() }
}
impl Clone for CardanoTransactionsSetProofMessagePart {
    #[verifier::external_body]
    fn clone(&self) -> (r: Self) ensures r == *self { unimplemented!() }
}

pub enum VerifyCardanoTransactionsProofsError {
    InvalidSetProof { transactions_hashes: Vec<TransactionHash>, source: StdError },
    NoCertifiedTransaction,
    NonMatchingMerkleRoot,
    MalformedData(StdError),
}

pub struct VerifiedCardanoTransactions {
    pub certificate_hash: String,
    pub merkle_root: String,
    pub certified_transactions: Vec<TransactionHash>,
    pub latest_block_number: BlockNumber,
}

pub struct CardanoTransactionsProofsMessage {
    pub certificate_hash: String,
    pub certified_transactions: Vec<CardanoTransactionsSetProofMessagePart>,
    pub non_certified_transactions: Vec<TransactionHash>,
    pub latest_block_number: BlockNumber,
}

/// all transaction hashes of the first j parts, in order
pub open spec fn flat_hashes(parts: Seq<CardanoTransactionsSetProofMessagePart>, j: int) -> Seq<TransactionHash>
    decreases j
{
    if j <= 0 { Seq::empty() } else { flat_hashes(parts, j - 1) + parts[j - 1].transactions_hashes@ }
}

/// part j is a set of leaves proven (by the decoding of its own proof string) under the root `root`
pub open spec fn part_ok(part: &CardanoTransactionsSetProofMessagePart, root: Seq<char>) -> bool {
    decode_proof(part.proof@) is Some
    && set_proof_ok(part.transactions_hashes@, &decode_proof(part.proof@)->Some_0)
    && proof_root(&decode_proof(part.proof@)->Some_0) == root
}

/// contract of `self.certified_transactions.iter().flat_map(|c| c.transactions_hashes.clone()).collect()`
#[verifier::external_body]
fn collect_hashes(parts: &Vec<CardanoTransactionsSetProofMessagePart>) -> (r: Vec<TransactionHash>)
    ensures r@ == flat_hashes(parts@, parts@.len() as int)
{ unimplemented!() }

impl CardanoTransactionsProofsMessage {
// ---- extracted from mithril-common/src/messages/cardano_transactions_proof.rs:154 (fn verify) ----
fn verify(
        &self,
    ) -> (ret: Result<VerifiedCardanoTransactions, VerifyCardanoTransactionsProofsError>)
    ensures ret is Ok ==> ({
        let v = ret->Ok_0;
        // at least one part; every reported item is a leaf proven under ONE single Merkle root, the one reported
        &&& self.certified_transactions@.len() > 0
        &&& forall|j: int| 0 <= j < self.certified_transactions@.len() ==> part_ok(&#[trigger] self.certified_transactions@[j], v.merkle_root@)
        // the reported items are exactly the items of the parts, the block number and certificate hash are copied
        &&& v.certified_transactions@ == flat_hashes(self.certified_transactions@, self.certified_transactions@.len() as int)
        &&& v.latest_block_number == self.latest_block_number
        &&& v.certificate_hash@ == self.certificate_hash@
    }),
{
        proof { axiom_string_eq(); }
        let mut merkle_root: Option<String> = None;

        for certified_transaction in it: self.certified_transactions.iter() 
        invariant
            string_eq_is_view_eq(),
            0 <= it.index@ <= self.certified_transactions@.len(),
            it.index@ == 0 ==> merkle_root is None,
            it.index@ > 0 ==> merkle_root is Some,
            forall|j: int| 0 <= j < it.index@ ==> part_ok(&#[trigger] self.certified_transactions@[j], merkle_root->Some_0@),
    {
            let certified_transaction: CardanoTransactionsSetProof = certified_transaction
                .clone()
                .try_into()
                .map_err(|e: StdError| -> (r: VerifyCardanoTransactionsProofsError) { VerifyCardanoTransactionsProofsError::MalformedData(e) })?;
            certified_transaction.verify().map_err(|e: StdError| -> (r: VerifyCardanoTransactionsProofsError) {
                VerifyCardanoTransactionsProofsError::InvalidSetProof {
                    transactions_hashes: certified_transaction.transactions_hashes().to_vec(),
                    source: e,
                }
            })?;

            let tx_merkle_root = Some(certified_transaction.merkle_root());

            if merkle_root.is_none() {
                merkle_root = tx_merkle_root;
            } else if merkle_root != tx_merkle_root {
                return Err(VerifyCardanoTransactionsProofsError::NonMatchingMerkleRoot);
            }
        }

        Ok(VerifiedCardanoTransactions {
            certificate_hash: self.certificate_hash.clone(),
            merkle_root: merkle_root
                .ok_or(VerifyCardanoTransactionsProofsError::NoCertifiedTransaction)?,
            certified_transactions: collect_hashes(&self.certified_transactions),
            latest_block_number: self.latest_block_number,
        })
    }
// ---- end of extracted text ----
}

// ---- v2 format (blocks / transactions): one MkSetProof over items --------------------------------------------------
#[verifier::external_body] pub struct Item { _p: core::marker::PhantomData<u8> }        // CardanoTransaction / CardanoBlock
#[verifier::external_body] pub struct ItemMsg { _p: core::marker::PhantomData<u8> }     // ...MessagePart
pub uninterp spec fn item_node(i: &Item) -> MKTreeNode;          // IntoMKTreeNode: 'Tx/<hash>/<block hash>/<n>/<slot>' leaf (injectivity: not decided here)
pub uninterp spec fn item_of(m: &ItemMsg) -> Item;               // From<message part> for the entity (field-by-field copy)
pub uninterp spec fn decode_proof_hex(s: Seq<char>) -> Option<ProtocolMkProof>;   // ProtocolMkProof::from_bytes_hex

pub struct MkSetProof { pub items: Vec<Item>, pub proof: ProtocolMkProof }
pub struct MkSetProofMessagePart { pub items: Vec<ItemMsg>, pub proof: String }

pub open spec fn items_proven(items: Seq<Item>, p: &ProtocolMkProof) -> bool {
    proof_valid(p) && forall|i: int| 0 <= i < items.len() ==> proof_contains(p, item_node(&#[trigger] items[i]))
}
pub open spec fn msg_items(m: &MkSetProofMessagePart) -> Seq<Item> { Seq::new(m.items@.len(), |i: int| item_of(&m.items@[i])) }

#[verifier::external_body]
fn node_of_item(i: &Item) -> (r: MKTreeNode) ensures r == item_node(i) { unimplemented!() }

impl MkSetProof {
// ---- extracted from mithril-common/src/entities/mk_set_proof.rs:47 (fn verify) ----
fn verify(&self) -> (ret: Result<(), StdError>)
    ensures ret is Ok ==> items_proven(self.items@, &self.proof)
{
        self.proof.verify()?;
        for verif_item in it: self.items.iter() 
        invariant proof_valid(&self.proof), forall|i: int| 0 <= i < it.index@ ==> proof_contains(&self.proof, item_node(&#[trigger] self.items@[i])),
    { let node = node_of_item(verif_item);
            self.proof.contains(&node)?;
        }

        Ok(())
    }
// ---- end of extracted text ----

// ---- extracted from mithril-common/src/entities/mk_set_proof.rs:42 (fn merkle_root) ----
fn merkle_root(&self) -> (ret: String)
    ensures ret@ == proof_root(&self.proof)
{
        self.proof.compute_root().to_hex()
    }
// ---- end of extracted text ----
}

impl MkSetProofMessagePart {
    /// contract of `TryFrom<MkSetProofMessagePart<U>> for MkSetProof<T>`: items converted one by one, proof decoded from hex
    #[verifier::external_body]
    pub fn try_into(self) -> (r: Result<MkSetProof, StdError>)
        ensures r is Ok ==> r->Ok_0.items@ == msg_items(&self) && decode_proof_hex(self.proof@) == Some(r->Ok_0.proof)
    { unimplemented!() }
}
impl Clone for MkSetProofMessagePart {
    #[verifier::external_body]
    fn clone(&self) -> (r: Self) ensures r == *self { unimplemented!() }
}

pub enum VerifyProofsV2Error { InvalidSetProof, NoCertifiedItem(&'static str), MalformedData(&'static str, StdError) }

pub struct ProofMessageVerifier { pub subject: &'static str }

/// the message part's items (converted) are leaves proven by the decoding of its own proof string, whose root is `root`
pub open spec fn v2_part_ok(m: &MkSetProofMessagePart, root: Seq<char>) -> bool {
    decode_proof_hex(m.proof@) is Some
    && items_proven(msg_items(m), &decode_proof_hex(m.proof@)->Some_0)
    && proof_root(&decode_proof_hex(m.proof@)->Some_0) == root
}

impl ProofMessageVerifier {
// ---- extracted from mithril-common/src/messages/proof_v2/verify.rs:24 (fn proof_message_into_entity) ----
fn proof_message_into_entity(
        &self,
        message: &MkSetProofMessagePart,
    ) -> (ret: Result<MkSetProof, VerifyProofsV2Error>)
    ensures ret is Ok ==> ret->Ok_0.items@ == msg_items(message) && decode_proof_hex(message.proof@) == Some(ret->Ok_0.proof)
{
        message
            .clone()
            .try_into()
            .map_err(|e: StdError| -> (r: VerifyProofsV2Error) { VerifyProofsV2Error::MalformedData(self.subject, e) })
    }
// ---- end of extracted text ----

// ---- extracted from mithril-common/src/messages/proof_v2/verify.rs:45 (fn verify) ----
fn verify(
        &self,
        proof_message: &MkSetProofMessagePart,
    ) -> (ret: Result<String, VerifyProofsV2Error>)
    ensures ret is Ok ==> v2_part_ok(proof_message, ret->Ok_0@)
{
        let certified_item = self.proof_message_into_entity(proof_message)?;
        certified_item
            .verify()
            .map_err(|e: StdError| -> (r: VerifyProofsV2Error) { VerifyProofsV2Error::InvalidSetProof })?;

        Ok(certified_item.merkle_root())
    }
// ---- end of extracted text ----
}

impl ProofMessageVerifier {
    /// the hash extractor closure is only used to decorate errors
    pub fn new(subject: &'static str) -> (r: Self) { ProofMessageVerifier { subject } }
}
impl Clone for ItemMsg {
    #[verifier::external_body]
    fn clone(&self) -> (r: Self) ensures r == *self { unimplemented!() }
}
#[verifier::external_body]
fn clone_items(v: &Vec<ItemMsg>) -> (r: Vec<ItemMsg>) ensures r@ == v@ { unimplemented!() }

pub struct CardanoTransactionsProofsV2Message {
    pub certificate_hash: String,
    pub certified_transactions: Option<MkSetProofMessagePart>,
    pub non_certified_transactions: Vec<String>,
    pub latest_block_number: BlockNumber,
    pub security_parameter: BlockNumberOffset,
}
pub struct VerifiedCardanoTransactionsV2 {
    pub certificate_hash: String,
    pub merkle_root: String,
    pub certified_transactions: Vec<ItemMsg>,
    pub latest_block_number: BlockNumber,
    pub security_parameter: BlockNumberOffset,
}
pub struct CardanoBlocksProofsMessage {
    pub certificate_hash: String,
    pub certified_blocks: Option<MkSetProofMessagePart>,
    pub non_certified_blocks: Vec<String>,
    pub latest_block_number: BlockNumber,
    pub security_parameter: BlockNumberOffset,
}
pub struct VerifiedCardanoBlocks {
    pub certificate_hash: String,
    pub merkle_root: String,
    pub certified_blocks: Vec<ItemMsg>,
    pub latest_block_number: BlockNumber,
    pub security_parameter: BlockNumberOffset,
}

impl CardanoTransactionsProofsV2Message {
// ---- extracted from mithril-common/src/messages/proof_v2/cardano_transactions_proof.rs:154 (fn verify) ----
fn verify(&self) -> (ret: Result<VerifiedCardanoTransactionsV2, VerifyProofsV2Error>)
    ensures ret is Ok ==> ({
        let v = ret->Ok_0;
        &&& self.certified_transactions is Some
        &&& v2_part_ok(&self.certified_transactions->Some_0, v.merkle_root@)
        &&& v.certified_transactions@ == (self.certified_transactions->Some_0).items@
        &&& v.latest_block_number == self.latest_block_number && v.security_parameter == self.security_parameter
        &&& v.certificate_hash@ == self.certificate_hash@
    }),
{
        let SUBJECT: &'static str = "Cardano transactions";
        let certified_transactions = self
            .certified_transactions
            .as_ref()
            .ok_or(VerifyProofsV2Error::NoCertifiedItem(SUBJECT))?;
        let merkle_root = ProofMessageVerifier::new(SUBJECT)
        .verify(certified_transactions)?;

        Ok(VerifiedCardanoTransactionsV2 {
            certificate_hash: self.certificate_hash.clone(),
            merkle_root,
            certified_transactions: clone_items(&certified_transactions.items),
            latest_block_number: self.latest_block_number,
            security_parameter: self.security_parameter,
        })
    }
// ---- end of extracted text ----
}

impl CardanoBlocksProofsMessage {
// ---- extracted from mithril-common/src/messages/proof_v2/cardano_blocks_proof.rs:148 (fn verify) ----
fn verify(&self) -> (ret: Result<VerifiedCardanoBlocks, VerifyProofsV2Error>)
    ensures ret is Ok ==> ({
        let v = ret->Ok_0;
        &&& self.certified_blocks is Some
        &&& v2_part_ok(&self.certified_blocks->Some_0, v.merkle_root@)
        &&& v.certified_blocks@ == (self.certified_blocks->Some_0).items@
        &&& v.latest_block_number == self.latest_block_number && v.security_parameter == self.security_parameter
        &&& v.certificate_hash@ == self.certificate_hash@
    }),
{
        let SUBJECT: &'static str = "Cardano blocks";
        let certified_blocks = self
            .certified_blocks
            .as_ref()
            .ok_or(VerifyProofsV2Error::NoCertifiedItem(SUBJECT))?;
        let merkle_root =
            ProofMessageVerifier::new(SUBJECT).verify(certified_blocks)?;

        Ok(VerifiedCardanoBlocks {
            certificate_hash: self.certificate_hash.clone(),
            merkle_root,
            certified_blocks: clone_items(&certified_blocks.items),
            latest_block_number: self.latest_block_number,
            security_parameter: self.security_parameter,
        })
    }
// ---- end of extracted text ----
}

// ---- reconstruction of the signed protocol message from the VERIFIED value (mithril-client MessageBuilder) -------------
pub enum ProtocolMessagePartKey { CardanoTransactionsMerkleRoot, LatestBlockNumber, CardanoBlocksTransactionsMerkleRoot, CardanoBlocksTransactionsBlockNumberOffset, CardanoStakeDistributionEpoch, CardanoStakeDistributionMerkleRoot, Other }
#[verifier::external_body] pub struct ProtocolMessage { _p: core::marker::PhantomData<u8> }
pub uninterp spec fn parts(m: &ProtocolMessage) -> Map<ProtocolMessagePartKey, Seq<char>>;
impl ProtocolMessage {
    #[verifier::external_body]
    pub fn set_message_part(&mut self, key: ProtocolMessagePartKey, value: String)
        ensures parts(final(self)) == parts(old(self)).insert(key, value@)
    { unimplemented!() }
}
impl Clone for ProtocolMessage {
    #[verifier::external_body]
    fn clone(&self) -> (r: Self) ensures parts(&r) == parts(self) { unimplemented!() }
}
impl BlockNumber {
    #[verifier::external_body]
    pub fn to_string(&self) -> (r: String) ensures r@ == u64_str(self.0) { unimplemented!() }
}
impl BlockNumberOffset {
    #[verifier::external_body]
    pub fn to_string(&self) -> (r: String) ensures r@ == u64_str(self.0) { unimplemented!() }
}
#[verifier::external_body]
fn str_to_string(s: &str) -> (r: String) ensures r@ == s@ { s.to_string() }
#[verifier::external_body]
fn clone_string(s: &String) -> (r: String) ensures r@ == s@ { s.clone() }

impl VerifiedCardanoTransactions {
// ---- extracted from mithril-common/src/messages/cardano_transactions_proof.rs:85 (fn fill_protocol_message) ----
fn fill_protocol_message(&self, message: &mut ProtocolMessage)
    ensures parts(final(message)) == parts(old(message)).insert(ProtocolMessagePartKey::CardanoTransactionsMerkleRoot, self.merkle_root@).insert(ProtocolMessagePartKey::LatestBlockNumber, u64_str(self.latest_block_number.0))
{
        message.set_message_part(
            ProtocolMessagePartKey::CardanoTransactionsMerkleRoot,
            clone_string(&self.merkle_root),
        );

        message.set_message_part(
            ProtocolMessagePartKey::LatestBlockNumber,
            self.latest_block_number.to_string(),
        );
    }
// ---- end of extracted text ----
}

impl VerifiedCardanoTransactionsV2 {
// ---- extracted from mithril-common/src/messages/proof_v2/cardano_transactions_proof.rs:97 (fn certified_merkle_root) ----
fn certified_merkle_root(&self) -> (ret: &str)
    ensures ret@ == self.merkle_root@
{
        &self.merkle_root
    }
// ---- end of extracted text ----
// ---- extracted from mithril-common/src/messages/proof_v2/cardano_transactions_proof.rs:115 (fn latest_certified_block_number) ----
fn latest_certified_block_number(&self) -> (ret: BlockNumber)
    ensures ret == self.latest_block_number
{
        self.latest_block_number
    }
// ---- end of extracted text ----
// ---- extracted from mithril-common/src/messages/proof_v2/cardano_transactions_proof.rs:120 (fn security_parameter) ----
fn security_parameter(&self) -> (ret: BlockNumberOffset)
    ensures ret == self.security_parameter
{
        self.security_parameter
    }
// ---- end of extracted text ----
}
impl VerifiedCardanoBlocks {
// ---- extracted from mithril-common/src/messages/proof_v2/cardano_blocks_proof.rs:94 (fn certified_merkle_root) ----
fn certified_merkle_root(&self) -> (ret: &str)
    ensures ret@ == self.merkle_root@
{
        &self.merkle_root
    }
// ---- end of extracted text ----
// ---- extracted from mithril-common/src/messages/proof_v2/cardano_blocks_proof.rs:109 (fn latest_certified_block_number) ----
fn latest_certified_block_number(&self) -> (ret: BlockNumber)
    ensures ret == self.latest_block_number
{
        self.latest_block_number
    }
// ---- end of extracted text ----
// ---- extracted from mithril-common/src/messages/proof_v2/cardano_blocks_proof.rs:114 (fn security_parameter) ----
fn security_parameter(&self) -> (ret: BlockNumberOffset)
    ensures ret == self.security_parameter
{
        self.security_parameter
    }
// ---- end of extracted text ----
}

pub struct MithrilCertificate { pub protocol_message: ProtocolMessage }
pub struct MessageBuilder {}

impl MessageBuilder {
// ---- extracted from mithril-client/src/message.rs:111 (fn compute_cardano_transactions_proofs_message) ----
fn compute_cardano_transactions_proofs_message(
        &self,
        transactions_proofs_certificate: &MithrilCertificate,
        verified_transactions: &VerifiedCardanoTransactions,
    ) -> (ret: ProtocolMessage)
    ensures parts(&ret) == parts(&transactions_proofs_certificate.protocol_message)
        .insert(ProtocolMessagePartKey::CardanoTransactionsMerkleRoot, verified_transactions.merkle_root@)
        .insert(ProtocolMessagePartKey::LatestBlockNumber, u64_str(verified_transactions.latest_block_number.0))
{
        let mut message = transactions_proofs_certificate.protocol_message.clone();
        verified_transactions.fill_protocol_message(&mut message);
        message
    }
// ---- end of extracted text ----

// ---- extracted from mithril-client/src/message.rs:145 (fn compute_cardano_transactions_proofs_v2_message) ----
fn compute_cardano_transactions_proofs_v2_message(
            &self,
            transactions_proofs_certificate: &MithrilCertificate,
            verified_transactions: &VerifiedCardanoTransactionsV2,
        ) -> (ret: ProtocolMessage)
    ensures parts(&ret) == parts(&transactions_proofs_certificate.protocol_message)
        .insert(ProtocolMessagePartKey::CardanoBlocksTransactionsMerkleRoot, verified_transactions.merkle_root@)
        .insert(ProtocolMessagePartKey::LatestBlockNumber, u64_str(verified_transactions.latest_block_number.0))
        .insert(ProtocolMessagePartKey::CardanoBlocksTransactionsBlockNumberOffset, u64_str(verified_transactions.security_parameter.0))
{
            let mut message = transactions_proofs_certificate.protocol_message.clone();
            message.set_message_part(
                ProtocolMessagePartKey::CardanoBlocksTransactionsMerkleRoot,
                verified_transactions.certified_merkle_root().verif_to_string(),
            );
            message.set_message_part(
                ProtocolMessagePartKey::LatestBlockNumber,
                verified_transactions.latest_certified_block_number().to_string(),
            );
            message.set_message_part(
                ProtocolMessagePartKey::CardanoBlocksTransactionsBlockNumberOffset,
                verified_transactions.security_parameter().to_string(),
            );
            message
        }
// ---- end of extracted text ----

// ---- extracted from mithril-client/src/message.rs:123 (fn compute_cardano_blocks_proofs_message) ----
fn compute_cardano_blocks_proofs_message(
            &self,
            blocks_proofs_certificate: &MithrilCertificate,
            verified_blocks: &VerifiedCardanoBlocks,
        ) -> (ret: ProtocolMessage)
    ensures parts(&ret) == parts(&blocks_proofs_certificate.protocol_message)
        .insert(ProtocolMessagePartKey::CardanoBlocksTransactionsMerkleRoot, verified_blocks.merkle_root@)
        .insert(ProtocolMessagePartKey::LatestBlockNumber, u64_str(verified_blocks.latest_block_number.0))
        .insert(ProtocolMessagePartKey::CardanoBlocksTransactionsBlockNumberOffset, u64_str(verified_blocks.security_parameter.0))
{
            let mut message = blocks_proofs_certificate.protocol_message.clone();
            message.set_message_part(
                ProtocolMessagePartKey::CardanoBlocksTransactionsMerkleRoot,
                verified_blocks.certified_merkle_root().verif_to_string(),
            );
            message.set_message_part(
                ProtocolMessagePartKey::LatestBlockNumber,
                verified_blocks.latest_certified_block_number().to_string(),
            );
            message.set_message_part(
                ProtocolMessagePartKey::CardanoBlocksTransactionsBlockNumberOffset,
                verified_blocks.security_parameter().to_string(),
            );
            message
        }
// ---- end of extracted text ----
}

pub trait VerifToString { fn verif_to_string(&self) -> String; }
impl VerifToString for str {
    /// `str::to_string`
    #[verifier::external_body]
    fn verif_to_string(&self) -> (r: String) ensures r@ == self@ { self.to_string() }
}

// ---- stake distribution: the message is rebuilt from the SERVED distribution's own Merkle root and epoch ------------------
#[verifier::external_body] pub struct StakeDistribution { _p: core::marker::PhantomData<u8> }
#[verifier::external_body] pub struct MKTree { _p: core::marker::PhantomData<u8> }
#[derive(Clone, Copy)] pub struct Epoch(pub u64);
pub struct MithrilError {}
pub uninterp spec fn stake_tree_root(d: &StakeDistribution) -> Option<Seq<char>>;   // root (hex) of the Merkle tree over the (pool id, stake) leaves - leaf encoding: unit stake_leaf
pub uninterp spec fn tree_root(t: &MKTree) -> Option<Seq<char>>;
pub struct CardanoStakeDistribution { pub epoch: Epoch, pub stake_distribution: StakeDistribution }
pub struct CardanoStakeDistributionSignableBuilder {}
impl Clone for StakeDistribution { #[verifier::external_body] fn clone(&self) -> (r: Self) ensures r == *self { unimplemented!() } }
impl CardanoStakeDistributionSignableBuilder {
    /// mithril-common: MKTree::new over `format!("{}{}", pool_id, stake)` leaves (iterator map/collect + external MMR)
    #[verifier::external_body]
    pub fn compute_merkle_tree_from_stake_distribution(pools_with_stake: StakeDistribution) -> (r: Result<MKTree, MithrilError>)
        ensures r is Ok ==> tree_root(&r->Ok_0) == stake_tree_root(&pools_with_stake)
    { unimplemented!() }
}
impl MKTree {
    #[verifier::external_body]
    pub fn compute_root(&self) -> (r: Result<RootHex, MithrilError>) ensures r is Ok ==> tree_root(self) == Some(r->Ok_0.hex@) { unimplemented!() }
}
impl Epoch {
    #[verifier::external_body]
    pub fn to_string(&self) -> (r: String) ensures r@ == u64_str(self.0) { unimplemented!() }
}
impl MessageBuilder {
// ---- extracted from mithril-client/src/message.rs:168 (fn compute_cardano_stake_distribution_message) ----
fn compute_cardano_stake_distribution_message(
        &self,
        certificate: &MithrilCertificate,
        cardano_stake_distribution: &CardanoStakeDistribution,
    ) -> (ret: Result<ProtocolMessage, MithrilError>)
    ensures ret is Ok ==> stake_tree_root(&cardano_stake_distribution.stake_distribution) is Some
        && parts(&ret->Ok_0) == parts(&certificate.protocol_message)
            .insert(ProtocolMessagePartKey::CardanoStakeDistributionEpoch, u64_str(cardano_stake_distribution.epoch.0))
            .insert(ProtocolMessagePartKey::CardanoStakeDistributionMerkleRoot, stake_tree_root(&cardano_stake_distribution.stake_distribution)->Some_0)
{
        let mk_tree =
            CardanoStakeDistributionSignableBuilder::compute_merkle_tree_from_stake_distribution(
                cardano_stake_distribution.stake_distribution.clone(),
            )?;

        let mut message = certificate.protocol_message.clone();
        message.set_message_part(
            ProtocolMessagePartKey::CardanoStakeDistributionEpoch,
            cardano_stake_distribution.epoch.to_string(),
        );
        message.set_message_part(
            ProtocolMessagePartKey::CardanoStakeDistributionMerkleRoot,
            mk_tree.compute_root()?.to_hex(),
        );

        Ok(message)
    }
// ---- end of extracted text ----
}

} // verus!
fn main() {}

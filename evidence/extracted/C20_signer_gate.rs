// C20 (clause "the signer never signs before it has registered keys eligible for the current epoch") — Verus on the working
// tree's text of the signer's gate MithrilEpochService::can_signer_sign_current_epoch and the accessors it uses
// (mithril-signer/src/services/epoch_service.rs): it answers true only when a protocol initializer (key material) is stored
// for the epoch AND the current signer list contains this party with exactly that initializer's verification key.
use vstd::prelude::*;
verus! {

pub type PartyId = String;
#[derive(Clone, Copy)] pub struct Epoch(pub u64);
#[verifier::external_body] pub struct ProtocolInitializer { _p: core::marker::PhantomData<u8> }
#[verifier::external_body] pub struct KeyBytes { _p: core::marker::PhantomData<u8> }
pub struct Signer { pub party_id: PartyId, pub verification_key_for_concatenation: KeyBytes }
pub enum EpochServiceError { NotYetInitialized }

pub uninterp spec fn initializer_key(i: &ProtocolInitializer) -> KeyBytes;
pub uninterp spec fn key_eq(a: &KeyBytes, b: &KeyBytes) -> bool;

pub struct EpochData {
    pub epoch: Epoch,
    pub protocol_initializer: Option<ProtocolInitializer>,
    pub current_signers: Vec<Signer>,
    pub next_signers: Vec<Signer>,
}
pub struct MithrilEpochService { pub epoch_data: Option<EpochData> }

/// the party is listed among the current signers with exactly the initializer's verification key
pub open spec fn listed_with_key(signers: Seq<Signer>, party_id: Seq<char>, i: &ProtocolInitializer) -> bool {
    exists|j: int| 0 <= j < signers.len() && (#[trigger] signers[j]).party_id@ == party_id && key_eq(&signers[j].verification_key_for_concatenation, &initializer_key(i))
}
/// contract of `signers.iter().any(|s| s.party_id == party_id && s.verification_key_for_concatenation == initializer.verification_key_for_concatenation().into())`
#[verifier::external_body]
fn any_signer_with(signers: &Vec<Signer>, party_id: &PartyId, i: &ProtocolInitializer) -> (r: bool)
    ensures r == listed_with_key(signers@, party_id@, i)
{ unimplemented!() }

impl MithrilEpochService {
// ---- extracted from mithril-signer/src/services/epoch_service.rs:189 (fn unwrap_data) ----
fn unwrap_data(&self) -> (ret: Result<&EpochData, EpochServiceError>)
    ensures ret is Ok ==> self.epoch_data is Some && *ret->Ok_0 == self.epoch_data->Some_0
{
        self.epoch_data.as_ref().ok_or(EpochServiceError::NotYetInitialized)
    }
// ---- end of extracted text ----

// ---- extracted from mithril-signer/src/services/epoch_service.rs:253 (fn epoch_of_current_data) ----
fn epoch_of_current_data(&self) -> (ret: Result<Epoch, EpochServiceError>)
    ensures ret is Ok ==> self.epoch_data is Some && ret->Ok_0 == self.epoch_data->Some_0.epoch
{
        Ok(self.unwrap_data()?.epoch)
    }
// ---- end of extracted text ----

// ---- extracted from mithril-signer/src/services/epoch_service.rs:261 (fn protocol_initializer) ----
fn protocol_initializer(&self) -> (ret: Result<&Option<ProtocolInitializer>, EpochServiceError>)
    ensures ret is Ok ==> self.epoch_data is Some && *ret->Ok_0 == self.epoch_data->Some_0.protocol_initializer
{
        Ok(&self.unwrap_data()?.protocol_initializer)
    }
// ---- end of extracted text ----

// ---- extracted from mithril-signer/src/services/epoch_service.rs:265 (fn current_signers) ----
fn current_signers(&self) -> (ret: Result<&Vec<Signer>, EpochServiceError>)
    ensures ret is Ok ==> self.epoch_data is Some && *ret->Ok_0 == self.epoch_data->Some_0.current_signers
{
        Ok(&self.unwrap_data()?.current_signers)
    }
// ---- end of extracted text ----

// ---- extracted from mithril-signer/src/services/epoch_service.rs:177 (fn is_signer_included_in_current_stake_distribution) ----
fn is_signer_included_in_current_stake_distribution(
        &self,
        party_id: PartyId,
        protocol_initializer: &ProtocolInitializer,
    ) -> (ret: Result<bool, EpochServiceError>)
    ensures ret is Ok ==> self.epoch_data is Some && ret->Ok_0 == listed_with_key(self.epoch_data->Some_0.current_signers@, party_id@, protocol_initializer)
{
        Ok(any_signer_with(self.current_signers()?, &party_id, protocol_initializer))
    }
// ---- end of extracted text ----

// ---- extracted from mithril-signer/src/services/epoch_service.rs:307 (fn can_signer_sign_current_epoch) ----
fn can_signer_sign_current_epoch(&self, party_id: PartyId) -> (ret: Result<bool, EpochServiceError>)
    ensures ret is Ok && ret->Ok_0 ==> self.epoch_data is Some
        // key material registered for this epoch exists ...
        && self.epoch_data->Some_0.protocol_initializer is Some
        // ... and the epoch's signer list names this party with exactly that key
        && listed_with_key(self.epoch_data->Some_0.current_signers@, party_id@, &self.epoch_data->Some_0.protocol_initializer->Some_0)
{
        let epoch = self.epoch_of_current_data()?;
        if let Some(protocol_initializer) = self.protocol_initializer()? {
            
            if self
                .is_signer_included_in_current_stake_distribution(party_id, protocol_initializer)?
            {
                return Ok(true);
            } else {
                
            }
        } else {
            
        }

        Ok(false)
    }
// ---- end of extracted text ----
}

} // verus!
fn main() {}

// C20 (clause "the signer never signs before it has registered keys eligible for the current epoch") — Verus on the working
// tree's text of the signer's gate MithrilEpochService::can_signer_sign_current_epoch and the accessors it uses
// (mithril-signer/src/services/epoch_service.rs): it answers true only when a protocol initializer (key material) is stored
// for the epoch AND the current signer list contains this party with exactly that initializer's verification key.
use vstd::prelude::*;
verus! {

pub type PartyId = String;
#[derive(Clone, Copy)] pub struct Epoch(pub u64);
#[verifier::external_body] pub struct ProtocolInitializer { _p: core::marker::PhantomData<u8> }
#[verifier::external_body] pub struct KeyBytes { _p: core::marker::PhantomData<u8> }
#[verifier::external_body] pub struct KeySignature { _p: core::marker::PhantomData<u8> }   // Option<ProtocolSignerVerificationKeySignature>
#[verifier::external_body] pub struct OpCertOpt { _p: core::marker::PhantomData<u8> }      // Option<ProtocolOpCert>
#[verifier::external_body] pub struct KesEvolutionsOpt { _p: core::marker::PhantomData<u8> } // Option<KesEvolutions>
impl KeyBytes { #[verifier::external_body] pub fn to_owned(&self) -> (r: Self) ensures r == *self { unimplemented!() } }
impl KeySignature { #[verifier::external_body] pub fn to_owned(&self) -> (r: Self) ensures r == *self { unimplemented!() } }
impl OpCertOpt { #[verifier::external_body] pub fn to_owned(&self) -> (r: Self) ensures r == *self { unimplemented!() } }
impl KesEvolutionsOpt { #[verifier::external_body] pub fn to_owned(&self) -> (r: Self) ensures r == *self { unimplemented!() } }
pub type Stake = u64;
pub struct Signer {
    pub party_id: PartyId,
    pub verification_key_for_concatenation: KeyBytes,
    pub verification_key_signature_for_concatenation: KeySignature,
    pub operational_certificate: OpCertOpt,
    pub kes_evolutions: KesEvolutionsOpt,
}
pub struct SignerWithStake {
    pub party_id: PartyId,
    pub verification_key_for_concatenation: KeyBytes,
    pub verification_key_signature_for_concatenation: KeySignature,
    pub operational_certificate: OpCertOpt,
    pub kes_evolutions: KesEvolutionsOpt,
    pub stake: Stake,
}
pub enum EpochServiceError { NotYetInitialized }

pub uninterp spec fn initializer_key(i: &ProtocolInitializer) -> KeyBytes;
pub uninterp spec fn key_eq(a: &KeyBytes, b: &KeyBytes) -> bool;

#[verifier::external_body] #[derive(Clone, Copy)] pub struct SupportedEra { _p: core::marker::PhantomData<u8> }
#[verifier::external_body] pub struct ProtocolParameters { _p: core::marker::PhantomData<u8> }
#[verifier::external_body] pub struct DiscriminantSet { _p: core::marker::PhantomData<u8> }   // BTreeSet<SignedEntityTypeDiscriminants>
#[verifier::external_body] pub struct TxConfig { _p: core::marker::PhantomData<u8> }          // Option<CardanoTransactionsSigningConfig>
#[verifier::external_body] pub struct BlkConfig { _p: core::marker::PhantomData<u8> }         // Option<CardanoBlocksTransactionsSigningConfig>
impl Clone for ProtocolParameters { #[verifier::external_body] fn clone(&self) -> (r: Self) ensures r == *self { unimplemented!() } }
impl Clone for DiscriminantSet { #[verifier::external_body] fn clone(&self) -> (r: Self) ensures r == *self { unimplemented!() } }
impl Clone for TxConfig { #[verifier::external_body] fn clone(&self) -> (r: Self) ensures r == *self { unimplemented!() } }
impl Clone for BlkConfig { #[verifier::external_body] fn clone(&self) -> (r: Self) ensures r == *self { unimplemented!() } }
pub struct SignedEntityTypesConfig { pub cardano_transactions: TxConfig, pub cardano_blocks_transactions: BlkConfig }
pub struct MithrilNetworkConfigurationForEpoch {
    pub protocol_parameters: ProtocolParameters,
    pub enabled_signed_entity_types: DiscriminantSet,
    pub signed_entity_types_config: SignedEntityTypesConfig,
}
pub struct MithrilNetworkConfiguration {
    pub epoch: Epoch,
    pub configuration_for_aggregation: MithrilNetworkConfigurationForEpoch,
    pub configuration_for_registration: MithrilNetworkConfigurationForEpoch,
}

pub struct EpochData {
    pub mithril_era: SupportedEra,
    pub epoch: Epoch,
    pub registration_protocol_parameters: ProtocolParameters,
    pub protocol_initializer: Option<ProtocolInitializer>,
    pub current_signers: Vec<Signer>,
    pub next_signers: Vec<Signer>,
    pub allowed_discriminants: DiscriminantSet,
    pub cardano_transactions_signing_config: TxConfig,
    pub cardano_blocks_transactions_signing_config: BlkConfig,
}

// the signer's stores (async trait objects): contracts over uninterpreted functions of their content
#[verifier::external_body] pub struct ProtocolInitializerStore { _p: core::marker::PhantomData<u8> }
#[verifier::external_body] pub struct EraChecker { _p: core::marker::PhantomData<u8> }
/// the key material (protocol initializer) the signer saved under this epoch
pub uninterp spec fn stored_initializer(s: &ProtocolInitializerStore, e: Epoch) -> Option<ProtocolInitializer>;
impl ProtocolInitializerStore {
    #[verifier::external_body]
    pub fn get_protocol_initializer(&self, e: Epoch) -> (r: Result<Option<ProtocolInitializer>, EpochServiceError>)
        ensures r is Ok ==> r->Ok_0 == stored_initializer(self, e)
    { unimplemented!() }
}
impl EraChecker { #[verifier::external_body] pub fn current_era(&self) -> SupportedEra { unimplemented!() } }
// Epoch offsets: the contracts proved on the real functions by this property's Kani unit (c20_epoch.rs)
impl Epoch {
    #[verifier::external_body]
    pub fn offset_to_signer_retrieval_epoch(&self) -> (r: Result<Epoch, EpochServiceError>)
        ensures (r is Ok) == (self.0 >= 1), r is Ok ==> r->Ok_0.0 == self.0 - 1
    { unimplemented!() }
    #[verifier::external_body]
    pub fn offset_to_next_signer_retrieval_epoch(&self) -> (r: Epoch) ensures r.0 == self.0 { unimplemented!() }
}
// the signer's stake store (async trait object over SQLite): the stake distribution saved under an epoch
#[verifier::external_body] pub struct StakeStorer { _p: core::marker::PhantomData<u8> }
#[verifier::external_body] pub struct StakeDistribution { _p: core::marker::PhantomData<u8> }
pub uninterp spec fn saved_stakes(s: &StakeStorer, e: Epoch) -> Option<Map<Seq<char>, Stake>>;
pub uninterp spec fn stake_map(d: &StakeDistribution) -> Map<Seq<char>, Stake>;
impl StakeStorer {
    #[verifier::external_body]
    pub fn get_stakes(&self, e: Epoch) -> (r: Result<Option<StakeDistribution>, EpochServiceError>)
        ensures r is Ok ==> (r->Ok_0 is Some) == (saved_stakes(self, e) is Some), r is Ok && r->Ok_0 is Some ==> stake_map(&r->Ok_0->Some_0) == saved_stakes(self, e)->Some_0
    { unimplemented!() }
}
impl StakeDistribution {
    #[verifier::external_body]
    pub fn get(&self, id: &PartyId) -> (r: Option<&Stake>)
        ensures (r is Some) == stake_map(self).dom().contains(id@), r is Some ==> *r->Some_0 == stake_map(self)[id@]
    { unimplemented!() }
}
#[verifier::external_body]
fn string_to_owned(s: &String) -> (r: String) ensures r@ == s@ { s.clone() }
/// `out` is `signers`, one for one and in order, each with ITS OWN key material and the stake the store saved under `e` for ITS party id
pub open spec fn with_stakes_of(store: &StakeStorer, e: Epoch, signers: Seq<Signer>, out: Seq<SignerWithStake>) -> bool {
    &&& saved_stakes(store, e) is Some
    &&& out.len() == signers.len()
    &&& forall|i: int| 0 <= i < signers.len() ==> signer_with_stake_of(saved_stakes(store, e)->Some_0, signers[i], #[trigger] out[i])
}
pub open spec fn signer_with_stake_of(stakes: Map<Seq<char>, Stake>, s: Signer, o: SignerWithStake) -> bool {
    &&& o.party_id@ == s.party_id@ && o.verification_key_for_concatenation == s.verification_key_for_concatenation
    &&& o.verification_key_signature_for_concatenation == s.verification_key_signature_for_concatenation
    &&& o.operational_certificate == s.operational_certificate && o.kes_evolutions == s.kes_evolutions
    &&& stakes.dom().contains(s.party_id@) && o.stake == stakes[s.party_id@]
}

pub struct MithrilEpochService {
    pub stake_storer: StakeStorer,
    pub epoch_data: Option<EpochData>,
    pub protocol_initializer_store: ProtocolInitializerStore,
    pub era_checker: EraChecker,
}

/// the party is listed among the current signers with exactly the initializer's verification key
pub open spec fn listed_with_key(signers: Seq<Signer>, party_id: Seq<char>, i: &ProtocolInitializer) -> bool {
    exists|j: int| 0 <= j < signers.len() && (#[trigger] signers[j]).party_id@ == party_id && key_eq(&signers[j].verification_key_for_concatenation, &initializer_key(i))
}
/// contract of `signers.iter().any(|s| s.party_id == party_id && s.verification_key_for_concatenation == initializer.verification_key_for_concatenation().into())`
#[verifier::external_body]
fn any_signer_with(signers: &Vec<Signer>, party_id: &PartyId, i: &ProtocolInitializer) -> (r: bool)
    ensures r == listed_with_key(signers@, party_id@, i)
{ unimplemented!() }

impl MithrilEpochService {
// ---- extracted from mithril-signer/src/services/epoch_service.rs:127 (fn associate_signers_with_stake) ----
fn associate_signers_with_stake(
        &self,
        epoch: Epoch,
        signers: &Vec<Signer>,
    ) -> (ret: Result<Vec<SignerWithStake>, EpochServiceError>)
    ensures ret is Ok ==> with_stakes_of(&self.stake_storer, epoch, signers@, ret->Ok_0@)
{
        
        let stakes = self
            .stake_storer
            .get_stakes(epoch)
            ?
            .ok_or(EpochServiceError::NotYetInitialized)?;

        let mut signers_with_stake: Vec<SignerWithStake> = Vec::new();

        for signer in it: signers.iter() 
        invariant 0 <= it.index@ <= signers@.len(), signers_with_stake@.len() == it.index@, saved_stakes(&self.stake_storer, epoch) is Some,
            stake_map(&stakes) == saved_stakes(&self.stake_storer, epoch)->Some_0,
            forall|i: int| 0 <= i < it.index@ ==> signer_with_stake_of(saved_stakes(&self.stake_storer, epoch)->Some_0, signers@[i], #[trigger] signers_with_stake@[i]),
    {
            let stake = stakes
                .get(&signer.party_id)
                .ok_or(EpochServiceError::NotYetInitialized)?;

            signers_with_stake.push(SignerWithStake {
                party_id: string_to_owned(&signer.party_id),
                verification_key_for_concatenation: signer
                    .verification_key_for_concatenation
                    .to_owned(),
                verification_key_signature_for_concatenation: signer
                    .verification_key_signature_for_concatenation
                    .to_owned(),
                operational_certificate: signer.operational_certificate.to_owned(),
                kes_evolutions: signer.kes_evolutions.to_owned(),
                stake: *stake,
                
                
            });
                    }

        Ok(signers_with_stake)
    }
// ---- end of extracted text ----

// ---- extracted from mithril-signer/src/services/epoch_service.rs:196 (fn inform_epoch_settings) ----
fn inform_epoch_settings(
        &mut self,
        aggregator_signer_registration_epoch: Epoch,
        mithril_network_configuration: MithrilNetworkConfiguration,
        current_signers: Vec<Signer>,
        next_signers: Vec<Signer>,
    ) -> (ret: Result<(), EpochServiceError>)
    ensures ret is Ok ==> ({
        let d = final(self).epoch_data;
        &&& aggregator_signer_registration_epoch.0 >= 1 && d is Some && d->Some_0.epoch == aggregator_signer_registration_epoch
        // the key material in force for epoch e is what the signer saved under the signer-retrieval epoch e - 1
        &&& d->Some_0.protocol_initializer == stored_initializer(&old(self).protocol_initializer_store, Epoch((aggregator_signer_registration_epoch.0 - 1) as u64))
        &&& d->Some_0.current_signers == current_signers && d->Some_0.next_signers == next_signers
        &&& d->Some_0.registration_protocol_parameters == mithril_network_configuration.configuration_for_registration.protocol_parameters
    }),
{
        
        let registration_protocol_parameters = mithril_network_configuration
            .configuration_for_registration
            .protocol_parameters
            .clone();

        let protocol_initializer = self
            .protocol_initializer_store
            .get_protocol_initializer(
                aggregator_signer_registration_epoch.offset_to_signer_retrieval_epoch()?,
            )
            ?;

        let allowed_discriminants = mithril_network_configuration
            .configuration_for_aggregation
            .enabled_signed_entity_types
            .clone();

        let signed_entity_types_config = &mithril_network_configuration
            .configuration_for_aggregation
            .signed_entity_types_config;

        let cardano_transactions_signing_config =
            signed_entity_types_config.cardano_transactions.clone();

        let cardano_blocks_transactions_signing_config =
            signed_entity_types_config.cardano_blocks_transactions.clone();

        let mithril_era = self.era_checker.current_era();

        self.epoch_data = Some(EpochData {
            mithril_era,
            epoch: aggregator_signer_registration_epoch,
            registration_protocol_parameters,
            protocol_initializer,
            current_signers,
            next_signers,
            allowed_discriminants,
            cardano_transactions_signing_config,
            cardano_blocks_transactions_signing_config,
        });

        Ok(())
    }
// ---- end of extracted text ----

// ---- extracted from mithril-signer/src/services/epoch_service.rs:273 (fn current_signers_with_stake) ----
fn current_signers_with_stake(&self) -> (ret: Result<Vec<SignerWithStake>, EpochServiceError>)
    ensures ret is Ok ==> self.epoch_data is Some && self.epoch_data->Some_0.epoch.0 >= 1
        && with_stakes_of(&self.stake_storer, Epoch((self.epoch_data->Some_0.epoch.0 - 1) as u64), self.epoch_data->Some_0.current_signers@, ret->Ok_0@)
{
        let current_epoch = self.epoch_of_current_data()?;
        self.associate_signers_with_stake(
            current_epoch.offset_to_signer_retrieval_epoch()?,
            self.current_signers()?,
        )
        
    }
// ---- end of extracted text ----

// ---- extracted from mithril-signer/src/services/epoch_service.rs:282 (fn next_signers_with_stake) ----
fn next_signers_with_stake(&self) -> (ret: Result<Vec<SignerWithStake>, EpochServiceError>)
    ensures ret is Ok ==> self.epoch_data is Some
        && with_stakes_of(&self.stake_storer, self.epoch_data->Some_0.epoch, self.epoch_data->Some_0.next_signers@, ret->Ok_0@)
{
        let current_epoch = self.epoch_of_current_data()?;
        self.associate_signers_with_stake(
            current_epoch.offset_to_next_signer_retrieval_epoch(),
            self.next_signers()?,
        )
        
    }
// ---- end of extracted text ----

// ---- extracted from mithril-signer/src/services/epoch_service.rs:269 (fn next_signers) ----
fn next_signers(&self) -> (ret: Result<&Vec<Signer>, EpochServiceError>)
    ensures ret is Ok ==> self.epoch_data is Some && *ret->Ok_0 == self.epoch_data->Some_0.next_signers
{
        Ok(&self.unwrap_data()?.next_signers)
    }
// ---- end of extracted text ----

// ---- extracted from mithril-signer/src/services/epoch_service.rs:189 (fn unwrap_data) ----
fn unwrap_data(&self) -> (ret: Result<&EpochData, EpochServiceError>)
    ensures ret is Ok ==> self.epoch_data is Some && *ret->Ok_0 == self.epoch_data->Some_0
{
        self.epoch_data.as_ref().ok_or(EpochServiceError::NotYetInitialized)
    }
// ---- end of extracted text ----

// ---- extracted from mithril-signer/src/services/epoch_service.rs:253 (fn epoch_of_current_data) ----
fn epoch_of_current_data(&self) -> (ret: Result<Epoch, EpochServiceError>)
    ensures ret is Ok ==> self.epoch_data is Some && ret->Ok_0 == self.epoch_data->Some_0.epoch
{
        Ok(self.unwrap_data()?.epoch)
    }
// ---- end of extracted text ----

// ---- extracted from mithril-signer/src/services/epoch_service.rs:261 (fn protocol_initializer) ----
fn protocol_initializer(&self) -> (ret: Result<&Option<ProtocolInitializer>, EpochServiceError>)
    ensures ret is Ok ==> self.epoch_data is Some && *ret->Ok_0 == self.epoch_data->Some_0.protocol_initializer
{
        Ok(&self.unwrap_data()?.protocol_initializer)
    }
// ---- end of extracted text ----

// ---- extracted from mithril-signer/src/services/epoch_service.rs:265 (fn current_signers) ----
fn current_signers(&self) -> (ret: Result<&Vec<Signer>, EpochServiceError>)
    ensures ret is Ok ==> self.epoch_data is Some && *ret->Ok_0 == self.epoch_data->Some_0.current_signers
{
        Ok(&self.unwrap_data()?.current_signers)
    }
// ---- end of extracted text ----

// ---- extracted from mithril-signer/src/services/epoch_service.rs:177 (fn is_signer_included_in_current_stake_distribution) ----
fn is_signer_included_in_current_stake_distribution(
        &self,
        party_id: PartyId,
        protocol_initializer: &ProtocolInitializer,
    ) -> (ret: Result<bool, EpochServiceError>)
    ensures ret is Ok ==> self.epoch_data is Some && ret->Ok_0 == listed_with_key(self.epoch_data->Some_0.current_signers@, party_id@, protocol_initializer)
{
        Ok(any_signer_with(self.current_signers()?, &party_id, protocol_initializer))
    }
// ---- end of extracted text ----

// ---- extracted from mithril-signer/src/services/epoch_service.rs:307 (fn can_signer_sign_current_epoch) ----
fn can_signer_sign_current_epoch(&self, party_id: PartyId) -> (ret: Result<bool, EpochServiceError>)
    ensures ret is Ok && ret->Ok_0 ==> self.epoch_data is Some
        // key material registered for this epoch exists ...
        && self.epoch_data->Some_0.protocol_initializer is Some
        // ... and the epoch's signer list names this party with exactly that key
        && listed_with_key(self.epoch_data->Some_0.current_signers@, party_id@, &self.epoch_data->Some_0.protocol_initializer->Some_0)
{
        let epoch = self.epoch_of_current_data()?;
        if let Some(protocol_initializer) = self.protocol_initializer()? {
            
            if self
                .is_signer_included_in_current_stake_distribution(party_id, protocol_initializer)?
            {
                return Ok(true);
            } else {
                
            }
        } else {
            
        }

        Ok(false)
    }
// ---- end of extracted text ----
}

} // verus!
fn main() {}

// C14 (PARTIAL: the clauses that are decided at the moment a certificate is created or a signature is registered) — Verus on
// the working tree's text of the aggregator's MithrilCertifierService::{create_certificate, register_single_signature,
// verify_certificate_chain} (mithril-aggregator/src/services/certifier/certifier_service.rs), default features.
//   create_certificate Ok(Some(c)) ==> the open message existed and was neither certified nor expired; c is sealed for exactly
//   that open message (epoch, protocol message, the multi-signature the multi-signer produced for it, its signed entity type);
//   c carries the aggregate key and protocol parameters the epoch service holds as current; c links to the repository's master
//   certificate of the open message's epoch; c was accepted by the certificate verifier BEFORE being stored; what is returned is
//   what was stored; the open message is then marked certified (so the same signed entity is not certified again).
//   register_single_signature Ok ==> the open message exists, is neither certified nor expired, and the signature was accepted
//   by the multi-signer for that open message's protocol message before being stored.
//   verify_certificate_chain(e) Ok ==> the latest certificate has no epoch gap with e and its chain verifies (the aggregator
//   stops certifying when an epoch has been skipped).
// Repositories (SQLite), the multi-signer, the verifier and the epoch service are callee contracts over uninterpreted functions
// of their content; which certificate is the "master certificate of an epoch" is decided by SQL and not covered.
use vstd::prelude::*;
verus! {

pub struct StdError {}
#[derive(Clone, Copy, PartialEq, Eq, PartialOrd, Ord)] pub struct Epoch(pub u64);
impl vstd::std_specs::cmp::PartialEqSpecImpl for Epoch {
    open spec fn obeys_eq_spec() -> bool { true }
    open spec fn eq_spec(&self, other: &Epoch) -> bool { self.0 == other.0 }
}
impl vstd::std_specs::cmp::PartialOrdSpecImpl for Epoch {
    open spec fn obeys_partial_cmp_spec() -> bool { true }
    open spec fn partial_cmp_spec(&self, other: &Epoch) -> Option<core::cmp::Ordering> {
        if self.0 < other.0 { Some(core::cmp::Ordering::Less) } else if self.0 == other.0 { Some(core::cmp::Ordering::Equal) } else { Some(core::cmp::Ordering::Greater) }
    }
}
impl vstd::std_specs::cmp::OrdSpecImpl for Epoch {
    open spec fn obeys_cmp_spec() -> bool { true }
    open spec fn cmp_spec(&self, other: &Epoch) -> core::cmp::Ordering {
        if self.0 < other.0 { core::cmp::Ordering::Less } else if self.0 == other.0 { core::cmp::Ordering::Equal } else { core::cmp::Ordering::Greater }
    }
}
#[verifier::external_body] #[derive(Clone, Copy)] pub struct CardanoNetwork { _p: core::marker::PhantomData<u8> }
#[verifier::external_body] #[derive(Clone, Copy)] pub struct DateTime { _p: core::marker::PhantomData<u8> }
#[verifier::external_body] pub struct SignedEntityType { _p: core::marker::PhantomData<u8> }
#[verifier::external_body] pub struct ProtocolMessage { _p: core::marker::PhantomData<u8> }
#[verifier::external_body] pub struct ProtocolParameters { _p: core::marker::PhantomData<u8> }
#[verifier::external_body] pub struct ProtocolAggregateVerificationKey { _p: core::marker::PhantomData<u8> }
#[verifier::external_body] pub struct ProtocolMultiSignature { _p: core::marker::PhantomData<u8> }
#[verifier::external_body] pub struct AncillaryProverData { _p: core::marker::PhantomData<u8> }   // Option<..>
#[verifier::external_body] pub struct AncillaryVerifierData { _p: core::marker::PhantomData<u8> } // Option<..>
#[verifier::external_body] pub struct AncillaryInput { _p: core::marker::PhantomData<u8> }
#[verifier::external_body] pub struct SingleSignature { _p: core::marker::PhantomData<u8> }
#[verifier::external_body] pub struct SingleSignatureRecord { _p: core::marker::PhantomData<u8> }
#[verifier::external_body] pub struct SignerWithStake { _p: core::marker::PhantomData<u8> }
#[verifier::external_body] pub struct StakeDistributionParty { _p: core::marker::PhantomData<u8> }
#[verifier::external_body] pub struct PartyIds { _p: core::marker::PhantomData<u8> }
#[verifier::external_body] pub struct Message { _p: core::marker::PhantomData<u8> }
pub uninterp spec fn entity_epoch(t: &SignedEntityType) -> Epoch;
pub uninterp spec fn entity_signing_epoch(t: &SignedEntityType) -> Epoch;
impl SignedEntityType {
    #[verifier::external_body]
    pub fn get_epoch(&self) -> (r: Epoch) ensures r == entity_epoch(self) { unimplemented!() }
    #[verifier::external_body]
    pub fn get_epoch_when_signed_entity_type_is_signed(&self) -> (r: Epoch) ensures r == entity_signing_epoch(self) { unimplemented!() }
}
impl Clone for SignedEntityType { #[verifier::external_body] fn clone(&self) -> (r: Self) ensures r == *self { unimplemented!() } }
impl Clone for ProtocolMessage { #[verifier::external_body] fn clone(&self) -> (r: Self) ensures r == *self { unimplemented!() } }
impl Clone for ProtocolParameters { #[verifier::external_body] fn clone(&self) -> (r: Self) ensures r == *self { unimplemented!() } }
impl Clone for ProtocolAggregateVerificationKey { #[verifier::external_body] fn clone(&self) -> (r: Self) ensures r == *self { unimplemented!() } }

pub enum CertificateSignature { GenesisSignature, MultiSignature(SignedEntityType, ProtocolMultiSignature) }
pub struct CertificateMetadata { pub network: CardanoNetwork, pub protocol_parameters: ProtocolParameters, pub initiated_at: DateTime, pub sealed_at: DateTime, pub signers: Vec<StakeDistributionParty> }
pub struct Certificate {
    pub hash: String,
    pub previous_hash: String,
    pub epoch: Epoch,
    pub metadata: CertificateMetadata,
    pub protocol_message: ProtocolMessage,
    pub aggregate_verification_key: ProtocolAggregateVerificationKey,
    pub signature: CertificateSignature,
}
impl CertificateMetadata {
    #[verifier::external_body]
    pub fn new(network: CardanoNetwork, protocol_version: String, protocol_parameters: ProtocolParameters, initiated_at: DateTime, sealed_at: DateTime,
               signers: Vec<StakeDistributionParty>) -> (r: Self)
        ensures r.network == network, r.protocol_parameters == protocol_parameters, r.initiated_at == initiated_at, r.sealed_at == sealed_at, r.signers == signers
    { unimplemented!() }
}
impl Certificate {
    /// Certificate::try_new: the fields as given, the hash computed from them (C04 is about that hash; not needed here)
    #[verifier::external_body]
    pub fn try_new(previous_hash: String, epoch: Epoch, metadata: CertificateMetadata, protocol_message: ProtocolMessage,
                   aggregate_verification_key: ProtocolAggregateVerificationKey, signature: CertificateSignature,
                   ancillary_prover_data: AncillaryProverData, ancillary_verifier_data: AncillaryVerifierData) -> (r: Result<Certificate, StdError>)
        ensures r is Ok ==> r->Ok_0.previous_hash@ == previous_hash@ && r->Ok_0.epoch == epoch && r->Ok_0.metadata == metadata
                            && r->Ok_0.protocol_message == protocol_message && r->Ok_0.aggregate_verification_key == aggregate_verification_key
                            && r->Ok_0.signature == signature
    { unimplemented!() }
    #[verifier::external_body]
    pub fn to_owned(&self) -> (r: Certificate) ensures r == *self { unimplemented!() }
}
pub struct Utc {}
impl Utc { #[verifier::external_body] pub fn now() -> DateTime { unimplemented!() } }
#[verifier::external_body] fn protocol_version_string() -> String { unimplemented!() }   // PROTOCOL_VERSION.to_string()
impl StakeDistributionParty { #[verifier::external_body] pub fn from_signers(s: Vec<SignerWithStake>) -> Vec<StakeDistributionParty> { unimplemented!() } }

// ---- open messages ----
pub struct OpenMessageWithSingleSignaturesRecord { pub is_certified: bool, pub is_expired: bool, pub epoch: Epoch, pub protocol_message: ProtocolMessage, pub created_at: DateTime }
pub struct OpenMessageRecord { pub is_certified: bool, pub is_expired: bool, pub epoch: Epoch, pub protocol_message: ProtocolMessage, pub created_at: DateTime }
pub struct OpenMessage { pub is_certified: bool, pub is_expired: bool, pub epoch: Epoch, pub protocol_message: ProtocolMessage, pub created_at: DateTime }
impl Clone for OpenMessageWithSingleSignaturesRecord { #[verifier::external_body] fn clone(&self) -> (r: Self) ensures r == *self { unimplemented!() } }
/// `From<OpenMessageWithSingleSignaturesRecord> for OpenMessage` / `for OpenMessageRecord`: same flags, epoch, protocol message
#[verifier::external_body]
fn open_message_of(r: OpenMessageWithSingleSignaturesRecord) -> (o: OpenMessage)
    ensures o.is_certified == r.is_certified, o.is_expired == r.is_expired, o.epoch == r.epoch, o.protocol_message == r.protocol_message, o.created_at == r.created_at,
            signed_by(&o) == record_signed_by(r)
{ unimplemented!() }
#[verifier::external_body]
fn plain_record_of(r: OpenMessageWithSingleSignaturesRecord) -> (o: OpenMessageRecord)
    ensures o.is_certified == r.is_certified, o.is_expired == r.is_expired, o.epoch == r.epoch, o.protocol_message == r.protocol_message, o.created_at == r.created_at,
            plain_record_source(o) == r
{ unimplemented!() }
pub uninterp spec fn signed_by(o: &OpenMessage) -> PartyIds;
pub uninterp spec fn record_signed_by(r: OpenMessageWithSingleSignaturesRecord) -> PartyIds;
pub uninterp spec fn plain_record_source(o: OpenMessageRecord) -> OpenMessageWithSingleSignaturesRecord;
impl OpenMessage { #[verifier::external_body] pub fn get_signers_id(&self) -> (r: PartyIds) ensures r == signed_by(self) { unimplemented!() } }
impl ProtocolMessage { #[verifier::external_body] pub fn to_message(&self) -> (r: Message) ensures r == message_of(self) { unimplemented!() } }
pub uninterp spec fn message_of(p: &ProtocolMessage) -> Message;

// ---- repositories / services (async trait objects over SQLite): contracts over uninterpreted functions ----
#[verifier::external_body] pub struct OpenMessageRepository { _p: core::marker::PhantomData<u8> }
#[verifier::external_body] pub struct SingleSignatureRepository { _p: core::marker::PhantomData<u8> }
#[verifier::external_body] pub struct CertificateRepository { _p: core::marker::PhantomData<u8> }
#[verifier::external_body] pub struct CertificateVerifier { _p: core::marker::PhantomData<u8> }
#[verifier::external_body] pub struct MultiSigner { _p: core::marker::PhantomData<u8> }
#[verifier::external_body] pub struct EpochService { _p: core::marker::PhantomData<u8> }

pub uninterp spec fn open_message_for(r: &OpenMessageRepository, t: &SignedEntityType) -> Option<OpenMessageWithSingleSignaturesRecord>;
/// update_open_message(record) was called on the repository with this record
pub uninterp spec fn open_message_updated(r: &OpenMessageRepository, rec: OpenMessageRecord) -> bool;
pub uninterp spec fn expired_open_message(r: &OpenMessageRepository, t: &SignedEntityType) -> Option<OpenMessageRecord>;
/// create_open_message(epoch, type, message) was called and returned this record
pub uninterp spec fn open_message_created(r: &OpenMessageRepository, e: Epoch, t: &SignedEntityType, m: &ProtocolMessage, rec: OpenMessageRecord) -> bool;
pub uninterp spec fn master_certificate(r: &CertificateRepository, e: Epoch) -> Option<Certificate>;
pub uninterp spec fn latest_genesis_certificate(r: &CertificateRepository) -> Option<Certificate>;
pub uninterp spec fn latest_certificate(r: &CertificateRepository) -> Option<Certificate>;
/// create_certificate(c) was called on the repository with this certificate
pub uninterp spec fn certificate_stored(r: &CertificateRepository, c: Certificate) -> bool;
/// the verifier's verify_certificate / verify_certificate_chain accepted this certificate (their contracts: C03)
pub uninterp spec fn verifier_accepted(v: &CertificateVerifier, c: &Certificate) -> bool;
pub uninterp spec fn verifier_accepted_chain(v: &CertificateVerifier, c: Certificate) -> bool;
/// some certificate verifier's verify_certificate returned Ok for this certificate (used to order "verified BEFORE stored")
pub uninterp spec fn accepted_before(c: &Certificate) -> bool;
/// the multi-signer's answers (its contracts: C01 / C16)
pub uninterp spec fn multi_signature_for(m: &MultiSigner, o: &OpenMessage, a: AncillaryInput) -> Option<MultiSignatureWithAncillaryData>;
pub uninterp spec fn single_signature_accepted(m: &MultiSigner, msg: Message, s: &SingleSignature) -> bool;
pub uninterp spec fn single_signature_stored(r: &SingleSignatureRepository, s: &SingleSignature, o: OpenMessageRecord) -> bool;
pub uninterp spec fn service_current_signers(s: &EpochService) -> Seq<SignerWithStake>;
pub uninterp spec fn service_current_parameters(s: &EpochService) -> ProtocolParameters;
pub uninterp spec fn service_current_avk(s: &EpochService) -> ProtocolAggregateVerificationKey;
pub uninterp spec fn service_next_signers(s: &EpochService) -> Seq<SignerWithStake>;
pub uninterp spec fn service_next_parameters(s: &EpochService) -> ProtocolParameters;
pub uninterp spec fn service_next_avk(s: &EpochService) -> ProtocolAggregateVerificationKey;
pub uninterp spec fn ancillary_input(genesis: &Certificate, parent: &Certificate) -> AncillaryInput;

pub struct MultiSignatureWithAncillaryData { pub multi_signature: ProtocolMultiSignature, pub ancillary_prover_data: AncillaryProverData, pub ancillary_verifier_data: AncillaryVerifierData }

#[verifier::external_body]
fn open_message_of_plain(r: OpenMessageRecord) -> (o: OpenMessage)
    ensures o.is_certified == r.is_certified, o.is_expired == r.is_expired, o.epoch == r.epoch, o.protocol_message == r.protocol_message, o.created_at == r.created_at
{ unimplemented!() }
#[verifier::external_body]
fn map_open_message_of_plain(r: Option<OpenMessageRecord>) -> (o: Option<OpenMessage>)
    ensures (o is Some) == (r is Some), r is Some ==> o->Some_0.is_expired == r->Some_0.is_expired && o->Some_0.is_certified == r->Some_0.is_certified && o->Some_0.epoch == r->Some_0.epoch
            && o->Some_0.protocol_message == r->Some_0.protocol_message
{ unimplemented!() }
impl OpenMessageRepository {
    #[verifier::external_body]
    pub fn get_expired_open_message(&self, t: &SignedEntityType) -> (r: Result<Option<OpenMessageRecord>, StdError>) ensures r is Ok ==> r->Ok_0 == expired_open_message(self, t) { unimplemented!() }
    #[verifier::external_body]
    pub fn create_open_message(&self, e: Epoch, t: &SignedEntityType, m: &ProtocolMessage) -> (r: Result<OpenMessageRecord, StdError>)
        ensures r is Ok ==> open_message_created(self, e, t, m, r->Ok_0)
    { unimplemented!() }
    #[verifier::external_body]
    pub fn get_open_message_with_single_signatures(&self, t: &SignedEntityType) -> (r: Result<Option<OpenMessageWithSingleSignaturesRecord>, StdError>)
        ensures r is Ok ==> r->Ok_0 == open_message_for(self, t)
    { unimplemented!() }
    #[verifier::external_body]
    pub fn update_open_message(&self, rec: &OpenMessageRecord) -> (r: Result<OpenMessageRecord, StdError>) ensures r is Ok ==> open_message_updated(self, *rec) { unimplemented!() }
}
impl SingleSignatureRepository {
    #[verifier::external_body]
    pub fn create_single_signature(&self, s: &SingleSignature, o: &OpenMessageRecord) -> (r: Result<SingleSignatureRecord, StdError>)
        ensures r is Ok ==> single_signature_stored(self, s, *o)
    { unimplemented!() }
}
impl CertificateRepository {
    #[verifier::external_body]
    pub fn get_master_certificate_for_epoch(&self, e: Epoch) -> (r: Result<Option<Certificate>, StdError>) ensures r is Ok ==> r->Ok_0 == master_certificate(self, e) { unimplemented!() }
    #[verifier::external_body]
    pub fn get_latest_genesis_certificate(&self) -> (r: Result<Option<Certificate>, StdError>) ensures r is Ok ==> r->Ok_0 == latest_genesis_certificate(self) { unimplemented!() }
    #[verifier::external_body]
    /// a certificate may be handed to the repository only AFTER the certificate verifier accepted it
    pub fn create_certificate(&self, c: Certificate) -> (r: Result<Certificate, StdError>)
        requires accepted_before(&c)
        ensures r is Ok ==> r->Ok_0 == c && certificate_stored(self, c)
    { unimplemented!() }
    /// get_latest_certificates(n): the n most recent certificates, most recent first
    #[verifier::external_body]
    pub fn get_latest_certificates(&self, n: usize) -> (r: Result<Vec<Certificate>, StdError>)
        ensures r is Ok && n >= 1 ==> (r->Ok_0@.len() >= 1) == (latest_certificate(self) is Some), r is Ok && n >= 1 && r->Ok_0@.len() >= 1 ==> r->Ok_0@[0] == latest_certificate(self)->Some_0
    { unimplemented!() }
    /// `get_latest_certificates::<Certificate>(1).await?.first()`
    #[verifier::external_body]
    pub fn get_latest_certificate(&self) -> (r: Result<Option<Certificate>, StdError>) ensures r is Ok ==> r->Ok_0 == latest_certificate(self) { unimplemented!() }
}
impl CertificateVerifier {
    #[verifier::external_body]
    pub fn verify_certificate(&self, c: &Certificate) -> (r: Result<Option<Certificate>, StdError>) ensures r is Ok ==> verifier_accepted(self, c) && accepted_before(c) { unimplemented!() }
    #[verifier::external_body]
    pub fn verify_certificate_chain(&self, c: Certificate) -> (r: Result<(), StdError>) ensures r is Ok ==> verifier_accepted_chain(self, c) { unimplemented!() }
}
impl MultiSigner {
    #[verifier::external_body]
    pub fn create_multi_signature(&self, o: &OpenMessage, a: AncillaryInput) -> (r: Result<Option<MultiSignatureWithAncillaryData>, StdError>)
        ensures r is Ok ==> r->Ok_0 == multi_signature_for(self, o, a)
    { unimplemented!() }
    #[verifier::external_body]
    pub fn verify_single_signature(&self, msg: &Message, s: &SingleSignature) -> (r: Result<(), StdError>) ensures r is Ok ==> single_signature_accepted(self, *msg, s) { unimplemented!() }
}
impl EpochService {
    #[verifier::external_body]
    pub fn next_signers_with_stake(&self) -> (r: Result<&Vec<SignerWithStake>, StdError>) ensures r is Ok ==> r->Ok_0@ == service_next_signers(self) { unimplemented!() }
    #[verifier::external_body]
    pub fn next_protocol_parameters(&self) -> (r: Result<&ProtocolParameters, StdError>) ensures r is Ok ==> *r->Ok_0 == service_next_parameters(self) { unimplemented!() }
    #[verifier::external_body]
    pub fn next_aggregate_verification_key(&self) -> (r: Result<&ProtocolAggregateVerificationKey, StdError>) ensures r is Ok ==> *r->Ok_0 == service_next_avk(self) { unimplemented!() }
    #[verifier::external_body]
    pub fn current_signers_with_stake(&self) -> (r: Result<&Vec<SignerWithStake>, StdError>) ensures r is Ok ==> r->Ok_0@ == service_current_signers(self) { unimplemented!() }
    #[verifier::external_body]
    pub fn current_protocol_parameters(&self) -> (r: Result<&ProtocolParameters, StdError>) ensures r is Ok ==> *r->Ok_0 == service_current_parameters(self) { unimplemented!() }
    #[verifier::external_body]
    pub fn current_aggregate_verification_key(&self) -> (r: Result<&ProtocolAggregateVerificationKey, StdError>) ensures r is Ok ==> *r->Ok_0 == service_current_avk(self) { unimplemented!() }
}
#[verifier::external_body]
fn build_ancillary_proof_input(genesis: &Certificate, parent: &Certificate) -> (r: AncillaryInput) ensures r == ancillary_input(genesis, parent) { unimplemented!() }
/// `signers.clone().into_iter().filter(|signer| signer_ids.contains(&signer.party_id)).collect::<Vec<_>>()`
#[verifier::external_body]
fn signers_among(signers: &Vec<SignerWithStake>, ids: &PartyIds) -> Vec<SignerWithStake> { unimplemented!() }
/// `epoch.has_gap_with(&other)` (its contract is proved on the real function: C03 / C20 Kani unit)
impl Epoch {
    #[verifier::external_body]
    pub fn has_gap_with(&self, other: &Epoch) -> (r: bool)
        ensures r == !(self.0 == other.0 || self.0 + 1 == other.0 || other.0 + 1 == self.0)
    { unimplemented!() }
}
pub open spec fn epochs_adjacent_or_equal(a: Epoch, b: Epoch) -> bool { a.0 == b.0 || a.0 + 1 == b.0 || b.0 + 1 == a.0 }

pub struct MithrilCertifierService {
    pub network: CardanoNetwork,
    pub open_message_repository: OpenMessageRepository,
    pub single_signature_repository: SingleSignatureRepository,
    pub certificate_repository: CertificateRepository,
    pub certificate_verifier: CertificateVerifier,
    pub multi_signer: MultiSigner,
    pub epoch_service: EpochService,
}
pub enum SignatureRegistrationStatus { Registered, Buffered }

impl MithrilCertifierService {
// ---- extracted from mithril-aggregator/src/services/certifier/certifier_service.rs:72 (fn get_open_message_record) ----
fn get_open_message_record(
        &self,
        signed_entity_type: &SignedEntityType,
    ) -> (ret: Result<Option<OpenMessageWithSingleSignaturesRecord>, StdError>)
    ensures ret is Ok ==> ret->Ok_0 == open_message_for(&self.open_message_repository, signed_entity_type)
{
        
        let open_message_with_single_signatures = self
            .open_message_repository
            .get_open_message_with_single_signatures(signed_entity_type)?;

        Ok(open_message_with_single_signatures)
    }
// ---- end of extracted text ----

// ---- extracted from mithril-aggregator/src/services/certifier/certifier_service.rs:183 (fn create_open_message) ----
fn create_open_message(
        &self,
        signed_entity_type: &SignedEntityType,
        protocol_message: &ProtocolMessage,
    ) -> (ret: Result<OpenMessage, StdError>)
    ensures ret is Ok ==> exists|rec: OpenMessageRecord| #[trigger] open_message_created(&self.open_message_repository, entity_signing_epoch(signed_entity_type), signed_entity_type, protocol_message, rec)
        && ret->Ok_0.epoch == rec.epoch && ret->Ok_0.protocol_message == rec.protocol_message
{
                let open_message = self
            .open_message_repository
            .create_open_message(
                signed_entity_type.get_epoch_when_signed_entity_type_is_signed(),
                signed_entity_type,
                protocol_message,
            )?;
                
        Ok(open_message_of_plain(open_message))
    }
// ---- end of extracted text ----

// ---- extracted from mithril-aggregator/src/services/certifier/certifier_service.rs:238 (fn mark_open_message_if_expired) ----
fn mark_open_message_if_expired(
        &self,
        signed_entity_type: &SignedEntityType,
    ) -> (ret: Result<Option<OpenMessage>, StdError>)
    ensures ret is Ok ==> ({
        let e = expired_open_message(&self.open_message_repository, signed_entity_type);
        &&& (ret->Ok_0 is Some) == (e is Some)
        // an open message past its deadline is PERSISTED as expired (the stored flag is what later calls read), and reported as such
        &&& e is Some ==> ret->Ok_0->Some_0.is_expired && open_message_updated(&self.open_message_repository, OpenMessageRecord { is_expired: true, ..e->Some_0 })
    }),
{
        
        let mut open_message_record = self
            .open_message_repository
            .get_expired_open_message(signed_entity_type)?;
        if let Some(open_message_record) = open_message_record.as_mut() {
            open_message_record.is_expired = true;
            self.open_message_repository
                .update_open_message(open_message_record)?;
        }

        Ok(map_open_message_of_plain(open_message_record))
    }
// ---- end of extracted text ----

// ---- extracted from mithril-aggregator/src/services/certifier/certifier_service.rs:110 (fn register_single_signature) ----
fn register_single_signature(
        &self,
        signed_entity_type: &SignedEntityType,
        signature: &SingleSignature,
    ) -> (ret: Result<SignatureRegistrationStatus, StdError>)
    ensures ret is Ok ==> ({
        let om = open_message_for(&self.open_message_repository, signed_entity_type);
        &&& om is Some && !om->Some_0.is_certified && !om->Some_0.is_expired
        // accepted by the multi-signer for the open message's protocol message, then stored against that open message
        &&& single_signature_accepted(&self.multi_signer, message_of(&om->Some_0.protocol_message), signature)
        &&& exists|rec: OpenMessageRecord| plain_record_source(rec) == om->Some_0 && single_signature_stored(&self.single_signature_repository, signature, rec)
    }),
{
                
        let open_message = self
            .get_open_message_record(signed_entity_type)?
            .ok_or(StdError {})?;

        if open_message.is_certified {
            
            return Err(StdError {});
        }

        if open_message.is_expired {
            
            return Err(StdError {});
        }

        self.multi_signer
            .verify_single_signature(&open_message.protocol_message.to_message(), signature)?;

        let single_signature = self
            .single_signature_repository
            .create_single_signature(signature, &plain_record_of(open_message.clone()))?;
                
        Ok(SignatureRegistrationStatus::Registered)
    }
// ---- end of extracted text ----

// ---- extracted from mithril-aggregator/src/services/certifier/certifier_service.rs:260 (fn create_certificate) ----
fn create_certificate(
        &self,
        signed_entity_type: &SignedEntityType,
    ) -> (ret: Result<Option<Certificate>, StdError>)
    ensures ret is Ok && ret->Ok_0 is Some ==> ({
        let c = ret->Ok_0->Some_0;
        let om = open_message_for(&self.open_message_repository, signed_entity_type);
        // sealed only for an existing open message that is neither certified nor expired ...
        &&& om is Some && !om->Some_0.is_certified && !om->Some_0.is_expired
        // ... for exactly that open message: epoch, protocol message, signed entity type
        &&& c.epoch == om->Some_0.epoch && c.protocol_message == om->Some_0.protocol_message
        // linked to the repository's master certificate of that epoch
        &&& master_certificate(&self.certificate_repository, om->Some_0.epoch) is Some
        &&& c.previous_hash@ == master_certificate(&self.certificate_repository, om->Some_0.epoch)->Some_0.hash@
        // carries the aggregate key and parameters the epoch service holds as current
        &&& c.aggregate_verification_key == service_current_avk(&self.epoch_service)
        &&& c.metadata.protocol_parameters == service_current_parameters(&self.epoch_service)
        // signed by the multi-signature the multi-signer produced for that open message
        &&& exists|o: OpenMessage, a: AncillaryInput| signed_by(&o) == record_signed_by(om->Some_0) && o.protocol_message == om->Some_0.protocol_message && o.epoch == om->Some_0.epoch
                && #[trigger] multi_signature_for(&self.multi_signer, &o, a) is Some
                && c.signature == CertificateSignature::MultiSignature(*signed_entity_type, multi_signature_for(&self.multi_signer, &o, a)->Some_0.multi_signature)
        // accepted by the certificate verifier, and what is returned is what was stored
        &&& verifier_accepted(&self.certificate_verifier, &c) && certificate_stored(&self.certificate_repository, c)
        // the open message is marked certified afterwards
        &&& exists|rec: OpenMessageRecord| #[trigger] open_message_updated(&self.open_message_repository, rec) && rec.is_certified && plain_record_source(OpenMessageRecord { is_certified: om->Some_0.is_certified, ..rec }) == om->Some_0
    }),
{
                let open_message_record = self
            .get_open_message_record(signed_entity_type)
            ?
            .ok_or(StdError {})?;
        let open_message: OpenMessage = open_message_of(open_message_record.clone());

        if open_message.is_certified {
            
            return Err(StdError {});
        }

        if open_message.is_expired {
            
            return Err(StdError {});
        }

        let parent_certificate = self
            .certificate_repository
            .get_master_certificate_for_epoch(open_message.epoch)?
            .ok_or(StdError {})?;
        let genesis_certificate = self
            .certificate_repository
            .get_latest_genesis_certificate()?
            .ok_or(StdError {})?;
        let ancillary_input = build_ancillary_proof_input(
            &genesis_certificate,
            &parent_certificate,
            
            
        );

        let MultiSignatureWithAncillaryData {
            multi_signature,
            ancillary_prover_data,
            ancillary_verifier_data,
        } = match self
            .multi_signer
            .create_multi_signature(&open_message, ancillary_input)
            ?
        {
            None => {
                                return Ok(None);
            }
            Some(multi_signature_with_ancillary_data) => {
                                multi_signature_with_ancillary_data
            }
        };

        let epoch_service = &self.epoch_service;
        let signer_ids = open_message.get_signers_id();
        let signers = signers_among(epoch_service.current_signers_with_stake()?, &signer_ids);

        let protocol_version = protocol_version_string();
        let initiated_at = open_message.created_at;
        let sealed_at = Utc::now();
        let metadata = CertificateMetadata::new(
            self.network,
            protocol_version,
            epoch_service.current_protocol_parameters()?.clone(),
            initiated_at,
            sealed_at,
            StakeDistributionParty::from_signers(signers),
        );
        let parent_certificate_hash = parent_certificate.hash;

        let certificate = Certificate::try_new(
            parent_certificate_hash,
            open_message.epoch,
            metadata,
            open_message.protocol_message.clone(),
            epoch_service.current_aggregate_verification_key()?.clone(),
            CertificateSignature::MultiSignature(signed_entity_type.clone(), multi_signature),
            ancillary_prover_data,
            ancillary_verifier_data,
        )?;

        self.certificate_verifier
            .verify_certificate(&certificate)?;

        let certificate = self
            .certificate_repository
            .create_certificate(certificate)?;

        let mut open_message_certified: OpenMessageRecord = plain_record_of(open_message_record);
        open_message_certified.is_certified = true;
        self.open_message_repository
            .update_open_message(&open_message_certified)
            ?;

        Ok(Some(certificate))
    }
// ---- end of extracted text ----

// ---- extracted from mithril-aggregator/src/services/certifier/certifier_service.rs:422 (fn verify_certificate_chain) ----
fn verify_certificate_chain(&self, epoch: Epoch) -> (ret: Result<(), StdError>)
    requires epoch.0 < u64::MAX
    ensures ret is Ok ==> ({
        let latest = latest_certificate(&self.certificate_repository);
        &&& latest is Some && (latest->Some_0.epoch.0 < u64::MAX ==> epochs_adjacent_or_equal(epoch, latest->Some_0.epoch))
        &&& verifier_accepted_chain(&self.certificate_verifier, latest->Some_0)
    }),
{
        if let Some(certificate) = self.certificate_repository.get_latest_certificate()?
        {
            if epoch.has_gap_with(&certificate.epoch) {
                return Err(StdError {});
            }

            self.certificate_verifier
                .verify_certificate_chain(certificate.to_owned())?;

            Ok(())
        } else {
            Err(StdError {})
        }
    }
// ---- end of extracted text ----
}

} // verus!
fn main() {}

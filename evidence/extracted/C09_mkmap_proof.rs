// C11 / C09 (generic tree) — Verus on the working tree's text of `MKMapProof::verify` / `compute_root`
// (internal/mithril-merkle-tree/src/merkle_map.rs): the linking rule between a merkelized-map proof and its sub-proofs, which the
// C11 `proofs` unit uses as the callee contract `proof_valid`. ckb-merkle-mountain-range behind `MKProof::verify` and the leaf
// scan of `MKProof::contains` are callee contracts (uninterpreted `mkproof_valid` / `mkproof_has_leaf`).
//
// The function is recursive over the proof's nesting. The recursive call is verified modularly: it is replaced by a call of a
// stub carrying THE SAME contract for the sub-proof (`mkmap_valid(sub)`, the induction hypothesis), and the obligation is that
// the function's own Ok establishes the one-step unfolding of `mkmap_valid` for `self` (`mkmap_valid_unfolded`). Proofs are
// finite trees, so by induction over the nesting depth Ok ==> mkmap_valid at every level. Partial correctness (termination is
// not proved).
use vstd::prelude::*;
verus! {

#[verifier::external_body] pub struct MKTreeNode { _p: core::marker::PhantomData<u8> }
#[verifier::external_body] pub struct MKProof { _p: core::marker::PhantomData<u8> }
#[verifier::external_body] pub struct Key { _p: core::marker::PhantomData<u8> }      // K: MKMapKey (BlockRange in production)
pub struct StdError {}

pub uninterp spec fn mkproof_valid(p: &MKProof) -> bool;                      // ckb MerkleProof::verify(root, leaves) == Ok(true)
pub uninterp spec fn mkproof_has_leaf(p: &MKProof, n: MKTreeNode) -> bool;    // n is one of the proof's inner_leaves
pub uninterp spec fn mkproof_root(p: &MKProof) -> MKTreeNode;                 // inner_root
pub uninterp spec fn link_node(k: Key, sub_root: MKTreeNode) -> MKTreeNode;   // `k.into() + sub_root`: the leaf a (key, sub-map) pair has in the master tree
pub uninterp spec fn mkmap_valid(p: &MKMapProof) -> bool;                     // induction hypothesis: contract of verify() on a sub-proof

pub struct MKMapProof { pub master_proof: MKProof, pub sub_proofs: Vec<(Key, MKMapProof)> }

/// one-step unfolding: the master proof is valid, every sub-proof is valid, and EVERY (key, sub-proof) pair is attached - the
/// node `key + root(sub-proof)` is a leaf proven by the master proof (no detached sub-proof, none skipped)
pub open spec fn mkmap_valid_unfolded(p: &MKMapProof) -> bool {
    mkproof_valid(&p.master_proof)
    && (forall|i: int| 0 <= i < p.sub_proofs@.len() ==> mkmap_valid(&(#[trigger] p.sub_proofs@[i]).1))
    && (forall|i: int| 0 <= i < p.sub_proofs@.len() ==>
            mkproof_has_leaf(&p.master_proof, link_node((#[trigger] p.sub_proofs@[i]).0, mkproof_root(&p.sub_proofs@[i].1.master_proof))))
}

impl MKProof {
    #[verifier::external_body]
    pub fn verify(&self) -> (r: Result<(), StdError>) ensures r is Ok ==> mkproof_valid(self) { unimplemented!() }
    /// contract of MKProof::contains: Ok ==> every listed node is one of the proof's leaves
    #[verifier::external_body]
    pub fn contains(&self, leaves: &Vec<MKTreeNode>) -> (r: Result<(), StdError>)
        ensures r is Ok ==> forall|i: int| 0 <= i < leaves@.len() ==> mkproof_has_leaf(self, #[trigger] leaves@[i])
    { unimplemented!() }
    #[verifier::external_body]
    pub fn root(&self) -> (r: &MKTreeNode) ensures *r == mkproof_root(self) { unimplemented!() }
}
impl MKTreeNode {
    #[verifier::external_body]
    pub fn to_owned(&self) -> (r: MKTreeNode) ensures r == *self { unimplemented!() }
}

/// the recursive call `proof.verify()` on a sub-proof (same contract as the function under proof, for the smaller proof)
#[verifier::external_body]
fn verify_sub_proof(p: &MKMapProof) -> (r: Result<(), StdError>) ensures r is Ok ==> mkmap_valid(p) { unimplemented!() }

/// contract of `sub_proofs.iter().map(|(k, p)| k.to_owned().into() + p.compute_root().to_owned()).collect::<Vec<_>>()`:
/// one node per pair, in order: the pair's key combined with the root `compute_root` returns for the pair's sub-proof
#[verifier::external_body]
fn link_nodes(sub_proofs: &Vec<(Key, MKMapProof)>) -> (r: Vec<MKTreeNode>)
    ensures r@.len() == sub_proofs@.len(),
            forall|i: int| 0 <= i < r@.len() ==> r@[i] == link_node((#[trigger] sub_proofs@[i]).0, compute_root_spec(&sub_proofs@[i].1))
{ unimplemented!() }

/// what `MKMapProof::compute_root` returns (proved on its extracted text below)
pub open spec fn compute_root_spec(p: &MKMapProof) -> MKTreeNode { mkproof_root(&p.master_proof) }

impl MKMapProof {
// ---- extracted from internal/mithril-merkle-tree/src/merkle_map.rs:299 (fn compute_root) ----
fn compute_root(&self) -> (ret: MKTreeNode)
    ensures ret == compute_root_spec(self)
{
        self.master_proof.root().to_owned()
    }
// ---- end of extracted text ----

// ---- extracted from internal/mithril-merkle-tree/src/merkle_map.rs:304 (fn verify) ----
fn verify(&self) -> (ret: Result<(), StdError>)
    ensures ret is Ok ==> mkmap_valid_unfolded(self)
{
        for verif_e in it: self.sub_proofs.iter() 
        invariant 0 <= it.index@, forall|i: int| 0 <= i < it.index@ ==> mkmap_valid(&(#[trigger] self.sub_proofs@[i]).1),
    { let verif_sub = &verif_e.1;
            verify_sub_proof(verif_sub)?;
        }

        self.master_proof
            .verify()?;
        if !self.sub_proofs.is_empty() {
            self.master_proof
                .contains(
                    &link_nodes(&self.sub_proofs)
                )?;
        }

        Ok(())
    }
// ---- end of extracted text ----
}

} // verus!
fn main() {}

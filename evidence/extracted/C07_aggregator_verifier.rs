// C07 — aggregator side: MithrilSignerRegistrationVerifier::verify (mithril-aggregator services/signer_registration/verifier.rs)
// on the working tree's text: the registration request handed to KeyRegWrapper::register is built from the registrant's own
// material with the KES evolutions derived from the chain's current KES period; the party id and the stake recorded for the
// signer are the ones the registration returned / the stake distribution holds - never values supplied by the registrant.
use vstd::prelude::*;
verus! {

pub type Stake = u64;
pub type PartyId = String;
#[verifier::external_body] #[derive(Clone, Copy)] pub struct KeyBytes { _p: core::marker::PhantomData<u8> }
#[verifier::external_body] #[derive(Clone, Copy)] pub struct KesSigWrapper { _p: core::marker::PhantomData<u8> }
#[verifier::external_body] pub struct ProtocolOpCert { _p: core::marker::PhantomData<u8> }
#[derive(Clone, Copy)] pub struct KesEvolutions(pub u64);
#[derive(Clone, Copy)] pub struct KesPeriod(pub u64);
#[verifier::external_body] pub struct StakeDistribution { _p: core::marker::PhantomData<u8> }
#[verifier::external_body] pub struct ChainObserver { _p: core::marker::PhantomData<u8> }
#[verifier::external_body] pub struct StakePairs { _p: core::marker::PhantomData<u8> }
pub struct StdError {}

pub struct Signer {
    pub party_id: PartyId,
    pub verification_key_for_concatenation: KeyBytes,
    pub verification_key_signature_for_concatenation: Option<KesSigWrapper>,
    pub operational_certificate: Option<ProtocolOpCert>,
    pub kes_evolutions: Option<KesEvolutions>,
}
pub struct SignerWithStake {
    pub party_id: PartyId,
    pub verification_key_for_concatenation: KeyBytes,
    pub verification_key_signature_for_concatenation: Option<KesSigWrapper>,
    pub operational_certificate: Option<ProtocolOpCert>,
    pub kes_evolutions: Option<KesEvolutions>,
    pub stake: Stake,
}
pub struct SignerRegistrationParameters {
    pub party_id: Option<PartyId>,
    pub operational_certificate: Option<ProtocolOpCert>,
    pub verification_key_for_concatenation: KeyBytes,
    pub verification_key_signature_for_concatenation: Option<KesSigWrapper>,
    pub kes_evolutions: Option<KesEvolutions>,
}

/// a registration request up to string views
pub struct ReqView {
    pub party_id: Option<Seq<char>>,
    pub operational_certificate: Option<ProtocolOpCert>,
    pub verification_key_for_concatenation: KeyBytes,
    pub verification_key_signature_for_concatenation: Option<KesSigWrapper>,
    pub kes_evolutions: Option<KesEvolutions>,
}
pub open spec fn req_view(r: SignerRegistrationParameters) -> ReqView {
    ReqView {
        party_id: if r.party_id is Some { Some(r.party_id->Some_0@) } else { None },
        operational_certificate: r.operational_certificate,
        verification_key_for_concatenation: r.verification_key_for_concatenation,
        verification_key_signature_for_concatenation: r.verification_key_signature_for_concatenation,
        kes_evolutions: r.kes_evolutions,
    }
}

pub uninterp spec fn stake_map(d: &StakeDistribution) -> Map<Seq<char>, Stake>;
pub uninterp spec fn pairs_map(p: &StakePairs) -> Map<Seq<char>, Stake>;
pub uninterp spec fn current_kes_period(c: &ChainObserver) -> Option<KesPeriod>;
pub uninterp spec fn start_kes_period(o: &ProtocolOpCert) -> KesPeriod;
pub open spec fn evolutions_between(current: KesPeriod, start: KesPeriod) -> KesEvolutions { KesEvolutions(if current.0 >= start.0 { (current.0 - start.0) as u64 } else { 0 }) }

impl Clone for ProtocolOpCert { #[verifier::external_body] fn clone(&self) -> (r: Self) ensures r == *self { unimplemented!() } }
impl ProtocolOpCert {
    #[verifier::external_body]
    pub fn get_start_kes_period(&self) -> (r: KesPeriod) ensures r == start_kes_period(self) { unimplemented!() }
}
impl ChainObserver {
    #[verifier::external_body]
    pub fn get_current_kes_period(&self) -> (r: Result<Option<KesPeriod>, StdError>) ensures r is Ok ==> r->Ok_0 == current_kes_period(self) { unimplemented!() }
}
/// `Option<KesPeriod>::unwrap_or_default() - KesPeriod` (saturating Sub of the u64 newtype -> KesEvolutions)
#[verifier::external_body]
fn kes_period_sub(current: Option<KesPeriod>, start: KesPeriod) -> (r: KesEvolutions)
    ensures r == evolutions_between(if current is Some { current->Some_0 } else { KesPeriod(0) }, start)
{ unimplemented!() }
/// contract of `stake_distribution.iter().map(|(k, v)| (k.to_owned(), *v)).collect::<Vec<_>>()`
#[verifier::external_body]
fn stake_pairs(d: &StakeDistribution) -> (r: StakePairs) ensures pairs_map(&r) == stake_map(d) { unimplemented!() }
/// contract of `match signer.party_id.as_str() { "" => None, party_id => Some(party_id.to_string()) }`
#[verifier::external_body]
fn claimed_party_id(s: &String) -> (r: Option<String>)
    ensures (r is None) == (s@.len() == 0), r is Some ==> r->Some_0@ == s@
{ unimplemented!() }
#[verifier::external_body]
fn clone_opt_opcert(s: &Option<ProtocolOpCert>) -> (r: Option<ProtocolOpCert>) ensures r == *s { s.clone() }
#[verifier::external_body]
fn clone_opt_string(s: &Option<String>) -> (r: Option<String>) ensures (r is Some) == (s is Some), r is Some ==> r->Some_0@ == s->Some_0@ { s.clone() }
impl StakeDistribution {
    #[verifier::external_body]
    pub fn get(&self, id: &PartyId) -> (r: Option<&Stake>)
        ensures (r is Some) == stake_map(self).dom().contains(id@), r is Some ==> *r->Some_0 == stake_map(self)[id@]
    { unimplemented!() }
}

#[verifier::external_body] pub struct ProtocolKeyRegistration { _p: core::marker::PhantomData<u8> }
pub uninterp spec fn reg_stakes(k: &ProtocolKeyRegistration) -> Map<Seq<char>, Stake>;
/// KeyRegWrapper::register accepted this request and returned this party id (its own contract: C07 unit registration)
pub uninterp spec fn registration_accepted(stakes: Map<Seq<char>, Stake>, request: ReqView, id: Seq<char>) -> bool;
impl ProtocolKeyRegistration {
    #[verifier::external_body]
    pub fn init(stake_dist: &StakePairs) -> (r: Self) ensures reg_stakes(&r) == pairs_map(stake_dist) { unimplemented!() }
    #[verifier::external_body]
    pub fn register(&mut self, parameters: SignerRegistrationParameters) -> (r: Result<PartyId, StdError>)
        ensures r is Ok ==> registration_accepted(reg_stakes(old(self)), req_view(parameters), r->Ok_0@)
    { unimplemented!() }
}

impl SignerWithStake {
    #[verifier::external_body]
    pub fn from_signer(signer: Signer, stake: Stake) -> (r: Self)
        ensures r.party_id@ == signer.party_id@, r.verification_key_for_concatenation == signer.verification_key_for_concatenation,
                r.verification_key_signature_for_concatenation == signer.verification_key_signature_for_concatenation,
                r.operational_certificate == signer.operational_certificate, r.kes_evolutions == signer.kes_evolutions, r.stake == stake
    { unimplemented!() }
}
impl Signer {
    #[verifier::external_body]
    pub fn to_owned(&self) -> (r: Signer) ensures r == *self { unimplemented!() }
}

pub struct MithrilSignerRegistrationVerifier { pub chain_observer: ChainObserver }

/// the request that must have been accepted: the registrant's own key, key signature and certificate, the claimed party id
/// (only used when signer certification is skipped), and KES evolutions = chain's current KES period - certificate start
pub open spec fn expected_request(v: &MithrilSignerRegistrationVerifier, s: &Signer) -> ReqView {
    ReqView {
        party_id: if s.party_id@.len() == 0 { None } else { Some(s.party_id@) },
        operational_certificate: s.operational_certificate,
        verification_key_for_concatenation: s.verification_key_for_concatenation,
        verification_key_signature_for_concatenation: s.verification_key_signature_for_concatenation,
        kes_evolutions: if s.operational_certificate is Some {
            Some(evolutions_between(if current_kes_period(&v.chain_observer) is Some { current_kes_period(&v.chain_observer)->Some_0 } else { KesPeriod(0) },
                                    start_kes_period(&s.operational_certificate->Some_0)))
        } else { None },
    }
}

impl MithrilSignerRegistrationVerifier {
// ---- extracted from mithril-aggregator/src/services/signer_registration/verifier.rs:30 (fn verify) ----
fn verify(
        &self,
        signer: &Signer,
        stake_distribution: &StakeDistribution,
    ) -> (ret: Result<SignerWithStake, StdError>)
    ensures ret is Ok ==> ({
        let r = ret->Ok_0;
        // a registration request built from the registrant's own material was accepted against the round's stake distribution
        &&& registration_accepted(stake_map(stake_distribution), expected_request(self, signer), r.party_id@)
        // the stake recorded is the distribution's value for the REGISTERED party id, the key is the registrant's key
        &&& stake_map(stake_distribution).dom().contains(r.party_id@) && r.stake == stake_map(stake_distribution)[r.party_id@]
        &&& r.verification_key_for_concatenation == signer.verification_key_for_concatenation
        &&& r.operational_certificate == signer.operational_certificate
    }),
{
        let mut key_registration = ProtocolKeyRegistration::init(
            &stake_pairs(stake_distribution),
        );
        let party_id_register = claimed_party_id(&signer.party_id);
        let kes_evolutions = match &signer.operational_certificate {
            Some(operational_certificate) => Some(
                kes_period_sub(self.chain_observer.get_current_kes_period()?, operational_certificate.get_start_kes_period()),
            ),
            None => None,
        };
        let party_id_registered = key_registration
            .register(SignerRegistrationParameters {
                party_id: clone_opt_string(&party_id_register),
                operational_certificate: clone_opt_opcert(&signer.operational_certificate),
                verification_key_signature_for_concatenation: signer
                    .verification_key_signature_for_concatenation,
                kes_evolutions,
                verification_key_for_concatenation: signer.verification_key_for_concatenation,
                
                
            })?;
        let party_id_registered_stake = match stake_distribution.get(&party_id_registered) { Some(verif_s) => *verif_s, None => { return Err(StdError {}); } };

        Ok(SignerWithStake {
            party_id: party_id_registered,
            ..SignerWithStake::from_signer(signer.to_owned(), party_id_registered_stake)
        })
    }
// ---- end of extracted text ----
}

} // verus!
fn main() {}

// C17 — Verus file assembled on every run from the working tree's text of the beacon functions
// (see lib/verus.py for the extraction rules). Types and operators are declared here with the contracts that
// Kani discharges on the real impls (contracts/mithril-common/c17_signed_entity_config.rs):
//   c17_op_sub_offset_is_saturating, c17_op_sub_u64_is_saturating, c17_op_div_characterised,
//   c17_op_mul_exact_when_no_overflow, c17_op_add_exact_when_no_overflow, c17_op_max_and_ge,
//   c17_block_range_from_block_number_start_end
use vstd::prelude::*;
use vstd::arithmetic::div_mod::*;
use vstd::arithmetic::mul::*;
use std::ops::{Add, Div, Mul, Sub};
use std::cmp::Ordering;
use vstd::std_specs::cmp::OrdSpec;

verus! {

#[derive(Clone, Copy)]
pub struct BlockNumber(pub u64);
#[derive(Clone, Copy)]
pub struct BlockNumberOffset(pub u64);
pub type BlockRangeLength = BlockNumber;

pub open spec fn sat_sub(a: u64, b: u64) -> u64 { if a >= b { (a - b) as u64 } else { 0 } }

// ---- operator contracts (assumed here, proved by Kani on the real macro-generated impls) ----------------
impl vstd::std_specs::ops::SubSpecImpl<BlockNumberOffset> for BlockNumber {
    open spec fn obeys_sub_spec() -> bool { true }
    open spec fn sub_req(self, rhs: BlockNumberOffset) -> bool { true }
    open spec fn sub_spec(self, rhs: BlockNumberOffset) -> BlockNumber { BlockNumber(sat_sub(self.0, rhs.0)) }
}
impl Sub<BlockNumberOffset> for BlockNumber {
    type Output = Self;
    #[verifier::external_body]
    fn sub(self, rhs: BlockNumberOffset) -> Self { BlockNumber(self.0.saturating_sub(rhs.0)) }
}
impl vstd::std_specs::ops::SubSpecImpl<u64> for BlockNumber {
    open spec fn obeys_sub_spec() -> bool { true }
    open spec fn sub_req(self, rhs: u64) -> bool { true }
    open spec fn sub_spec(self, rhs: u64) -> BlockNumber { BlockNumber(sat_sub(self.0, rhs)) }
}
impl Sub<u64> for BlockNumber {
    type Output = Self;
    #[verifier::external_body]
    fn sub(self, rhs: u64) -> Self { BlockNumber(self.0.saturating_sub(rhs)) }
}
impl vstd::std_specs::ops::DivSpecImpl<BlockNumber> for BlockNumber {
    open spec fn obeys_div_spec() -> bool { true }
    open spec fn div_req(self, rhs: BlockNumber) -> bool { rhs.0 != 0 }
    // Kani proves q*b <= a < q*b + b on the real impl; lemma_div_characterised_is_div below shows that this is a / b
    open spec fn div_spec(self, rhs: BlockNumber) -> BlockNumber { BlockNumber(self.0 / rhs.0) }
}
impl Div for BlockNumber {
    type Output = Self;
    #[verifier::external_body]
    fn div(self, rhs: Self) -> Self { BlockNumber(self.0 / rhs.0) }
}
impl vstd::std_specs::ops::MulSpecImpl<BlockNumber> for BlockNumber {
    open spec fn obeys_mul_spec() -> bool { true }
    // the real impl is a plain `*`: overflow panics (debug) or wraps (release); the caller must exclude it
    open spec fn mul_req(self, rhs: BlockNumber) -> bool { self.0 * rhs.0 <= u64::MAX }
    open spec fn mul_spec(self, rhs: BlockNumber) -> BlockNumber { BlockNumber((self.0 * rhs.0) as u64) }
}
impl Mul for BlockNumber {
    type Output = Self;
    #[verifier::external_body]
    fn mul(self, rhs: Self) -> Self { BlockNumber(self.0 * rhs.0) }
}
impl vstd::std_specs::ops::AddSpecImpl<BlockNumber> for BlockNumber {
    open spec fn obeys_add_spec() -> bool { true }
    open spec fn add_req(self, rhs: BlockNumber) -> bool { self.0 + rhs.0 <= u64::MAX }
    open spec fn add_spec(self, rhs: BlockNumber) -> BlockNumber { BlockNumber((self.0 + rhs.0) as u64) }
}
impl Add for BlockNumber {
    type Output = Self;
    #[verifier::external_body]
    fn add(self, rhs: Self) -> Self { BlockNumber(self.0 + rhs.0) }
}

// derived PartialEq / PartialOrd / Ord of the u64 newtype (Kani: c17_op_max_and_ge on the real derives)
pub open spec fn u64_cmp(a: u64, b: u64) -> Ordering {
    if a < b { Ordering::Less } else if a == b { Ordering::Equal } else { Ordering::Greater }
}
impl vstd::std_specs::cmp::PartialEqSpecImpl for BlockNumber {
    open spec fn obeys_eq_spec() -> bool { true }
    open spec fn eq_spec(&self, other: &BlockNumber) -> bool { self.0 == other.0 }
}
impl PartialEq for BlockNumber {
    #[verifier::external_body]
    fn eq(&self, other: &Self) -> bool { self.0 == other.0 }
}
impl Eq for BlockNumber {}
impl vstd::std_specs::cmp::PartialOrdSpecImpl for BlockNumber {
    open spec fn obeys_partial_cmp_spec() -> bool { true }
    open spec fn partial_cmp_spec(&self, other: &BlockNumber) -> Option<Ordering> { Some(u64_cmp(self.0, other.0)) }
}
impl PartialOrd for BlockNumber {
    #[verifier::external_body]
    fn partial_cmp(&self, other: &Self) -> Option<Ordering> { self.0.partial_cmp(&other.0) }
}
impl vstd::std_specs::cmp::OrdSpecImpl for BlockNumber {
    open spec fn obeys_cmp_spec() -> bool { true }
    open spec fn cmp_spec(&self, other: &BlockNumber) -> Ordering { u64_cmp(self.0, other.0) }
}
impl Ord for BlockNumber {
    #[verifier::external_body]
    fn cmp(&self, other: &Self) -> Ordering { self.0.cmp(&other.0) }
}
/// std semantics of `max` (core::cmp::max_by: the second argument unless the first is Greater)
pub assume_specification<T: std::cmp::Ord>[std::cmp::max](a: T, b: T) -> (r: T)
    ensures T::obeys_cmp_spec() ==> r == (if a.cmp_spec(&b) == Ordering::Greater { a } else { b });

proof fn lemma_div_characterised_is_div(a: int, b: int, q: int)
    requires b > 0, a >= 0, q * b <= a, a - q * b < b,
    ensures q == a / b,
{
    lemma_fundamental_div_mod_converse(a, b, q, a - q * b);
}

// ---- mathematical specification taken from the property statement ---------------------------------------
/// largest multiple of s that is <= x
pub open spec fn floor_to(x: int, s: int) -> int { (x / s) * s }

pub open spec fn blocks_step(step: u64) -> int { if step >= 1 { step as int } else { 1 } }

pub open spec fn tx_step(step: u64) -> int {
    let a = (step as int / 15) * 15;
    if a >= 15 { a } else { 15 }
}

/// blocks entity: the beacon for (tip, security, step)
pub open spec fn blocks_beacon(tip: u64, sec: u64, step: u64) -> int {
    floor_to(sat_sub(tip, sec) as int, blocks_step(step))
}

/// transactions entity
pub open spec fn tx_beacon(tip: u64, sec: u64, step: u64) -> int {
    let m = floor_to(sat_sub(tip, sec) as int, tx_step(step));
    if m >= 1 { m - 1 } else { 0 }
}

proof fn lemma_floor_to(x: int, s: int)
    requires x >= 0, s > 0,
    ensures 0 <= floor_to(x, s) <= x, x - floor_to(x, s) < s, floor_to(x, s) % s == 0,
{
    lemma_fundamental_div_mod(x, s);
    lemma_mod_pos_bound(x, s);
    lemma_mul_is_commutative(x / s, s);
    lemma_mod_multiples_basic(x / s, s);
    lemma_div_pos_is_pos(x, s);
    lemma_mul_nonnegative(x / s, s);
}

proof fn lemma_floor_to_monotone(x1: int, x2: int, s: int)
    requires 0 <= x1 <= x2, s > 0,
    ensures floor_to(x1, s) <= floor_to(x2, s),
{
    lemma_div_is_ordered(x1, x2, s);
    lemma_mul_inequality(x1 / s, x2 / s, s);
}

// ---- C17 clause 4: the beacon never decreases as the tip advances (same configuration) --------------------
proof fn c17_blocks_monotone(tip1: u64, tip2: u64, sec: u64, step: u64)
    requires tip1 <= tip2,
    ensures blocks_beacon(tip1, sec, step) <= blocks_beacon(tip2, sec, step),
{
    lemma_floor_to_monotone(sat_sub(tip1, sec) as int, sat_sub(tip2, sec) as int, blocks_step(step));
}

proof fn c17_tx_monotone(tip1: u64, tip2: u64, sec: u64, step: u64)
    requires tip1 <= tip2,
    ensures tx_beacon(tip1, sec, step) <= tx_beacon(tip2, sec, step),
{
    lemma_floor_to_monotone(sat_sub(tip1, sec) as int, sat_sub(tip2, sec) as int, tx_step(step));
}

// ---- C17 clauses 1-3 for the specification (so that `ret == spec` carries them to the code) -----------------
proof fn c17_blocks_spec_clauses(tip: u64, sec: u64, step: u64)
    ensures
        0 <= blocks_beacon(tip, sec, step) <= sat_sub(tip, sec),                 // security margin
        blocks_beacon(tip, sec, step) % blocks_step(step) == 0,                   // whole steps
{
    lemma_floor_to(sat_sub(tip, sec) as int, blocks_step(step));
}

proof fn lemma_tx_step(step: u64)
    ensures tx_step(step) >= 15, tx_step(step) % 15 == 0, tx_step(step) <= u64::MAX,
{
    lemma_floor_to(step as int, 15);
}

proof fn c17_tx_spec_clauses(tip: u64, sec: u64, step: u64)
    ensures
        0 <= tx_beacon(tip, sec, step) <= sat_sub(tip, sec),                                      // security margin
        (tx_beacon(tip, sec, step) + 1) % tx_step(step) == 0 || tx_beacon(tip, sec, step) == 0,     // whole steps
        // once the first signing step lies behind the margin the beacon is the last block of a complete block range
        sat_sub(tip, sec) >= tx_step(step) ==> (tx_beacon(tip, sec, step) + 1) % 15 == 0 && tx_beacon(tip, sec, step) + 1 >= 15,
{
    let x = sat_sub(tip, sec) as int;
    let s = tx_step(step);
    lemma_tx_step(step);
    lemma_floor_to(x, s);
    let m = floor_to(x, s);
    if x >= s {
        // m >= s: x / s >= 1
        lemma_div_is_ordered(s, x, s);
        lemma_div_basics(s);
        lemma_mul_inequality(1, x / s, s);
        assert(m >= s);
        // 15 | s and s | m  ==>  15 | m
        lemma_fundamental_div_mod(s, 15);
        lemma_mul_is_associative(x / s, s / 15, 15);
        lemma_mul_is_commutative(s / 15, 15);
        assert(m == (x / s) * ((s / 15) * 15)) by { lemma_mul_is_commutative(15, s / 15); }
        assert(m == ((x / s) * (s / 15)) * 15);
        lemma_mod_multiples_basic((x / s) * (s / 15), 15);
    }
}

// ---- the real functions -------------------------------------------------------------------------------
pub struct BlockRange {
    // stands for the real type's Deref<Target = Range<BlockNumber>> (fields `start` / `end`)
    pub start: BlockNumber,
    pub end: BlockNumber,
}

impl BlockRange {
    pub const LENGTH: BlockRangeLength = BlockNumber(15);

// ---- extracted from mithril-common/src/entities/block_range.rs:80 (fn start_with_length) ----
fn start_with_length(number: BlockNumber, length: BlockRangeLength) -> (ret: BlockNumber)
    requires length.0 != 0
    ensures ret.0 == floor_to(number.0 as int, length.0 as int)
{
        proof { lemma_floor_to(number.0 as int, length.0 as int); }
        // the formula used to compute the lower bound of the block range is `⌊number / length⌋ * length`
        // the computation of the floor is done with the integer division `/` of rust
        (number / length) * length
    }
// ---- end of extracted text ----

// ---- extracted from mithril-common/src/entities/block_range.rs:31 (fn start) ----
fn start(number: BlockNumber) -> (ret: BlockNumber)
    ensures ret.0 == floor_to(number.0 as int, 15)
{
        Self::start_with_length(number, Self::LENGTH)
    }
// ---- end of extracted text ----

// ---- extracted from mithril-common/src/entities/block_range.rs:54 (fn is_fully_covered_at) ----
fn is_fully_covered_at(&self, block_number: BlockNumber) -> (ret: bool)
    ensures ret == (block_number.0 >= sat_sub(self.end.0, 1))
{
        block_number >= self.end - 1
    }
// ---- end of extracted text ----

    /// Contract of the real `from_block_number` (goes through StdResult / Range / unwrap, not extracted);
    /// Kani: c17_block_range_from_block_number_start_end
    #[verifier::external_body]
    pub fn from_block_number(number: BlockNumber) -> (r: Self)
        requires floor_to(number.0 as int, 15) + 15 <= u64::MAX,
        ensures r.start.0 == floor_to(number.0 as int, 15), r.end.0 == r.start.0 + 15,
    { unimplemented!() }
}

// ---- extracted from mithril-common/src/entities/signed_entity_config.rs:190 (fn compute_block_number_to_be_signed) ----
fn compute_block_number_to_be_signed(
    block_number: BlockNumber,
    security_parameter: BlockNumberOffset,
    step: BlockNumber,
) -> (ret: BlockNumber)
    ensures ret.0 == floor_to(sat_sub(block_number.0, security_parameter.0) as int, blocks_step(step.0))
{
        proof { lemma_floor_to(sat_sub(block_number.0, security_parameter.0) as int, blocks_step(step.0)); }
    let adjusted_step = std::cmp::max(step, BlockNumber(1));
    (block_number - security_parameter) / adjusted_step * adjusted_step
}
// ---- end of extracted text ----

pub struct CardanoTransactionsSigningConfig {
    pub security_parameter: BlockNumberOffset,
    pub step: BlockNumber,
}

impl CardanoTransactionsSigningConfig {
// ---- extracted from mithril-common/src/entities/signed_entity_config.rs:149 (fn compute_block_number_to_be_signed) ----
fn compute_block_number_to_be_signed(&self, block_number: BlockNumber) -> (ret: BlockNumber)
    ensures ret.0 == tx_beacon(block_number.0, self.security_parameter.0, self.step.0)
{
        proof { lemma_floor_to(self.step.0 as int, 15); lemma_tx_step(self.step.0); lemma_floor_to(sat_sub(block_number.0, self.security_parameter.0) as int, tx_step(self.step.0)); }
        let adjusted_step = BlockRange::start(self.step);
        // We can't have a step lower than the block range length.
        let adjusted_step = std::cmp::max(adjusted_step, BlockRange::LENGTH);

        let block_number_to_be_signed =
            compute_block_number_to_be_signed(block_number, self.security_parameter, adjusted_step);
        block_number_to_be_signed - 1
    }
// ---- end of extracted text ----
}

pub struct CardanoBlocksTransactionsSigningConfig {
    pub security_parameter: BlockNumberOffset,
    pub step: BlockNumber,
}

impl CardanoBlocksTransactionsSigningConfig {
// ---- extracted from mithril-common/src/entities/signed_entity_config.rs:184 (fn compute_block_number_to_be_signed) ----
fn compute_block_number_to_be_signed(&self, block_number: BlockNumber) -> (ret: BlockNumber)
    ensures ret.0 == blocks_beacon(block_number.0, self.security_parameter.0, self.step.0)
{
        compute_block_number_to_be_signed(block_number, self.security_parameter, self.step)
    }
// ---- end of extracted text ----
}

// ---- C17 clause 3 on the code: the transactions beacon ends a complete block range ---------------------------
/// `BlockRange::from_block_number(b).is_fully_covered_at(b)` for the beacon b computed by the real function
fn c17_tx_beacon_ends_complete_block_range(cfg: &CardanoTransactionsSigningConfig, tip: BlockNumber) -> (covered: bool)
    requires sat_sub(tip.0, cfg.security_parameter.0) >= tx_step(cfg.step.0),
    ensures covered,
{
    let b = cfg.compute_block_number_to_be_signed(tip);
    proof {
        c17_tx_spec_clauses(tip.0, cfg.security_parameter.0, cfg.step.0);
        // b + 1 is a multiple of 15 and b + 1 >= 15: b = 15*j - 1, so floor_to(b, 15) = 15*(j-1) and range end = 15*j = b + 1
        let j = (b.0 + 1) / 15;
        lemma_fundamental_div_mod(b.0 + 1, 15);
        assert(b.0 + 1 == 15 * j);
        lemma_fundamental_div_mod_converse(b.0 as int, 15, j - 1, 14);
        assert(floor_to(b.0 as int, 15) == (j - 1) * 15);
    }
    let range = BlockRange::from_block_number(b);
    range.is_fully_covered_at(b)
}

} // verus!

fn main() {}

// C03 — client side: mithril-client MithrilCertificateVerifier::verify_chain and its helpers (certificate_client/verify.rs), on
// the working tree's text, DEFAULT features (the optional verifier cache is behind the `unstable` feature and is stripped:
// fetch_cached_previous_hash is the `not(unstable)` alternative, which never answers from a cache).
// Every certificate on the walk is verified by the common verifier (unit verifier), and the walk only ends at a certificate
// that verifier accepted as a chain root.
use vstd::prelude::*;
verus! {

#[derive(Clone, Copy, PartialEq, Eq)] pub struct Epoch(pub u64);
impl vstd::std_specs::cmp::PartialEqSpecImpl for Epoch {
    open spec fn obeys_eq_spec() -> bool { true }
    open spec fn eq_spec(&self, other: &Epoch) -> bool { self.0 == other.0 }
}
pub struct Certificate { pub hash: String, pub previous_hash: String, pub epoch: Epoch }
pub struct MithrilCertificate { pub hash: String, pub epoch: Epoch }
pub struct MithrilError {}

/// outcomes of the common verifier's verify_certificate (its contract: unit verifier): accepted as a chain root
/// (Ok(None): genesis verified under the configured key), or accepted with this previous certificate (Ok(Some(p)): the
/// per-link rule holds and p is the retriever's answer for previous_hash)
pub uninterp spec fn accepted_as_root(c: &Certificate) -> bool;
pub uninterp spec fn accepted_link(c: &Certificate, p: &Certificate) -> bool;
pub uninterp spec fn downloaded_for(hash: Seq<char>, c: &Certificate) -> bool;
pub uninterp spec fn converted(m: &MithrilCertificate, c: &Certificate) -> bool;   // TryFrom<CertificateMessage> for Certificate

#[verifier::external_body] pub struct InternalVerifier { _p: core::marker::PhantomData<u8> }
#[verifier::external_body] pub struct Retriever { _p: core::marker::PhantomData<u8> }
impl InternalVerifier {
    #[verifier::external_body]
    pub fn verify_certificate(&self, c: &Certificate) -> (r: Result<Option<Certificate>, MithrilError>)
        ensures r is Ok && r->Ok_0 is None ==> accepted_as_root(c), r is Ok && r->Ok_0 is Some ==> accepted_link(c, &r->Ok_0->Some_0)
    { unimplemented!() }
}
impl Retriever {
    #[verifier::external_body]
    pub fn get_certificate_details(&self, hash: &String) -> (r: Result<Certificate, MithrilError>)
        ensures r is Ok ==> downloaded_for(hash@, &r->Ok_0)
    { unimplemented!() }
}
impl MithrilCertificate {
    #[verifier::external_body]
    pub fn clone(&self) -> (r: MithrilCertificate) ensures r == *self { unimplemented!() }
    #[verifier::external_body]
    pub fn try_into(self) -> (r: Result<Certificate, MithrilError>) ensures r is Ok ==> converted(&self, &r->Ok_0) { unimplemented!() }
}

pub enum CertificateToVerify { Downloaded { certificate: Box<Certificate> }, ToDownload { hash: String } }
#[verifier::external_body]
fn into_to_verify(c: Option<Certificate>) -> (r: Option<CertificateToVerify>)
    ensures (r is Some) == (c is Some), c is Some ==> r->Some_0 == (CertificateToVerify::Downloaded { certificate: Box::new(c->Some_0) })
{ unimplemented!() }
#[verifier::external_body]
fn epoch_differs(c: &Option<Certificate>, e: Epoch) -> (r: bool) ensures r == (c is Some && c->Some_0.epoch.0 != e.0) { unimplemented!() }

impl CertificateToVerify {
// ---- extracted from mithril-client/src/certificate_client/verify.rs:170 (fn hash) ----
fn hash(&self) -> (ret: &str)
    ensures ret@ == (match self { CertificateToVerify::Downloaded { certificate } => certificate.hash@, CertificateToVerify::ToDownload { hash } => hash@ })
{
        match self {
            CertificateToVerify::Downloaded { certificate } => &certificate.hash,
            CertificateToVerify::ToDownload { hash } => hash,
        }
    }
// ---- end of extracted text ----
}

pub struct MithrilCertificateVerifier { pub retriever: Retriever, pub internal_verifier: InternalVerifier }

/// some certificate was accepted by the common verifier as a chain root during this call
pub open spec fn reached_root() -> bool { exists|g: Certificate| accepted_as_root(&g) }
/// the common verifier accepted c (as a root, or linked to some previous certificate)
pub open spec fn verified(c: &Certificate) -> bool { accepted_as_root(c) || exists|p: Certificate| accepted_link(c, &p) }
/// the certificate handed to verify_chain was itself verified
pub open spec fn first_verified(m: &MithrilCertificate) -> bool { exists|c0: Certificate| converted(m, &c0) && verified(&c0) }

impl MithrilCertificateVerifier {
// ---- extracted from mithril-client/src/certificate_client/verify.rs:97 (fn fetch_cached_previous_hash) ----
fn fetch_cached_previous_hash(&self, _hash: &str) -> (ret: Result<Option<String>, MithrilError>)
    ensures ret is Ok && ret->Ok_0 is None
{
        Ok(None)
    }
// ---- end of extracted text ----

// ---- extracted from mithril-client/src/certificate_client/verify.rs:134 (fn verify_without_cache) ----
fn verify_without_cache(
        &self,
        certificate_chain_validation_id: &str,
        certificate: Certificate,
    ) -> (ret: Result<Option<Certificate>, MithrilError>)
    ensures ret is Ok && ret->Ok_0 is None ==> accepted_as_root(&certificate),
            ret is Ok && ret->Ok_0 is Some ==> accepted_link(&certificate, &ret->Ok_0->Some_0),
            ret is Ok ==> verified(&certificate),
{
        let previous_certificate = self.internal_verifier.verify_certificate(&certificate)?;

        

        
        

        Ok(previous_certificate)
    }
// ---- end of extracted text ----

// ---- extracted from mithril-client/src/certificate_client/verify.rs:101 (fn verify_with_cache_enabled) ----
fn verify_with_cache_enabled(
        &self,
        certificate_chain_validation_id: &str,
        certificate: CertificateToVerify,
    ) -> (ret: Result<Option<CertificateToVerify>, MithrilError>)
    ensures
        // default build: never answered from a cache - the certificate (downloaded for the requested hash if necessary) was
        // verified by the common verifier; None only when it was accepted as a chain root
        ret is Ok && ret->Ok_0 is None ==> reached_root(),
        ret is Ok && ret->Ok_0 is Some ==> ret->Ok_0->Some_0 is Downloaded,
{
        
        if let Some(previous_hash) = self.fetch_cached_previous_hash(certificate.hash())? {
            
            

            Ok(Some(CertificateToVerify::ToDownload {
                hash: previous_hash,
            }))
        } else {
            let certificate = match certificate {
                CertificateToVerify::Downloaded { certificate } => *certificate,
                CertificateToVerify::ToDownload { hash } => {
                    self.retriever.get_certificate_details(&hash)?
                }
            };

            let previous_certificate = self
                .verify_without_cache(certificate_chain_validation_id, certificate)
                ?;
            Ok(into_to_verify(previous_certificate))
        }
    }
// ---- end of extracted text ----

// ---- extracted from mithril-client/src/certificate_client/verify.rs:189 (fn verify_chain) ----
#[verifier::exec_allows_no_decreases_clause]
fn verify_chain(&self, certificate: &MithrilCertificate) -> (ret: Result<(), MithrilError>)
    ensures ret is Ok ==> reached_root() && first_verified(certificate)
{
        // Todo: move most of this code in the `mithril_common` verifier by defining
        // a new `verify_chain` method that take a callback called when a certificate is
        // validated.
        let certificate_chain_validation_id = String::new();
        

        // Validate certificates without cache until we cross an epoch boundary
        // This is necessary to ensure that the AVK chaining is correct
        let start_epoch = certificate.epoch;
        let mut current_certificate: Option<Certificate> = Some(certificate.clone().try_into()?);
        loop 
        invariant current_certificate is None ==> reached_root(),
                  first_verified(certificate) || (current_certificate is Some && converted(certificate, &current_certificate->Some_0)),
        ensures first_verified(certificate),
    {
            match current_certificate {
                None => break,
                Some(next) => {
                    current_certificate = self
                        .verify_without_cache(&certificate_chain_validation_id, next)
                        ?;

                    let has_crossed_epoch_boundary =
                        epoch_differs(&current_certificate, start_epoch);
                    if has_crossed_epoch_boundary {
                        break;
                    }
                }
            }
        }

        let mut current_certificate: Option<CertificateToVerify> =
            into_to_verify(current_certificate);
        loop 
        invariant current_certificate is None ==> reached_root(),
        ensures reached_root(),
    {
            match current_certificate {
                None => break,
                Some(next) => {
                    current_certificate = self
                        .verify_with_cache_enabled(&certificate_chain_validation_id, next)
                        ?
                }
            }
        }

        

        Ok(())
    }
// ---- end of extracted text ----
}

} // verus!
fn main() {}

// C01 — Verus on the working tree's text of ConcatenationProof::preliminary_verify and the accessors it goes through:
// unbounded in the number of signatures and of indices per signature.
use vstd::prelude::*;
use std::collections::HashSet;
verus! {

pub type LotteryIndex = u64;
pub type Stake = u64;
pub type SignerIndex = u64;

#[verifier::external_body] pub struct BlsSignature { _p: core::marker::PhantomData<u8> }
#[verifier::external_body] pub struct VerificationKeyForConcatenation { _p: core::marker::PhantomData<u8> }
#[verifier::external_body] pub struct MerkleBatchPath { _p: core::marker::PhantomData<u8> }
#[verifier::external_body] pub struct MerkleTreeBatchCommitment { _p: core::marker::PhantomData<u8> }

pub struct Parameters { pub m: u64, pub k: u64, pub phi_f: f64 }
pub enum AggregationError { IndexNotUnique, NotEnoughSignatures(u64, u64), Other }

// callee contracts: uninterpreted functions of their arguments
pub uninterp spec fn dense(sigma: &BlsSignature, msg: Seq<u8>, index: u64) -> Seq<u8>;
pub uninterp spec fn lottery(phi_f: f64, ev: Seq<u8>, stake: u64, total: u64) -> bool;
pub uninterp spec fn commitment_root(c: &MerkleTreeBatchCommitment) -> Seq<u8>;
pub uninterp spec fn bls_aggregate_valid(msg: Seq<u8>, vks: Seq<VerificationKeyForConcatenation>, sigs: Seq<BlsSignature>) -> bool;   // blst, assumed sound
pub uninterp spec fn bls_aggregate_of(vks: Seq<VerificationKeyForConcatenation>, sigs: Seq<BlsSignature>) -> (VerificationKeyForConcatenation, BlsSignature);  // BlsSignature::aggregate (random-coefficient aggregation, assumed sound)
pub uninterp spec fn bls_batch_valid(msgs: Seq<Seq<u8>>, vks: Seq<VerificationKeyForConcatenation>, sigs: Seq<BlsSignature>) -> bool;    // batch_verify_aggregates, assumed sound
pub uninterp spec fn merkle_ok(c: &MerkleTreeBatchCommitment, leaves: Seq<MerkleTreeConcatenationLeaf>, path: &MerkleBatchPath) -> bool;

pub struct SingleSignatureForConcatenation { pub sigma: BlsSignature, pub indexes: Vec<LotteryIndex> }
pub struct SingleSignature { pub concatenation_signature: SingleSignatureForConcatenation, pub signer_index: SignerIndex }
pub struct ClosedRegistrationEntry { pub verification_key_for_concatenation: VerificationKeyForConcatenation, pub stake: Stake }
pub struct MerkleTreeConcatenationLeaf(pub VerificationKeyForConcatenation, pub Stake);
pub type RegistrationEntryForConcatenation = MerkleTreeConcatenationLeaf;
pub struct SingleSignatureWithRegisteredParty { pub sig: SingleSignature, pub reg_party: ClosedRegistrationEntry }
pub struct AggregateVerificationKeyForConcatenation { pub mt_commitment: MerkleTreeBatchCommitment, pub total_stake: Stake }

/// C01 per signature (proved for check_indices in check_indices.tmpl.rs): every index in [0, m) and genuinely won
pub open spec fn indices_ok(s: &SingleSignatureForConcatenation, params: &Parameters, stake: u64, msg: Seq<u8>, total: u64) -> bool {
    forall|j: int| 0 <= j < s.indexes@.len() ==>
        s.indexes@[j] < params.m
        && lottery(params.phi_f, dense(&s.sigma, msg, #[trigger] s.indexes@[j]), stake, total)
}

impl SingleSignatureForConcatenation {
    /// contract proved on the extracted text in check_indices.tmpl.rs
    #[verifier::external_body]
    pub fn check_indices(&self, params: &Parameters, stake: &Stake, msg: &[u8], total_stake: &Stake) -> (ret: Result<(), AggregationError>)
        ensures ret is Ok ==> indices_ok(self, params, *stake, msg@, *total_stake)
    { unimplemented!() }

// ---- extracted from mithril-stm/src/proof_system/concatenation/single_signature.rs:78 (fn get_indices) ----
fn get_indices(&self) -> (ret: &[LotteryIndex])
    ensures ret@ == self.indexes@
{
        &self.indexes
    }
// ---- end of extracted text ----

// ---- extracted from mithril-stm/src/proof_system/concatenation/single_signature.rs:88 (fn get_sigma) ----
fn get_sigma(&self) -> (ret: BlsSignature)
    ensures ret == self.sigma
{
        copy_sig(&self.sigma)
    }
// ---- end of extracted text ----
}

/// BlsSignature is Copy in the real code
#[verifier::external_body]
fn copy_sig(s: &BlsSignature) -> (r: BlsSignature) ensures r == *s { unimplemented!() }
impl BlsSignature {
    /// contract of BLS aggregate verification (blst FFI; random-coefficient aggregation assumed sound)
    #[verifier::external_body]
    pub fn verify_aggregate(msg: &[u8], vks: &Vec<VerificationKeyForConcatenation>, sigs: &Vec<BlsSignature>) -> (r: Result<(), AggregationError>)
        ensures r is Ok ==> bls_aggregate_valid(msg@, vks@, sigs@)
    { unimplemented!() }
}

impl BlsSignature {
    #[verifier::external_body]
    pub fn aggregate(vks: &Vec<VerificationKeyForConcatenation>, sigs: &Vec<BlsSignature>) -> (r: Result<(VerificationKeyForConcatenation, BlsSignature), AggregationError>)
        ensures r is Ok ==> r->Ok_0 == bls_aggregate_of(vks@, sigs@)
    { unimplemented!() }
    #[verifier::external_body]
    pub fn batch_verify_aggregates(msgs: &Vec<Vec<u8>>, vks: &Vec<VerificationKeyForConcatenation>, sigs: &Vec<BlsSignature>) -> (r: Result<(), AggregationError>)
        ensures r is Ok ==> bls_batch_valid(Seq::new(msgs@.len(), |i: int| msgs@[i]@), vks@, sigs@)
    { unimplemented!() }
}

#[verifier::external_body]
fn copy_vk(s: &VerificationKeyForConcatenation) -> (r: VerificationKeyForConcatenation) ensures r == *s { unimplemented!() }
#[verifier::external_body]
fn slice_to_vec(s: &[u64]) -> (r: Vec<u64>) ensures r@ == s@ { s.to_vec() }

impl SingleSignature {
// ---- extracted from mithril-stm/src/protocol/single_signature/signature.rs:68 (fn check_indices) ----
fn check_indices(
        &self,
        params: &Parameters,
        stake: &Stake,
        msg: &[u8],
        total_stake: &Stake,
    ) -> (ret: Result<(), AggregationError>)
    ensures ret is Ok ==> indices_ok(&self.concatenation_signature, params, *stake, msg@, *total_stake)
{
        self.concatenation_signature
            .check_indices(params, stake, msg, total_stake)
    }
// ---- end of extracted text ----

// ---- extracted from mithril-stm/src/protocol/single_signature/signature.rs:168 (fn get_concatenation_signature_indices) ----
fn get_concatenation_signature_indices(&self) -> (ret: Vec<LotteryIndex>)
    ensures ret@ == self.concatenation_signature.indexes@
{
        slice_to_vec(self.concatenation_signature.get_indices())
    }
// ---- end of extracted text ----

// ---- extracted from mithril-stm/src/protocol/single_signature/signature.rs:173 (fn get_concatenation_signature_sigma) ----
fn get_concatenation_signature_sigma(&self) -> (ret: BlsSignature)
    ensures ret == self.concatenation_signature.sigma
{
        self.concatenation_signature.get_sigma()
    }
// ---- end of extracted text ----
}

impl ClosedRegistrationEntry {
// ---- extracted from mithril-stm/src/protocol/key_registration/closed_registration_entry.rs:72 (fn get_stake) ----
fn get_stake(&self) -> (ret: Stake)
    ensures ret == self.stake
{
        self.stake
    }
// ---- end of extracted text ----

// ---- extracted from mithril-stm/src/protocol/key_registration/closed_registration_entry.rs:67 (fn get_verification_key_for_concatenation) ----
fn get_verification_key_for_concatenation(&self) -> (ret: VerificationKeyForConcatenation)
    ensures ret == self.verification_key_for_concatenation
{
        copy_vk(&self.verification_key_for_concatenation)
    }
// ---- end of extracted text ----
}

impl MerkleTreeBatchCommitment {
    #[verifier::external_body]
    pub fn concatenate_with_message(&self, msg: &[u8]) -> (r: Vec<u8>)
        ensures r@ == msg@ + commitment_root(self)
    { unimplemented!() }

    /// Merkle membership of the leaves, in order, under this commitment (its own contract: C09)
    #[verifier::external_body]
    pub fn verify_leaves_membership_from_batch_path(&self, batch_val: &Vec<RegistrationEntryForConcatenation>, proof: &MerkleBatchPath) -> (r: Result<(), AggregationError>)
        ensures r is Ok ==> merkle_ok(self, batch_val@, proof)
    { unimplemented!() }
}

impl AggregateVerificationKeyForConcatenation {
    /// the real accessor clones the commitment
    #[verifier::external_body]
    pub fn get_merkle_tree_batch_commitment(&self) -> (r: MerkleTreeBatchCommitment) ensures r == self.mt_commitment { unimplemented!() }

// ---- extracted from mithril-stm/src/proof_system/concatenation/aggregate_key.rs:31 (fn get_total_stake) ----
fn get_total_stake(&self) -> (ret: Stake)
    ensures ret == self.total_stake
{
        self.total_stake
    }
// ---- end of extracted text ----
}

// ---- specification of the statement over the whole proof ---------------------------------------------------------
pub open spec fn idx(s: &SingleSignatureWithRegisteredParty) -> Seq<u64> { s.sig.concatenation_signature.indexes@ }

/// all indices of the first j signatures, in order
pub open spec fn flat(sigs: Seq<SingleSignatureWithRegisteredParty>, j: int) -> Seq<u64>
    decreases j
{
    if j <= 0 { Seq::empty() } else { flat(sigs, j - 1) + idx(&sigs[j - 1]) }
}

/// ... plus the first i indices of signature j (opaque: only used through lemma_partial_step)
#[verifier::opaque]
pub open spec fn partial(sigs: Seq<SingleSignatureWithRegisteredParty>, j: int, i: int) -> Seq<u64> {
    flat(sigs, j) + idx(&sigs[j]).take(i)
}

pub open spec fn leaf_of(s: &SingleSignatureWithRegisteredParty) -> MerkleTreeConcatenationLeaf {
    MerkleTreeConcatenationLeaf(s.reg_party.verification_key_for_concatenation, s.reg_party.stake)
}
pub open spec fn leaves_of(sigs: Seq<SingleSignatureWithRegisteredParty>) -> Seq<MerkleTreeConcatenationLeaf> {
    Seq::new(sigs.len(), |j: int| leaf_of(&sigs[j]))
}

/// C01 for the aggregate (everything except the final BLS aggregate check):
pub open spec fn preliminary_ok(p: &ConcatenationProof, msgp: Seq<u8>, avk: &AggregateVerificationKeyForConcatenation, params: &Parameters) -> bool {
    let sigs = p.signatures@;
    // every index of every signature lies in [0, m) and was genuinely won, for this message, with THAT signature's own
    // committed stake and the aggregate key's total stake
    &&& forall|j: int| 0 <= j < sigs.len() ==> indices_ok(&(#[trigger] sigs[j]).sig.concatenation_signature, params, sigs[j].reg_party.stake, msgp, avk.total_stake)
    // the indices of all signatures together are pairwise distinct
    &&& flat(sigs, sigs.len() as int).no_duplicates()
    // and there are at least k of them
    &&& flat(sigs, sigs.len() as int).len() >= params.k
    // the (key, stake) pair of every signature, in order, is committed by the aggregate key (Merkle membership with this
    // proof's batch path)
    &&& merkle_ok(&avk.mt_commitment, leaves_of(sigs), &p.batch_proof)
}

// ---- lemmas ------------------------------------------------------------------------------------------------------
proof fn lemma_count_equals_set_size_implies_distinct(s: Seq<u64>)
    requires s.to_set().len() == s.len(),
    ensures s.no_duplicates(),
    decreases s.len(),
{
    s.lemma_cardinality_of_set();
    if !s.no_duplicates() {
        let (i, j) = choose|i: int, j: int| 0 <= i < s.len() && 0 <= j < s.len() && i != j && s[i] == s[j];
        let t = s.remove(j);
        assert forall|x: u64| s.to_set().contains(x) implies t.to_set().contains(x) by {
            let p = choose|p: int| 0 <= p < s.len() && s[p] == x;
            if p == j {
                let q = if i < j { i } else { i - 1 };
                assert(t[q] == s[i]);
            } else {
                let q = if p < j { p } else { p - 1 };
                assert(t[q] == s[p]);
            }
        }
        assert forall|x: u64| t.to_set().contains(x) implies s.to_set().contains(x) by {
            let p = choose|p: int| 0 <= p < t.len() && t[p] == x;
            let q = if p < j { p } else { p + 1 };
            assert(s[q] == t[p]);
        }
        assert(t.to_set() =~= s.to_set());
        t.lemma_cardinality_of_set();
        assert(false);
    }
}

pub broadcast proof fn lemma_push_to_set(s: Seq<u64>, x: u64)
    ensures #[trigger] s.push(x).to_set() == s.to_set().insert(x)
{
    assert forall|y: u64| s.push(x).to_set().contains(y) <==> s.to_set().insert(x).contains(y) by {
        if s.push(x).to_set().contains(y) {
            let p = choose|p: int| 0 <= p < s.push(x).len() && s.push(x)[p] == y;
            if p < s.len() { assert(s[p] == y); }
        }
        if s.to_set().insert(x).contains(y) {
            if y == x { assert(s.push(x)[s.len() as int] == x); }
            else { let p = choose|p: int| 0 <= p < s.len() && s[p] == y; assert(s.push(x)[p] == y); }
        }
    }
    assert(s.push(x).to_set() =~= s.to_set().insert(x));
}

pub broadcast proof fn lemma_partial_step(sigs: Seq<SingleSignatureWithRegisteredParty>, j: int, i: int)
    requires 0 <= j < sigs.len(), 0 <= i <= idx(&sigs[j]).len(),
    ensures ({
        &&& i > 0 ==> #[trigger] partial(sigs, j, i) == partial(sigs, j, i - 1).push(idx(&sigs[j])[i - 1])
        &&& i > 0 ==> partial(sigs, j, i).to_set() == partial(sigs, j, i - 1).to_set().insert(idx(&sigs[j])[i - 1])
        &&& i > 0 ==> partial(sigs, j, i).len() == partial(sigs, j, i - 1).len() + 1
        &&& i == 0 ==> partial(sigs, j, i) == flat(sigs, j)
        &&& i == idx(&sigs[j]).len() ==> partial(sigs, j, i) == flat(sigs, j + 1)
    }),
{
    reveal(partial);
    let t = idx(&sigs[j]);
    if i > 0 {
        assert(t.take(i) =~= t.take(i - 1).push(t[i - 1]));
        assert(flat(sigs, j) + t.take(i - 1).push(t[i - 1]) =~= (flat(sigs, j) + t.take(i - 1)).push(t[i - 1]));
        lemma_push_to_set(partial(sigs, j, i - 1), t[i - 1]);
    }
    if i == 0 {
        assert(t.take(0) =~= Seq::<u64>::empty());
        assert(flat(sigs, j) + Seq::<u64>::empty() =~= flat(sigs, j));
    }
    if i == t.len() {
        assert(t.take(t.len() as int) =~= t);
    }
}

pub broadcast proof fn lemma_distinct_from_count(s: Seq<u64>)
    ensures (#[trigger] s.to_set().len()) == s.len() ==> s.no_duplicates()
{
    if s.to_set().len() == s.len() { lemma_count_equals_set_size_implies_distinct(s); }
}

pub proof fn lemma_flat_monotone(sigs: Seq<SingleSignatureWithRegisteredParty>, a: int, b: int)
    requires 0 <= a <= b <= sigs.len(),
    ensures flat(sigs, a).len() <= flat(sigs, b).len(),
    decreases b - a,
{
    if a < b { lemma_flat_monotone(sigs, a, b - 1); }
}

/// every strict prefix of the index stream is strictly shorter than the whole stream
pub open spec fn prefixes_bounded(sigs: Seq<SingleSignatureWithRegisteredParty>) -> bool {
    forall|j: int, i: int| 0 <= j < sigs.len() && 0 <= i < idx(&sigs[j]).len() ==> (#[trigger] partial(sigs, j, i)).len() < flat(sigs, sigs.len() as int).len()
}
pub proof fn lemma_prefix_lengths(sigs: Seq<SingleSignatureWithRegisteredParty>)
    ensures prefixes_bounded(sigs),
{
    reveal(partial);
    assert forall|j: int, i: int| 0 <= j < sigs.len() && 0 <= i < idx(&sigs[j]).len() implies (#[trigger] partial(sigs, j, i)).len() < flat(sigs, sigs.len() as int).len() by {
        lemma_flat_monotone(sigs, j + 1, sigs.len() as int);
    }
}

pub struct ConcatenationProof {
    pub signatures: Vec<SingleSignatureWithRegisteredParty>,
    pub batch_proof: MerkleBatchPath,
}

/// contract of the iterator expression `self.signatures.iter().filter_map(|r| r.reg_party.clone().into()).collect()`
/// (From<ClosedRegistrationEntry> for Option<RegistrationEntryForConcatenation> is `Some(leaf(vk, stake))`):
/// Kani harnesses c01_preliminary_verify_* check the real expression (bounded)
#[verifier::external_body]
fn collect_leaves(sigs: &Vec<SingleSignatureWithRegisteredParty>) -> (r: Vec<RegistrationEntryForConcatenation>)
    ensures r@ == leaves_of(sigs@)
{ unimplemented!() }

impl ConcatenationProof {
    /// contract of collect_signatures_verification_keys (iterator map/collect): Kani harnesses c01_preliminary_verify_*
    #[verifier::external_body]
    pub fn collect_signatures_verification_keys(&self) -> (r: (Vec<BlsSignature>, Vec<VerificationKeyForConcatenation>))
        ensures r.0@ == Seq::new(self.signatures@.len(), |j: int| self.signatures@[j].sig.concatenation_signature.sigma),
                r.1@ == Seq::new(self.signatures@.len(), |j: int| self.signatures@[j].reg_party.verification_key_for_concatenation)
    { unimplemented!() }

// ---- extracted from mithril-stm/src/proof_system/concatenation/proof.rs:108 (fn preliminary_verify) ----
fn preliminary_verify(
        &self,
        msg: &[u8],
        avk: &AggregateVerificationKeyForConcatenation,
        parameters: &Parameters,
    ) -> (ret: Result<(Vec<BlsSignature>, Vec<VerificationKeyForConcatenation>), AggregationError>)
    requires flat(self.signatures@, self.signatures@.len() as int).len() <= usize::MAX
    ensures ret is Ok ==> preliminary_ok(self, msg@ + commitment_root(&avk.mt_commitment), avk, parameters),
            ret is Ok ==> ret->Ok_0.0@ == Seq::new(self.signatures@.len(), |j: int| self.signatures@[j].sig.concatenation_signature.sigma) && ret->Ok_0.1@ == Seq::new(self.signatures@.len(), |j: int| self.signatures@[j].reg_party.verification_key_for_concatenation),
{
        broadcast use vstd::std_specs::hash::group_hash_axioms, lemma_push_to_set, lemma_partial_step, lemma_distinct_from_count; proof { lemma_prefix_lengths(self.signatures@); }
        let msgp = avk.get_merkle_tree_batch_commitment().concatenate_with_message(msg);

        let mut nr_indices: usize = 0;
        let mut unique_indices = HashSet::new();

        for sig_reg in it: self.signatures.iter() 
        invariant
            msgp@ == msg@ + commitment_root(&avk.mt_commitment),
            0 <= it.index@ <= self.signatures@.len(),
            forall|j: int| 0 <= j < it.index@ ==> indices_ok(&(#[trigger] self.signatures@[j]).sig.concatenation_signature, parameters, self.signatures@[j].reg_party.stake, msgp@, avk.total_stake),
            unique_indices@ == flat(self.signatures@, it.index@ as int).to_set(),
            nr_indices == flat(self.signatures@, it.index@ as int).len(),
            flat(self.signatures@, self.signatures@.len() as int).len() <= usize::MAX,
            prefixes_bounded(self.signatures@),
    { broadcast use vstd::std_specs::hash::group_hash_axioms, lemma_partial_step; 
            sig_reg
                .sig
                .check_indices(
                    parameters,
                    &sig_reg.reg_party.get_stake(),
                    &msgp,
                    &avk.get_total_stake(),
                )?;
            let verif_indices = sig_reg.sig.get_concatenation_signature_indices(); for index in it2: verif_indices.iter() 
        invariant
            0 <= it.index@ < self.signatures@.len(), *sig_reg == self.signatures@[it.index@ as int], 0 <= it2.index@,
            verif_indices@ == idx(&self.signatures@[it.index@ as int]), it2.index@ <= verif_indices@.len(),
            unique_indices@ == partial(self.signatures@, it.index@ as int, it2.index@ as int).to_set(),
            nr_indices == partial(self.signatures@, it.index@ as int, it2.index@ as int).len(),
            flat(self.signatures@, self.signatures@.len() as int).len() <= usize::MAX,
            prefixes_bounded(self.signatures@),
    { broadcast use vstd::std_specs::hash::group_hash_axioms, lemma_partial_step;  let index = *index;
                unique_indices.insert(index);
                nr_indices += 1;
            }
        }

        if nr_indices != unique_indices.len() {
            return Err(AggregationError::IndexNotUnique);
        }
        if (nr_indices as u64) < parameters.k {
            return Err(AggregationError::NotEnoughSignatures(
                nr_indices as u64,
                parameters.k
            ));
        }

        let leaves = collect_leaves(&self.signatures);

        avk.get_merkle_tree_batch_commitment()
            .verify_leaves_membership_from_batch_path(&leaves, &self.batch_proof)?;

        Ok(self.collect_signatures_verification_keys())
    }
// ---- end of extracted text ----

// ---- extracted from mithril-stm/src/proof_system/concatenation/proof.rs:164 (fn verify) ----
fn verify(
        &self,
        msg: &[u8],
        avk: &AggregateVerificationKeyForConcatenation,
        parameters: &Parameters,
    ) -> (ret: Result<(), AggregationError>)
    requires flat(self.signatures@, self.signatures@.len() as int).len() <= usize::MAX
    ensures ret is Ok ==> preliminary_ok(self, msg@ + commitment_root(&avk.mt_commitment), avk, parameters)
        && bls_aggregate_valid(msg@ + commitment_root(&avk.mt_commitment),
               Seq::new(self.signatures@.len(), |j: int| self.signatures@[j].reg_party.verification_key_for_concatenation),
               Seq::new(self.signatures@.len(), |j: int| self.signatures@[j].sig.concatenation_signature.sigma))
{
        let msgp = avk.get_merkle_tree_batch_commitment().concatenate_with_message(msg);
        let (sigs, vks) = self
            .preliminary_verify(msg, avk, parameters)?;

        BlsSignature::verify_aggregate(msgp.as_slice(), &vks, &sigs)?;
        Ok(())
    }
// ---- end of extracted text ----
}

pub open spec fn member_sigmas(p: &ConcatenationProof) -> Seq<BlsSignature> { Seq::new(p.signatures@.len(), |j: int| p.signatures@[j].sig.concatenation_signature.sigma) }
pub open spec fn member_vks(p: &ConcatenationProof) -> Seq<VerificationKeyForConcatenation> { Seq::new(p.signatures@.len(), |j: int| p.signatures@[j].reg_party.verification_key_for_concatenation) }

/// contracts of the three iterator expressions of batch_verify (map/collect over a member's signatures; zip of msgs and avks)
#[verifier::external_body]
fn collect_sigmas(p: &ConcatenationProof) -> (r: Vec<BlsSignature>) ensures r@ == member_sigmas(p) { unimplemented!() }
#[verifier::external_body]
fn collect_vks(p: &ConcatenationProof) -> (r: Vec<VerificationKeyForConcatenation>) ensures r@ == member_vks(p) { unimplemented!() }
#[verifier::external_body]
fn collect_concat_msgs(msgs: &[Vec<u8>], avks: &[AggregateVerificationKeyForConcatenation]) -> (r: Vec<Vec<u8>>)
    requires msgs@.len() == avks@.len()
    ensures r@.len() == msgs@.len(), forall|i: int| 0 <= i < msgs@.len() ==> (#[trigger] r@[i])@ == msgs@[i]@ + commitment_root(&avks@[i].mt_commitment)
{ unimplemented!() }

impl ConcatenationProof {
// ---- extracted from mithril-stm/src/proof_system/concatenation/proof.rs:181 (fn batch_verify) ----
fn batch_verify(
        stm_signatures: &[Self],
        msgs: &[Vec<u8>],
        avks: &[AggregateVerificationKeyForConcatenation],
        parameters: &[Parameters],
    ) -> (ret: Result<(), AggregationError>)
    requires
        // the three assert_eq! of the real text (a length mismatch panics: precondition of the API)
        stm_signatures@.len() == msgs@.len(), stm_signatures@.len() == avks@.len(), stm_signatures@.len() == parameters@.len(),
        forall|i: int| 0 <= i < stm_signatures@.len() ==> flat((#[trigger] stm_signatures@[i]).signatures@, stm_signatures@[i].signatures@.len() as int).len() <= usize::MAX,
    ensures ret is Ok ==> ({
        // a batch is accepted only if EACH member passes the preliminary checks with ITS OWN message, key and parameters ...
        &&& forall|i: int| 0 <= i < stm_signatures@.len() ==> preliminary_ok(&#[trigger] stm_signatures@[i], msgs@[i]@ + commitment_root(&avks@[i].mt_commitment), &avks@[i], &parameters@[i])
        // ... and the batched BLS check ran on each member's own (keys, signatures) aggregate and its own msg || root
        &&& exists|vks: Seq<VerificationKeyForConcatenation>, sigs: Seq<BlsSignature>, cm: Seq<Seq<u8>>| #![auto]
               vks.len() == stm_signatures@.len() && sigs.len() == stm_signatures@.len() && cm.len() == stm_signatures@.len()
            && (forall|i: int| 0 <= i < stm_signatures@.len() ==> (vks[i], sigs[i]) == bls_aggregate_of(member_vks(&stm_signatures@[i]), member_sigmas(&stm_signatures@[i])) && cm[i] == msgs@[i]@ + commitment_root(&avks@[i].mt_commitment))
            && bls_batch_valid(cm, vks, sigs)
    }),
{
        let batch_size = stm_signatures.len();
        

        let mut aggr_sigs: Vec<BlsSignature> = Vec::with_capacity(batch_size);
        let mut aggr_vks: Vec<VerificationKeyForConcatenation> = Vec::with_capacity(batch_size);
        for idx in 0..batch_size 
        invariant
            batch_size == stm_signatures@.len(), batch_size == msgs@.len(), batch_size == avks@.len(), batch_size == parameters@.len(),
            aggr_sigs@.len() == idx, aggr_vks@.len() == idx,
            forall|i: int| 0 <= i < stm_signatures@.len() ==> flat((#[trigger] stm_signatures@[i]).signatures@, stm_signatures@[i].signatures@.len() as int).len() <= usize::MAX,
            forall|i: int| 0 <= i < idx ==> preliminary_ok(&#[trigger] stm_signatures@[i], msgs@[i]@ + commitment_root(&avks@[i].mt_commitment), &avks@[i], &parameters@[i]),
            forall|i: int| 0 <= i < idx ==> (#[trigger] aggr_vks@[i], aggr_sigs@[i]) == bls_aggregate_of(member_vks(&stm_signatures@[i]), member_sigmas(&stm_signatures@[i])),
    { let sig_group = &stm_signatures[idx];
            sig_group.preliminary_verify(&msgs[idx], &avks[idx], &parameters[idx])?;
            let grouped_sigs: Vec<BlsSignature> = collect_sigmas(sig_group);
            let grouped_vks: Vec<VerificationKeyForConcatenation> = collect_vks(sig_group);

            let (aggr_vk, aggr_sig) = BlsSignature::aggregate(&grouped_vks, &grouped_sigs)?;
            aggr_sigs.push(aggr_sig);
            aggr_vks.push(aggr_vk);
        }

        let concat_msgs: Vec<Vec<u8>> = collect_concat_msgs(msgs, avks);

        BlsSignature::batch_verify_aggregates(&concat_msgs, &aggr_vks, &aggr_sigs)?;
        Ok(())
    }
// ---- end of extracted text ----
}

// ---- dispatch: protocol/aggregate_signature/signature.rs ---------------------------------------------------------------
#[verifier::external_body] pub struct AncillaryVerifierData { _p: core::marker::PhantomData<u8> }
#[verifier::external_body] pub struct GenesisVerificationKeyBundle { _p: core::marker::PhantomData<u8> }
pub struct AggregateVerificationKey { pub concatenation_aggregate_verification_key: AggregateVerificationKeyForConcatenation }
impl AggregateVerificationKey {
// ---- extracted from mithril-stm/src/protocol/aggregate_signature/aggregate_key.rs:38 (fn to_concatenation_aggregate_verification_key) ----
fn to_concatenation_aggregate_verification_key(
        &self,
    ) -> (ret: &AggregateVerificationKeyForConcatenation)
    ensures *ret == self.concatenation_aggregate_verification_key
{
        &self.concatenation_aggregate_verification_key
    }
// ---- end of extracted text ----
}
pub enum AggregateSignature { Concatenation(ConcatenationProof) }
impl AggregateSignature {
// ---- extracted from mithril-stm/src/protocol/aggregate_signature/signature.rs:161 (fn verify) ----
fn verify(
        &self,
        msg: &[u8],
        avk: &AggregateVerificationKey,
        parameters: &Parameters,
        ancillary_verifier_data: Option<AncillaryVerifierData>,
        genesis_verification_key_bundle: Option<GenesisVerificationKeyBundle>,
    ) -> (ret: Result<(), AggregationError>)
    requires self is Concatenation ==> flat(self->Concatenation_0.signatures@, self->Concatenation_0.signatures@.len() as int).len() <= usize::MAX
    ensures ret is Ok && self is Concatenation ==> preliminary_ok(&self->Concatenation_0, msg@ + commitment_root(&avk.concatenation_aggregate_verification_key.mt_commitment), &avk.concatenation_aggregate_verification_key, parameters)
        && bls_aggregate_valid(msg@ + commitment_root(&avk.concatenation_aggregate_verification_key.mt_commitment), member_vks(&self->Concatenation_0), member_sigmas(&self->Concatenation_0))
{
        let _ = &ancillary_verifier_data;
        let _ = &genesis_verification_key_bundle;
        match self {
            AggregateSignature::Concatenation(concatenation_proof) => concatenation_proof.verify(
                msg,
                avk.to_concatenation_aggregate_verification_key(),
                parameters,
            ),
            
            
        }
    }
// ---- end of extracted text ----
}

} // verus!
fn main() {}

// C07 — follower aggregators: MithrilSignerRegistrationFollower::{synchronize_signers, synchronize_all_signers}
// (mithril-aggregator/src/services/signer_registration/follower.rs) on the working tree's text. Signers fetched from the leader
// are NOT trusted: every one of them is re-verified by the registration verifier (unit aggregator_verifier) against the
// follower's OWN stake distribution for the synchronization epoch, and only what the verifier returned is recorded and saved,
// under that epoch. One failing signer aborts the synchronization. The follower never accepts direct registrations.
use vstd::prelude::*;
verus! {

pub type PartyId = String;
#[derive(Clone, Copy)] pub struct Epoch(pub u64);
pub struct StdError {}
pub enum SignerRegistrationError { RegistrationRoundAlwaysClosedOnFollowerAggregator, Other }
#[verifier::external_body] pub struct StakeDistribution { _p: core::marker::PhantomData<u8> }
#[verifier::external_body] pub struct Signer { _p: core::marker::PhantomData<u8> }
pub struct SignerWithStake { pub party_id: PartyId, pub rest: SignerRest }
#[verifier::external_body] pub struct SignerRest { _p: core::marker::PhantomData<u8> }
impl Clone for SignerWithStake { #[verifier::external_body] fn clone(&self) -> (r: Self) ensures r == *self { unimplemented!() } }
#[verifier::external_body]
fn string_clone(s: &String) -> (r: String) ensures r@ == s@ { s.clone() }

#[verifier::external_body] pub struct RegistrationVerifier { _p: core::marker::PhantomData<u8> }
#[verifier::external_body] pub struct SignerRecorder { _p: core::marker::PhantomData<u8> }
#[verifier::external_body] pub struct VerificationKeyStore { _p: core::marker::PhantomData<u8> }
#[verifier::external_body] pub struct EpochService { _p: core::marker::PhantomData<u8> }
#[verifier::external_body] pub struct LeaderClient { _p: core::marker::PhantomData<u8> }
#[verifier::external_body] pub struct StakeStore { _p: core::marker::PhantomData<u8> }
/// what the registration verifier answers for this signer against this stake distribution (its contract: unit aggregator_verifier)
pub uninterp spec fn verified_as(v: &RegistrationVerifier, s: &Signer, d: &StakeDistribution) -> Option<SignerWithStake>;
pub uninterp spec fn recorded(r: &SignerRecorder, id: Seq<char>) -> bool;
pub uninterp spec fn saved(st: &VerificationKeyStore, e: Epoch, s: SignerWithStake) -> bool;
pub uninterp spec fn next_signers_refreshed(e: &EpochService) -> bool;
impl RegistrationVerifier {
    #[verifier::external_body]
    pub fn verify(&self, s: &Signer, d: &StakeDistribution) -> (r: Result<SignerWithStake, SignerRegistrationError>)
        ensures r is Ok ==> verified_as(self, s, d) == Some(r->Ok_0), r is Err ==> verified_as(self, s, d) is None
    { unimplemented!() }
}
impl SignerRecorder {
    #[verifier::external_body]
    pub fn record_signer_registration(&self, id: String) -> (r: Result<(), SignerRegistrationError>) ensures r is Ok ==> recorded(self, id@) { unimplemented!() }
}
impl VerificationKeyStore {
    /// only what the registration verifier returned may be saved
    #[verifier::external_body]
    pub fn save_verification_key(&self, e: Epoch, s: SignerWithStake) -> (r: Result<Option<SignerWithStake>, SignerRegistrationError>) ensures r is Ok ==> saved(self, e, s) { unimplemented!() }
}
impl EpochService {
    #[verifier::external_body]
    pub fn update_next_signers_with_stake(&self) -> (r: Result<(), SignerRegistrationError>) ensures r is Ok ==> next_signers_refreshed(self) { unimplemented!() }
}

pub struct MithrilSignerRegistrationFollower {
    pub epoch_service: EpochService,
    pub verification_key_store: VerificationKeyStore,
    pub signer_recorder: SignerRecorder,
    pub signer_registration_verifier: RegistrationVerifier,
    pub leader_aggregator_client: LeaderClient,
    pub stake_store: StakeStore,
}

/// signer i was accepted by the verifier against THIS stake distribution, and exactly the verifier's answer was recorded and saved under the epoch
pub open spec fn synchronized(f: &MithrilSignerRegistrationFollower, e: Epoch, s: &Signer, d: &StakeDistribution) -> bool {
    verified_as(&f.signer_registration_verifier, s, d) is Some
    && recorded(&f.signer_recorder, verified_as(&f.signer_registration_verifier, s, d)->Some_0.party_id@)
    && saved(&f.verification_key_store, e, verified_as(&f.signer_registration_verifier, s, d)->Some_0)
}

pub struct LeaderEpochSettings { pub epoch: Epoch, pub next_signers: Vec<Signer> }
pub uninterp spec fn leader_settings(c: &LeaderClient) -> Option<LeaderEpochSettings>;
pub uninterp spec fn sync_epoch(e: Epoch) -> Epoch;
pub uninterp spec fn stakes_stored(s: &StakeStore, e: Epoch) -> Option<StakeDistribution>;
impl Epoch {
    #[verifier::external_body]
    pub fn next(&self) -> (r: Epoch) requires self.0 < u64::MAX, ensures r.0 == self.0 + 1 { unimplemented!() }
    #[verifier::external_body]
    pub fn offset_to_recording_epoch(&self) -> (r: Epoch) requires self.0 < u64::MAX, ensures r.0 == self.0 + 1 { unimplemented!() }
    #[verifier::external_body]
    pub fn offset_to_leader_synchronization_epoch(&self) -> (r: Epoch) ensures r == sync_epoch(*self) { unimplemented!() }
}
impl LeaderClient {
    /// retrieve_epoch_settings().await .with_context(..).map_err(..)? .with_context(..).map_err(..)?  (fetch failed / nothing returned -> error)
    #[verifier::external_body]
    pub fn retrieve_epoch_settings_or_fail(&self) -> (r: Result<LeaderEpochSettings, SignerRegistrationError>) ensures r is Ok ==> leader_settings(self) == Some(r->Ok_0) { unimplemented!() }
}
impl LeaderClient {
    /// retrieve_epoch_settings().await .with_context(..).map_err(..)?   (fetch failed -> error; None = the leader has no settings yet)
    #[verifier::external_body]
    pub fn retrieve_epoch_settings_opt(&self) -> (r: Result<Option<LeaderEpochSettings>, SignerRegistrationError>) ensures r is Ok ==> r->Ok_0 == leader_settings(self) { unimplemented!() }
}
/// `.is_some_and(|leader_epoch_settings| epoch == leader_epoch_settings.epoch)`
fn settings_epoch_is(o: Option<LeaderEpochSettings>, epoch: Epoch) -> (r: bool) ensures r == (o is Some && o->Some_0.epoch.0 == epoch.0) {
    match o { Some(s) => s.epoch.0 == epoch.0, None => false }
}
impl StakeStore {
    /// get_stakes(e).await .with_context(..).map_err(Store)? .with_context(..).map_err(Store)?
    #[verifier::external_body]
    pub fn get_stakes_or_fail(&self, e: Epoch) -> (r: Result<StakeDistribution, SignerRegistrationError>) ensures r is Ok ==> stakes_stored(self, e) == Some(r->Ok_0) { unimplemented!() }
}

impl MithrilSignerRegistrationFollower {
// ---- extracted from mithril-aggregator/src/services/signer_registration/follower.rs:62 (fn synchronize_signers) ----
fn synchronize_signers(
        &self,
        epoch: Epoch,
        signers: &Vec<Signer>,
        stake_distribution: &StakeDistribution,
    ) -> (ret: Result<(), SignerRegistrationError>)
    ensures ret is Ok ==> next_signers_refreshed(&self.epoch_service)
        && forall|i: int| 0 <= i < signers@.len() ==> synchronized(self, epoch, &#[trigger] signers@[i], stake_distribution)
{
        for signer in it: signers.iter() 
        invariant 0 <= it.index@ <= signers@.len(),
            forall|i: int| 0 <= i < it.index@ ==> synchronized(self, epoch, &#[trigger] signers@[i], stake_distribution),
    {
            let signer_with_stake = self
                .signer_registration_verifier
                .verify(signer, stake_distribution)?;

            self.signer_recorder
                .record_signer_registration(string_clone(&signer_with_stake.party_id))?;

            self
                .verification_key_store
                .save_verification_key(epoch, signer_with_stake.clone())?;
        }

        self.epoch_service
            .update_next_signers_with_stake()?;

        Ok(())
    }
// ---- end of extracted text ----

// ---- extracted from mithril-aggregator/src/services/signer_registration/follower.rs:129 (fn synchronize_all_signers) ----
fn synchronize_all_signers(&self) -> (ret: Result<(), SignerRegistrationError>)
    ensures ret is Ok ==> ({
        let l = leader_settings(&self.leader_aggregator_client);
        &&& l is Some && stakes_stored(&self.stake_store, sync_epoch(l->Some_0.epoch)) is Some
        // every signer announced by the leader is re-verified against the follower's OWN stake distribution of the synchronization epoch
        &&& forall|i: int| 0 <= i < l->Some_0.next_signers@.len() ==>
                synchronized(self, sync_epoch(l->Some_0.epoch), &#[trigger] l->Some_0.next_signers@[i], &stakes_stored(&self.stake_store, sync_epoch(l->Some_0.epoch))->Some_0)
    }),
{
        let leader_epoch_settings = self.leader_aggregator_client.retrieve_epoch_settings_or_fail()?;
        let registration_epoch =
            leader_epoch_settings.epoch.offset_to_leader_synchronization_epoch();
        let next_signers = leader_epoch_settings.next_signers;
        let stake_distribution = self.stake_store.get_stakes_or_fail(registration_epoch)?;
        self.synchronize_signers(registration_epoch, &next_signers, &stake_distribution)
            ?;

        Ok(())
    }
// ---- end of extracted text ----

// ---- extracted from mithril-aggregator/src/services/signer_registration/follower.rs:119 (fn can_synchronize_signers) ----
fn can_synchronize_signers(&self, epoch: Epoch) -> (ret: Result<bool, SignerRegistrationError>)
    ensures ret is Ok ==> ret->Ok_0 == (leader_settings(&self.leader_aggregator_client) is Some && leader_settings(&self.leader_aggregator_client)->Some_0.epoch.0 == epoch.0)
{
        Ok(settings_epoch_is(self.leader_aggregator_client.retrieve_epoch_settings_opt()?, epoch))
    }
// ---- end of extracted text ----

// ---- extracted from mithril-aggregator/src/services/signer_registration/follower.rs:158 (fn register_signer) ----
fn register_signer(
        &self,
        _epoch: Epoch,
        _signer: &Signer,
    ) -> (ret: Result<SignerWithStake, SignerRegistrationError>)
    ensures ret is Err
{
        Err(SignerRegistrationError::RegistrationRoundAlwaysClosedOnFollowerAggregator)
    }
// ---- end of extracted text ----
}

} // verus!
fn main() {}

// C16 (the decidable slice) — Verus on the working tree's text of mithril-common MultiSigner::verify_single_signature, the
// function the aggregator's SingleSignatureAuthenticator relies on to "authenticate" the party named in a submitted
// signature before it is stored under that name.
use vstd::prelude::*;
verus! {

pub type Stake = u64;
pub type SignerIndex = u64;
#[verifier::external_body] pub struct Parameters { _p: core::marker::PhantomData<u8> }
#[verifier::external_body] pub struct ProtocolClerk { _p: core::marker::PhantomData<u8> }
#[verifier::external_body] pub struct Avk { _p: core::marker::PhantomData<u8> }
#[verifier::external_body] pub struct Vk { _p: core::marker::PhantomData<u8> }
#[verifier::external_body] pub struct SigBody { _p: core::marker::PhantomData<u8> }
#[verifier::external_body] pub struct Msg { _p: core::marker::PhantomData<u8> }
pub struct StdError {}

/// mithril_stm::SingleSignature: the signer slot is a field of the signature itself
pub struct ProtocolSingleSignature { pub body: SigBody, pub signer_index: SignerIndex }
/// entities::SingleSignature: party_id is what the submitter CLAIMS; the protocol signature carries the slot
pub struct SingleSignature { pub party_id: String, pub signature: ProtocolSingleSignature }

pub uninterp spec fn stm_sig_valid(s: &ProtocolSingleSignature, p: &Parameters, vk: &Vk, stake: Stake, avk: &Avk, msg: Seq<u8>) -> bool;  // mithril-stm SingleSignature::verify (C01)
pub uninterp spec fn avk_of(c: &ProtocolClerk) -> Avk;
pub uninterp spec fn registered_at(c: &ProtocolClerk, slot: SignerIndex) -> Option<(Vk, Stake)>;      // closed registration: slot -> (key, stake)
pub uninterp spec fn msg_bytes(m: &Msg) -> Seq<u8>;

impl SingleSignature {
    #[verifier::external_body]
    pub fn to_protocol_signature(&self) -> (r: ProtocolSingleSignature) ensures r == self.signature { unimplemented!() }
}
impl ProtocolClerk {
    #[verifier::external_body]
    pub fn compute_aggregate_verification_key(&self) -> (r: Avk) ensures r == avk_of(self) { unimplemented!() }
    #[verifier::external_body]
    pub fn get_concatenation_registered_party_for_index(&self, i: &SignerIndex) -> (r: Result<(Vk, Stake), StdError>)
        ensures r is Ok ==> registered_at(self, *i) == Some(r->Ok_0)
    { unimplemented!() }
}
pub struct MsgString { pub s: String }
impl Msg {
    #[verifier::external_body]
    pub fn to_message(&self) -> (r: MsgString) ensures str_bytes_of(r.s@) == msg_bytes(self) { unimplemented!() }
}
pub uninterp spec fn str_bytes_of(s: Seq<char>) -> Seq<u8>;
impl MsgString {
    #[verifier::external_body]
    pub fn as_bytes(&self) -> (r: &[u8]) ensures r@ == str_bytes_of(self.s@) { unimplemented!() }
}
impl ProtocolSingleSignature {
    #[verifier::external_body]
    pub fn verify(&self, params: &Parameters, vk: &Vk, stake: &Stake, avk: &Avk, msg: &[u8]) -> (r: Result<(), StdError>)
        ensures r is Ok ==> stm_sig_valid(self, params, vk, *stake, avk, msg@)
    { unimplemented!() }
}

/// HashMap<PartyId, VerificationKeyForConcatenation>: the key each party registered (filled by SignerBuilder::new from the
/// party id KeyRegWrapper::register returned and that signer's own key: C06 unit signer_builder)
#[verifier::external_body] pub struct RegisteredKeys { _p: core::marker::PhantomData<u8> }
pub uninterp spec fn key_of_party(m: &RegisteredKeys, party_id: Seq<char>) -> Option<Vk>;
/// `map.get(&party_id) != Some(&vk)` (Option<&Vk> comparison of an opaque key type)
#[verifier::external_body]
fn party_key_differs(m: &RegisteredKeys, party_id: &String, vk: &Vk) -> (r: bool) ensures r == (key_of_party(m, party_id@) != Some(*vk)) { unimplemented!() }
#[verifier::external_body]
fn anyhow_error() -> StdError { unimplemented!() }

pub struct MultiSigner { pub protocol_clerk: ProtocolClerk, pub protocol_parameters: Parameters, pub registered_verification_keys: RegisteredKeys }

impl MultiSigner {
// ---- extracted from mithril-common/src/protocol/multi_signer.rs:87 (fn compute_aggregate_verification_key) ----
fn compute_aggregate_verification_key(&self) -> (ret: Avk)
    ensures ret == avk_of(&self.protocol_clerk)
{
        self.protocol_clerk.compute_aggregate_verification_key()
    }
// ---- end of extracted text ----

// ---- extracted from mithril-common/src/protocol/multi_signer.rs:92 (fn verify_single_signature) ----
fn verify_single_signature(
        &self,
        message: &Msg,
        single_signature: &SingleSignature,
    ) -> (ret: Result<(), StdError>)
    ensures ret is Ok ==> ({
        // THE OBLIGATION OF C16: the key registered at the slot the signature names is the key registered by the party the
        // submission NAMES (finding F-C16-1 before the repair: party_id was only used in error text)
        &&& registered_at(&self.protocol_clerk, single_signature.signature.signer_index) is Some
        &&& key_of_party(&self.registered_verification_keys, single_signature.party_id@) == Some(registered_at(&self.protocol_clerk, single_signature.signature.signer_index)->Some_0.0)
        // the signature verifies, for this message, under the key and stake registered at the slot the signature names
        &&& registered_at(&self.protocol_clerk, single_signature.signature.signer_index) is Some
        &&& stm_sig_valid(&single_signature.signature, &self.protocol_parameters,
               &registered_at(&self.protocol_clerk, single_signature.signature.signer_index)->Some_0.0,
               registered_at(&self.protocol_clerk, single_signature.signature.signer_index)->Some_0.1,
               &avk_of(&self.protocol_clerk), msg_bytes(message))
    }),
{
        let protocol_signature = single_signature.to_protocol_signature();

        let avk = self.compute_aggregate_verification_key();

        // If there is no reg_party, then we simply received a signature from a non-registered
        // party, and we can ignore the request.
        let (vk, stake) = self
            .protocol_clerk
            .get_concatenation_registered_party_for_index(&protocol_signature.signer_index)?;

        // The signature must have been made with the key registered by the party it is attributed to.
        if party_key_differs(&self.registered_verification_keys, &single_signature.party_id, &vk) {
            return Err(anyhow_error());
        }

        protocol_signature
            .verify(
                &self.protocol_parameters,
                &vk,
                &stake,
                &avk,
                message.to_message().as_bytes(),
                
            )?;

        Ok(())
    }
// ---- end of extracted text ----
}

} // verus!
fn main() {}

// C06 — Verus on the working tree's text of mithril-common SignerBuilder::new: the one function through which signer,
// aggregator and client (SignerBuilder::new(..).compute_aggregate_verification_key()) derive the aggregate key. It registers
// every listed signer with ITS OWN key material, against a stake distribution derived from THE SAME list, and closes the
// registration with the given protocol parameters; nothing else enters the registration.
use vstd::prelude::*;
verus! {

pub type Stake = u64;
pub type PartyId = String;
#[verifier::external_body] #[derive(Clone, Copy)] pub struct KeyBytes { _p: core::marker::PhantomData<u8> }      // ProtocolKey<BLS vk + PoP> (Copy)
#[verifier::external_body] #[derive(Clone, Copy)] pub struct KesSigWrapper { _p: core::marker::PhantomData<u8> }
#[verifier::external_body] pub struct ProtocolOpCert { _p: core::marker::PhantomData<u8> }
#[derive(Clone, Copy)] pub struct KesEvolutions(pub u64);
#[verifier::external_body] pub struct ProtocolStakeDistribution { _p: core::marker::PhantomData<u8> }
#[verifier::external_body] pub struct ProtocolClosedKeyRegistration { _p: core::marker::PhantomData<u8> }
#[verifier::external_body] pub struct StmParameters { _p: core::marker::PhantomData<u8> }
pub struct StdError {}
pub enum SignerBuilderError { EmptySigners }

pub struct ProtocolParameters { pub k: u64, pub m: u64, pub phi_f: f64 }

pub struct SignerWithStake {
    pub party_id: PartyId,
    pub verification_key_for_concatenation: KeyBytes,
    pub verification_key_signature_for_concatenation: Option<KesSigWrapper>,
    pub operational_certificate: Option<ProtocolOpCert>,
    pub kes_evolutions: Option<KesEvolutions>,
    pub stake: Stake,
}

pub struct SignerRegistrationParameters {
    pub party_id: Option<PartyId>,
    pub operational_certificate: Option<ProtocolOpCert>,
    pub verification_key_for_concatenation: KeyBytes,
    pub verification_key_signature_for_concatenation: Option<KesSigWrapper>,
    pub kes_evolutions: Option<KesEvolutions>,
}

impl Clone for ProtocolOpCert { #[verifier::external_body] fn clone(&self) -> (r: Self) ensures r == *self { unimplemented!() } }
impl Clone for ProtocolParameters { #[verifier::external_body] fn clone(&self) -> (r: Self) ensures r == *self { unimplemented!() } }
impl ProtocolParameters {
    #[verifier::external_body]
    pub fn into(self) -> (r: StmParameters) ensures r == stm_params(self) { unimplemented!() }
}
pub uninterp spec fn stm_params(p: ProtocolParameters) -> StmParameters;
#[verifier::external_body]
fn string_to_owned(s: &String) -> (r: String) ensures r@ == s@ { s.clone() }

/// the registration as seen by its operations: the stake distribution it was initialised with and the sequence of
/// registration requests it accepted (KeyRegWrapper::register's own contract: C07)
#[verifier::external_body] pub struct ProtocolKeyRegistration { _p: core::marker::PhantomData<u8> }
pub uninterp spec fn reg_stakes(k: &ProtocolKeyRegistration) -> Map<Seq<char>, Stake>;
pub uninterp spec fn reg_requests(k: &ProtocolKeyRegistration) -> Seq<SignerRegistrationParameters>;
pub uninterp spec fn dist_map(d: &ProtocolStakeDistribution) -> Map<Seq<char>, Stake>;
pub uninterp spec fn closed_from(stakes: Map<Seq<char>, Stake>, requests: Seq<SignerRegistrationParameters>, params: StmParameters) -> ProtocolClosedKeyRegistration;

impl ProtocolKeyRegistration {
    #[verifier::external_body]
    pub fn init(stake_dist: &ProtocolStakeDistribution) -> (r: Self)
        ensures reg_stakes(&r) == dist_map(stake_dist), reg_requests(&r) == Seq::<SignerRegistrationParameters>::empty()
    { unimplemented!() }
    #[verifier::external_body]
    pub fn register(&mut self, parameters: SignerRegistrationParameters) -> (r: Result<PartyId, StdError>)
        ensures reg_stakes(final(self)) == reg_stakes(old(self)),
                r is Ok ==> reg_requests(final(self)) == reg_requests(old(self)).push(parameters),
                // the party id returned is the pool id bound to the operational certificate, or the claimed one without certificate (C07)
                r is Ok ==> r->Ok_0@ == registered_id(if parameters.party_id is Some { Some(parameters.party_id->Some_0@) } else { None }, parameters.operational_certificate),
    { unimplemented!() }
    #[verifier::external_body]
    pub fn close(self, protocol_params: &StmParameters) -> (r: Result<ProtocolClosedKeyRegistration, StdError>)
        ensures r is Ok ==> r->Ok_0 == closed_from(reg_stakes(&self), reg_requests(&self), *protocol_params)
    { unimplemented!() }
}

/// the stake distribution derived from the signer list: party id -> that signer's stake (later entries win, as in collect())
pub open spec fn stakes_of(signers: Seq<SignerWithStake>, j: int) -> Map<Seq<char>, Stake>
    decreases j
{
    if j <= 0 { Map::empty() } else { stakes_of(signers, j - 1).insert(signers[j - 1].party_id@, signers[j - 1].stake) }
}
/// contract of `registered_signers.iter().map(|s| s.into()).collect::<ProtocolStakeDistribution>()`
/// (From<&SignerWithStake> for (PartyId, Stake) copies party_id and stake)
#[verifier::external_body]
fn collect_stake_distribution(signers: &[SignerWithStake]) -> (r: ProtocolStakeDistribution)
    ensures dist_map(&r) == stakes_of(signers@, signers@.len() as int)
{ unimplemented!() }

/// the registration request built for one signer: its own party id, certificate, key signature, evolutions and key
pub open spec fn request_of(s: &SignerWithStake) -> SignerRegistrationParameters {
    SignerRegistrationParameters {
        party_id: Some(s.party_id), operational_certificate: s.operational_certificate,
        verification_key_for_concatenation: s.verification_key_for_concatenation,
        verification_key_signature_for_concatenation: s.verification_key_signature_for_concatenation, kes_evolutions: s.kes_evolutions,
    }
}
pub open spec fn same_request(a: SignerRegistrationParameters, b: SignerRegistrationParameters) -> bool {
    (a.party_id is Some) == (b.party_id is Some) && (a.party_id is Some ==> a.party_id->Some_0@ == b.party_id->Some_0@)
    && a.operational_certificate == b.operational_certificate && a.verification_key_for_concatenation == b.verification_key_for_concatenation
    && a.verification_key_signature_for_concatenation == b.verification_key_signature_for_concatenation && a.kes_evolutions == b.kes_evolutions
}

pub uninterp spec fn registered_id(claimed: Option<Seq<char>>, opcert: Option<ProtocolOpCert>) -> Seq<char>;
/// the BLS verification key inside a signer's key material (`.vk` of the key-with-proof-of-possession)
#[verifier::external_body] #[derive(Clone, Copy)] pub struct BlsVk { _p: core::marker::PhantomData<u8> }
pub uninterp spec fn bls_vk(k: KeyBytes) -> BlsVk;
#[verifier::external_body]
fn bls_key_of(k: &KeyBytes) -> (r: BlsVk) ensures r == bls_vk(*k) { unimplemented!() }
/// HashMap<PartyId, VerificationKeyForConcatenation> as a mathematical map (assumed contract on std)
#[verifier::external_body] pub struct RegisteredKeys { _p: core::marker::PhantomData<u8> }
pub uninterp spec fn key_map(m: &RegisteredKeys) -> Map<Seq<char>, BlsVk>;
impl RegisteredKeys {
    #[verifier::external_body]
    pub fn new() -> (r: Self) ensures key_map(&r) == Map::<Seq<char>, BlsVk>::empty() { unimplemented!() }
    #[verifier::external_body]
    pub fn insert(&mut self, id: PartyId, k: BlsVk) -> (r: Option<BlsVk>) ensures key_map(final(self)) == key_map(old(self)).insert(id@, k) { unimplemented!() }
}
/// party id registered for signer j-1 -> ITS OWN key, for the first j signers (later entries win)
pub open spec fn keys_of(signers: Seq<SignerWithStake>, j: int) -> Map<Seq<char>, BlsVk>
    decreases j
{
    if j <= 0 { Map::empty() } else {
        keys_of(signers, j - 1).insert(registered_id(Some(signers[j - 1].party_id@), signers[j - 1].operational_certificate), bls_vk(signers[j - 1].verification_key_for_concatenation))
    }
}

pub struct SignerBuilder { pub protocol_parameters: ProtocolParameters, pub closed_key_registration: ProtocolClosedKeyRegistration, pub registered_verification_keys: RegisteredKeys }

impl Clone for RegisteredKeys { #[verifier::external_body] fn clone(&self) -> (r: Self) ensures key_map(&r) == key_map(self) { unimplemented!() } }
#[verifier::external_body] pub struct ProtocolClerk { _p: core::marker::PhantomData<u8> }
pub uninterp spec fn clerk_source(c: &ProtocolClerk) -> (StmParameters, ProtocolClosedKeyRegistration);
impl ProtocolClerk {
    #[verifier::external_body]
    pub fn new_clerk_from_closed_key_registration(p: &StmParameters, c: &ProtocolClosedKeyRegistration) -> (r: Self) ensures clerk_source(&r) == (*p, *c) { unimplemented!() }
}
pub struct MultiSigner { pub protocol_clerk: ProtocolClerk, pub protocol_parameters: StmParameters, pub registered_verification_keys: RegisteredKeys }
impl MultiSigner {
    #[verifier::external_body]
    pub fn new(protocol_clerk: ProtocolClerk, protocol_parameters: StmParameters, registered_verification_keys: RegisteredKeys) -> (r: Self)
        ensures r.protocol_clerk == protocol_clerk, r.protocol_parameters == protocol_parameters, r.registered_verification_keys == registered_verification_keys
    { unimplemented!() }
}

impl SignerBuilder {
// ---- extracted from mithril-common/src/protocol/signer_builder.rs:90 (fn build_multi_signer) ----
fn build_multi_signer(&self) -> (ret: MultiSigner)
    ensures clerk_source(&ret.protocol_clerk) == (stm_params(self.protocol_parameters), self.closed_key_registration),
            ret.protocol_parameters == stm_params(self.protocol_parameters),
            // the multi-signer verifies single signatures against the builder's own party-id -> key table
            key_map(&ret.registered_verification_keys) == key_map(&self.registered_verification_keys),
{
        let stm_parameters = self.protocol_parameters.clone().into();
        let clerk = ProtocolClerk::new_clerk_from_closed_key_registration(
            &stm_parameters,
            &self.closed_key_registration,
        );

        MultiSigner::new(
            clerk,
            stm_parameters,
            self.registered_verification_keys.clone(),
        )
    }
// ---- end of extracted text ----

// ---- extracted from mithril-common/src/protocol/signer_builder.rs:41 (fn new) ----
fn new(
        registered_signers: &[SignerWithStake],
        protocol_parameters: &ProtocolParameters,
    ) -> (ret: Result<Self, StdError>)
    ensures ret is Ok ==> exists|reqs: Seq<SignerRegistrationParameters>| #![auto]
        reqs.len() == registered_signers@.len() && registered_signers@.len() > 0
        // one registration request per listed signer, in order, each built from THAT signer's own material ...
        && (forall|i: int| 0 <= i < reqs.len() ==> same_request(reqs[i], request_of(&registered_signers@[i])))
        // ... against the stake distribution derived from the same list, closed with the given parameters
        && ret->Ok_0.closed_key_registration == closed_from(stakes_of(registered_signers@, registered_signers@.len() as int), reqs, stm_params(*protocol_parameters))
        && ret->Ok_0.protocol_parameters == *protocol_parameters
        // the party-id -> key table handed to the multi-signer maps each REGISTERED party id to that signer's OWN key (C16)
        && key_map(&ret->Ok_0.registered_verification_keys) == keys_of(registered_signers@, registered_signers@.len() as int),
{
        if registered_signers.is_empty() {
            return Err(StdError {});
        }

        let stake_distribution = collect_stake_distribution(registered_signers);
        let mut key_registration = ProtocolKeyRegistration::init(&stake_distribution);
        let mut registered_verification_keys = RegisteredKeys::new();

        for signer in it: registered_signers.iter() 
        invariant
            0 <= it.index@ <= registered_signers@.len(),
            reg_stakes(&key_registration) == stakes_of(registered_signers@, registered_signers@.len() as int),
            reg_requests(&key_registration).len() == it.index@,
            key_map(&registered_verification_keys) == keys_of(registered_signers@, it.index@ as int),
            forall|i: int| 0 <= i < it.index@ ==> same_request(#[trigger] reg_requests(&key_registration)[i], request_of(&registered_signers@[i])),
    {
            let registered_party_id = key_registration
                .register(SignerRegistrationParameters {
                    party_id: Some(string_to_owned(&signer.party_id)),
                    operational_certificate: signer.operational_certificate.clone(),
                    verification_key_signature_for_concatenation: signer
                        .verification_key_signature_for_concatenation,
                    kes_evolutions: signer.kes_evolutions,
                    verification_key_for_concatenation: signer.verification_key_for_concatenation,
                    
                    
                })?;
            registered_verification_keys.insert(
                registered_party_id,
                bls_key_of(&signer.verification_key_for_concatenation),
            );
        }

        let closed_registration = key_registration.close(&protocol_parameters.clone().into())?;

        Ok(Self {
            protocol_parameters: protocol_parameters.clone(),
            closed_key_registration: closed_registration,
            registered_verification_keys,
        })
    }
// ---- end of extracted text ----
}

} // verus!
fn main() {}

// C01 — Verus on the working tree's text of SingleSignatureForConcatenation::check_indices (unbounded number of indices)
// and of the counting kernel used by ConcatenationProof::preliminary_verify (as a lemma over sequences and sets).
use vstd::prelude::*;
verus! {

pub type LotteryIndex = u64;
pub type Stake = u64;

#[verifier::external_body]
pub struct BlsSignature { _p: core::marker::PhantomData<u8> }

pub struct Parameters { pub m: u64, pub k: u64, pub phi_f: f64 }

/// the two variants of the real thiserror enum `SignatureError` that check_indices constructs
pub enum SignatureError { IndexBoundFailed(u64, u64), LotteryLost }

// callee contracts: uninterpreted functions of their arguments (BLS dense mapping: assumed; lottery: C08)
pub uninterp spec fn dense(sigma: &BlsSignature, msg: Seq<u8>, index: u64) -> Seq<u8>;
pub uninterp spec fn lottery(phi_f: f64, ev: Seq<u8>, stake: u64, total: u64) -> bool;

impl BlsSignature {
    #[verifier::external_body]
    pub fn evaluate_dense_mapping(&self, msg: &[u8], index: LotteryIndex) -> (r: [u8; 64])
        ensures r@ == dense(self, msg@, index)
    { unimplemented!() }
}

#[verifier::external_body]
fn is_lottery_won(phi_f: f64, ev: [u8; 64], stake: Stake, total_stake: Stake) -> (r: bool)
    ensures r == lottery(phi_f, ev@, stake, total_stake)
{ unimplemented!() }

pub struct SingleSignatureForConcatenation { pub sigma: BlsSignature, pub indexes: Vec<LotteryIndex> }

/// C01, per signature: every index lies in [0, m) and was genuinely won for this message by this signature with the
/// given stake and total stake.
pub open spec fn indices_ok(s: &SingleSignatureForConcatenation, params: &Parameters, stake: u64, msg: Seq<u8>, total: u64) -> bool {
    forall|j: int| 0 <= j < s.indexes@.len() ==>
        s.indexes@[j] < params.m
        && lottery(params.phi_f, dense(&s.sigma, msg, #[trigger] s.indexes@[j]), stake, total)
}

impl SingleSignatureForConcatenation {
// ---- extracted from mithril-stm/src/proof_system/concatenation/single_signature.rs:56 (fn check_indices) ----
fn check_indices(
        &self,
        params: &Parameters,
        stake: &Stake,
        msg: &[u8],
        total_stake: &Stake,
    ) -> (ret: Result<(), SignatureError>)
    ensures ret.is_ok() ==> indices_ok(self, params, *stake, msg@, *total_stake)
{
        for index in it: self.indexes.iter() 
        invariant forall|j: int| 0 <= j < it.index@ ==> self.indexes@[j] < params.m && lottery(params.phi_f, dense(&self.sigma, msg@, #[trigger] self.indexes@[j]), *stake, *total_stake),
    { let index = *index;
            if index >= params.m {
                return Err(SignatureError::IndexBoundFailed(index, params.m));
            }

            let ev = self.sigma.evaluate_dense_mapping(msg, index);

            if !is_lottery_won(params.phi_f, ev, *stake, *total_stake) {
                return Err(SignatureError::LotteryLost);
            }
        }
        Ok(())
    }
// ---- end of extracted text ----
}

// ---- counting kernel of preliminary_verify -----------------------------------------------------------------
// preliminary_verify inserts every index of every signature into a HashSet and accepts only if the number of
// insertions equals the size of the set. Lemma: then the inserted sequence has no repetition.

proof fn lemma_count_equals_set_size_implies_distinct(s: Seq<u64>)
    requires s.to_set().len() == s.len(),
    ensures s.no_duplicates(),
    decreases s.len(),
{
    s.lemma_cardinality_of_set();
    if !s.no_duplicates() {
        // two equal positions i < j: removing position j leaves the same set, whose size is then <= len - 1
        let (i, j) = choose|i: int, j: int| 0 <= i < s.len() && 0 <= j < s.len() && i != j && s[i] == s[j];
        let t = s.remove(j);
        assert(t.len() == s.len() - 1);
        assert forall|x: u64| s.to_set().contains(x) implies t.to_set().contains(x) by {
            let p = choose|p: int| 0 <= p < s.len() && s[p] == x;
            if p == j {
                let q = if i < j { i } else { i - 1 };
                assert(t[q] == s[i]);
            } else {
                let q = if p < j { p } else { p - 1 };
                assert(t[q] == s[p]);
            }
        }
        assert forall|x: u64| t.to_set().contains(x) implies s.to_set().contains(x) by {
            let p = choose|p: int| 0 <= p < t.len() && t[p] == x;
            let q = if p < j { p } else { p + 1 };
            assert(s[q] == t[p]);
        }
        assert(t.to_set() =~= s.to_set());
        t.lemma_cardinality_of_set();
        assert(false);
    }
}

} // verus!
fn main() {}

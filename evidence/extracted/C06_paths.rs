// C06 (clause "they do not depend on ... which node computes them (signer, aggregator, or client re-computing a
// stake-distribution message)") — Verus on the working tree's text of the client's and the signer's computation paths:
//   mithril-client  MessageBuilder::compute_mithril_stake_distribution_message
//   mithril-signer  MithrilSingleSigner::build_protocol_single_signer
// Each path hands exactly (the signer list it was given, the protocol parameters it was given) to SignerBuilder::new - the one
// function (unit signer_builder) through which the aggregate key is derived - and uses that builder's result unchanged.
// The aggregator's path (MithrilEpochService::precompute_epoch_data) is the unit aggregator_epoch_service.
// Default features (future_snark stripped).
use vstd::prelude::*;
verus! {

pub type PartyId = String;
pub struct StdError {}
#[verifier::external_body] pub struct SignerWithStake { _p: core::marker::PhantomData<u8> }
#[verifier::external_body] pub struct SignerWithStakeMessagePart { _p: core::marker::PhantomData<u8> }
#[verifier::external_body] pub struct ProtocolParameters { _p: core::marker::PhantomData<u8> }
#[verifier::external_body] pub struct StmParameters { _p: core::marker::PhantomData<u8> }
#[verifier::external_body] pub struct ProtocolAggregateVerificationKey { _p: core::marker::PhantomData<u8> }
#[verifier::external_body] pub struct ConcatenationAvk { _p: core::marker::PhantomData<u8> }
#[verifier::external_body] pub struct ProtocolKey { _p: core::marker::PhantomData<u8> }
#[verifier::external_body] pub struct ProtocolMessage { _p: core::marker::PhantomData<u8> }
#[verifier::external_body] pub struct ProtocolInitializer { _p: core::marker::PhantomData<u8> }
#[verifier::external_body] pub struct ProtocolSingleSigner { _p: core::marker::PhantomData<u8> }
#[verifier::external_body] pub struct SignerBuilder { _p: core::marker::PhantomData<u8> }
pub enum ProtocolMessagePartKey { NextAggregateVerificationKey, Other }

// ---- SignerBuilder (mithril-common; its own contract: unit signer_builder) ----
pub uninterp spec fn built_from(b: &SignerBuilder) -> (Seq<SignerWithStake>, ProtocolParameters);
pub uninterp spec fn avk_of(src: (Seq<SignerWithStake>, ProtocolParameters)) -> ProtocolAggregateVerificationKey;
pub uninterp spec fn concatenation_part(k: &ProtocolAggregateVerificationKey) -> ConcatenationAvk;
pub uninterp spec fn key_content(k: &ProtocolKey) -> ConcatenationAvk;
pub uninterp spec fn json_hex(k: ConcatenationAvk) -> Seq<char>;
/// the single signer a builder restores for (party id, key material)
pub uninterp spec fn restored(src: (Seq<SignerWithStake>, ProtocolParameters), party_id: Seq<char>, i: ProtocolInitializer) -> ProtocolSingleSigner;
impl SignerBuilder {
    #[verifier::external_body]
    pub fn new(signers: &Vec<SignerWithStake>, p: &ProtocolParameters) -> (r: Result<SignerBuilder, StdError>)
        ensures r is Ok ==> built_from(&r->Ok_0) == (signers@, *p)
    { unimplemented!() }
    #[verifier::external_body]
    pub fn compute_aggregate_verification_key(&self) -> (r: ProtocolAggregateVerificationKey) ensures r == avk_of(built_from(self)) { unimplemented!() }
    #[verifier::external_body]
    pub fn restore_signer_from_initializer(&self, party_id: PartyId, i: ProtocolInitializer) -> (r: Result<ProtocolSingleSigner, StdError>)
        ensures r is Ok ==> r->Ok_0 == restored(built_from(self), party_id@, i)
    { unimplemented!() }
}
impl ProtocolAggregateVerificationKey {
    #[verifier::external_body]
    pub fn to_concatenation_aggregate_verification_key(&self) -> (r: &ConcatenationAvk) ensures *r == concatenation_part(self) { unimplemented!() }
}
impl ConcatenationAvk { #[verifier::external_body] pub fn to_owned(&self) -> (r: Self) ensures r == *self { unimplemented!() } }
impl ProtocolKey {
    #[verifier::external_body]
    pub fn new(k: ConcatenationAvk) -> (r: ProtocolKey) ensures key_content(&r) == k { unimplemented!() }
    #[verifier::external_body]
    pub fn to_json_hex(&self) -> (r: Result<String, StdError>) ensures r is Ok ==> r->Ok_0@ == json_hex(key_content(self)) { unimplemented!() }
}

// ---- client side ----
pub uninterp spec fn message_parts(m: &ProtocolMessage) -> Map<ProtocolMessagePartKey, Seq<char>>;
impl Clone for ProtocolMessage { #[verifier::external_body] fn clone(&self) -> (r: Self) ensures r == *self { unimplemented!() } }
impl ProtocolMessage {
    #[verifier::external_body]
    pub fn set_message_part(&mut self, key: ProtocolMessagePartKey, value: String) -> (r: Option<String>)
        ensures message_parts(final(self)) == message_parts(old(self)).insert(key, value@)
    { unimplemented!() }
}
/// the signer list a stake-distribution message converts to (SignerWithStakeMessagePart::try_into_signers: hex decoding per field)
pub uninterp spec fn decoded_signers(m: Seq<SignerWithStakeMessagePart>) -> Seq<SignerWithStake>;
pub struct MithrilSigner {}
impl MithrilSigner {
    #[verifier::external_body]
    pub fn try_into_signers(messages: Vec<SignerWithStakeMessagePart>) -> (r: Result<Vec<SignerWithStake>, StdError>)
        ensures r is Ok ==> r->Ok_0@ == decoded_signers(messages@)
    { unimplemented!() }
}
#[verifier::external_body]
fn clone_parts(v: &Vec<SignerWithStakeMessagePart>) -> (r: Vec<SignerWithStakeMessagePart>) ensures r@ == v@ { unimplemented!() }
pub struct CertificateMetadata { pub protocol_parameters: ProtocolParameters }
pub struct MithrilCertificate { pub protocol_message: ProtocolMessage, pub metadata: CertificateMetadata }
pub struct MithrilStakeDistribution { pub signers_with_stake: Vec<SignerWithStakeMessagePart>, pub protocol_parameters: ProtocolParameters }
pub struct MessageBuilder {}

impl MessageBuilder {
// ---- extracted from mithril-client/src/message.rs:55 (fn compute_mithril_stake_distribution_message) ----
fn compute_mithril_stake_distribution_message(
        &self,
        certificate: &MithrilCertificate,
        mithril_stake_distribution: &MithrilStakeDistribution,
    ) -> (ret: Result<ProtocolMessage, StdError>)
    ensures ret is Ok ==> message_parts(&ret->Ok_0) == message_parts(&certificate.protocol_message).insert(
        ProtocolMessagePartKey::NextAggregateVerificationKey,
        // the key SignerBuilder derives from exactly (the distribution's signers, the distribution's parameters), JSON-hex encoded
        json_hex(concatenation_part(&avk_of((decoded_signers(mithril_stake_distribution.signers_with_stake@), mithril_stake_distribution.protocol_parameters)))))
{
        let signers =
            MithrilSigner::try_into_signers(clone_parts(&mithril_stake_distribution.signers_with_stake))?;

        let signer_builder =
            SignerBuilder::new(&signers, &mithril_stake_distribution.protocol_parameters)?;

        let aggregate_verification_key = signer_builder.compute_aggregate_verification_key();

        let avk = ProtocolKey::new(
            aggregate_verification_key
                .to_concatenation_aggregate_verification_key()
                .to_owned(),
        )
        .to_json_hex()?;

        let mut message = certificate.protocol_message.clone();
        message.set_message_part(ProtocolMessagePartKey::NextAggregateVerificationKey, avk);

        

        Ok(message)
    }
// ---- end of extracted text ----
}

// ---- signer side ----
impl Clone for ProtocolInitializer { #[verifier::external_body] fn clone(&self) -> (r: Self) ensures r == *self { unimplemented!() } }
pub uninterp spec fn initializer_parameters(i: &ProtocolInitializer) -> ProtocolParameters;
impl ProtocolInitializer {
    #[verifier::external_body]
    pub fn get_protocol_parameters(&self) -> (r: StmParameters) ensures common_parameters(r) == initializer_parameters(self) { unimplemented!() }
}
pub uninterp spec fn common_parameters(p: StmParameters) -> ProtocolParameters;
impl StmParameters { #[verifier::external_body] pub fn into(self) -> (r: ProtocolParameters) ensures r == common_parameters(self) { unimplemented!() } }
/// the signer's epoch service (its own contracts: C20 unit signer_gate)
#[verifier::external_body] pub struct EpochService { _p: core::marker::PhantomData<u8> }
pub uninterp spec fn service_initializer(s: &EpochService) -> Option<ProtocolInitializer>;
pub uninterp spec fn service_current_signers_with_stake(s: &EpochService) -> Seq<SignerWithStake>;
pub uninterp spec fn service_next_signers_with_stake(s: &EpochService) -> Seq<SignerWithStake>;
pub uninterp spec fn service_registration_parameters(s: &EpochService) -> ProtocolParameters;
impl EpochService {
    #[verifier::external_body]
    pub fn next_signers_with_stake(&self) -> (r: Result<Vec<SignerWithStake>, StdError>) ensures r is Ok ==> r->Ok_0@ == service_next_signers_with_stake(self) { unimplemented!() }
    #[verifier::external_body]
    pub fn registration_protocol_parameters(&self) -> (r: Result<&ProtocolParameters, StdError>) ensures r is Ok ==> *r->Ok_0 == service_registration_parameters(self) { unimplemented!() }
    #[verifier::external_body]
    pub fn protocol_initializer(&self) -> (r: Result<&Option<ProtocolInitializer>, StdError>) ensures r is Ok ==> *r->Ok_0 == service_initializer(self) { unimplemented!() }
    #[verifier::external_body]
    pub fn current_signers_with_stake(&self) -> (r: Result<Vec<SignerWithStake>, StdError>) ensures r is Ok ==> r->Ok_0@ == service_current_signers_with_stake(self) { unimplemented!() }
}
#[verifier::external_body]
fn string_clone(s: &String) -> (r: String) ensures r@ == s@ { s.clone() }
pub struct MithrilSingleSigner { pub party_id: PartyId, pub epoch_service: EpochService }

impl MithrilSingleSigner {
// ---- extracted from mithril-signer/src/services/single_signer.rs:92 (fn build_protocol_single_signer) ----
fn build_protocol_single_signer(&self) -> (ret: Result<ProtocolSingleSigner, StdError>)
    ensures ret is Ok ==> service_initializer(&self.epoch_service) is Some && ({
        let i = service_initializer(&self.epoch_service)->Some_0;
        // the signer restored by SignerBuilder from exactly (the epoch's signers with stake, the key material's own parameters),
        // for this party and this key material
        ret->Ok_0 == restored((service_current_signers_with_stake(&self.epoch_service), initializer_parameters(&i)), self.party_id@, i)
    }),
{
        let epoch_service = &self.epoch_service;
        let protocol_initializer =
            epoch_service.protocol_initializer()?.as_ref().ok_or(StdError {})?;

        #[cfg(not(feature = "future_snark"))]
        let protocol_initializer = protocol_initializer.clone();
        

        let current_signers_with_stake = epoch_service.current_signers_with_stake()?;

        

        let builder = SignerBuilder::new(
            &current_signers_with_stake,
            &protocol_initializer.get_protocol_parameters().into(),
        )?;

        let single_signer = builder
            .restore_signer_from_initializer(string_clone(&self.party_id), protocol_initializer)?;

        Ok(single_signer)
    }
// ---- end of extracted text ----
}

} // verus!
fn main() {}

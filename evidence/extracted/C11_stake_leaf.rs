// C11 (stake distribution) — the Merkle leaf of a (pool id, stake) entry, on the working tree's text of
// `impl From<StakeDistributionEntry> for MKTreeNode` (mithril-common signable_builder/cardano_stake_distribution.rs).
// The client recomputes the Merkle root from the served distribution; "the verified distribution is exactly the certified
// mapping" needs distinct entries to give distinct leaves.
use vstd::prelude::*;
verus! {

pub struct StakeDistributionEntry(pub String, pub u64);
pub struct MKTreeNode { pub bytes: Vec<u8> }

pub uninterp spec fn dec(v: u64) -> Seq<char>;          // Display of u64: decimal digits
pub uninterp spec fn utf8(s: Seq<char>) -> Seq<u8>;     // String -> Vec<u8>

/// std::fmt contract: format!("{}{}", a, b) is the concatenation of the two Display outputs
#[verifier::external_body]
fn format_2(a: &String, b: u64) -> (r: String) ensures r@ == a@ + dec(b) { format!("{}{}", a, b) }
#[verifier::external_body]
fn string_into_bytes(s: String) -> (r: Vec<u8>) ensures r@ == utf8(s@) { s.into() }

impl MKTreeNode {
    pub fn new(hash: Vec<u8>) -> (r: Self) ensures r.bytes@ == hash@ { MKTreeNode { bytes: hash } }

// ---- extracted from mithril-common/src/signable_builder/cardano_stake_distribution.rs:33 (fn from) ----
fn from(entry: StakeDistributionEntry) -> (ret: MKTreeNode)
    ensures ret.bytes@ == utf8(entry.0@ + dec(entry.1))
{
        MKTreeNode::new(string_into_bytes(format_2(&entry.0, entry.1)))
    }
// ---- end of extracted text ----
}

/// THE OBLIGATION (C11): two different (pool id, stake) entries never have the same leaf. With utf8 and dec injective
/// this is injectivity of `pool_id ++ dec(stake)` - which does not hold when characters can move between the identifier
/// and the number (recorded as a known finding; see c11_same_length_ids_distinct_leaves for the honest-format case).
fn c11_distinct_entries_distinct_leaves(e1: StakeDistributionEntry, e2: StakeDistributionEntry) -> (r: (MKTreeNode, MKTreeNode))
    requires
        e1.0@ != e2.0@ || e1.1 != e2.1,
        forall|a: Seq<char>, b: Seq<char>| #[trigger] utf8(a) == #[trigger] utf8(b) ==> a == b,
        forall|a: u64, b: u64| #[trigger] dec(a) == #[trigger] dec(b) ==> a == b,
    ensures r.0.bytes@ != r.1.bytes@,
{
    (MKTreeNode::from(e1), MKTreeNode::from(e2))
}

/// the honest format: pool identifiers of one fixed length (bech32 pool ids are 56 characters): then the leaf is injective
fn c11_same_length_ids_distinct_leaves(e1: StakeDistributionEntry, e2: StakeDistributionEntry) -> (r: (MKTreeNode, MKTreeNode))
    requires
        e1.0@ != e2.0@ || e1.1 != e2.1,
        e1.0@.len() == e2.0@.len(),
        forall|a: Seq<char>, b: Seq<char>| #[trigger] utf8(a) == #[trigger] utf8(b) ==> a == b,
        forall|a: u64, b: u64| #[trigger] dec(a) == #[trigger] dec(b) ==> a == b,
    ensures r.0.bytes@ != r.1.bytes@,
{
    proof {
        let (a1, a2, d1, d2) = (e1.0@, e2.0@, dec(e1.1), dec(e2.1));
        if a1 + d1 == a2 + d2 {
            assert((a1 + d1).subrange(0, a1.len() as int) =~= a1);
            assert((a2 + d2).subrange(0, a2.len() as int) =~= a2);
            assert((a1 + d1).subrange(a1.len() as int, (a1 + d1).len() as int) =~= d1);
            assert((a2 + d2).subrange(a2.len() as int, (a2 + d2).len() as int) =~= d2);
            assert(a1 == a2 && d1 == d2);
        }
    }
    (MKTreeNode::from(e1), MKTreeNode::from(e2))
}

} // verus!
fn main() {}

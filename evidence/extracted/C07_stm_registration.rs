// C07 — mithril-stm side of a registration: RegistrationEntry::new (proof of possession), KeyRegistration::register_by_entry
// (a key cannot be registered twice; nothing else changes), KeyRegistration::register; on the working tree's text.
use vstd::prelude::*;
verus! {

pub type Stake = u64;
#[verifier::external_body]
#[derive(Clone, Copy)]
pub struct VerificationKeyForConcatenation { _p: core::marker::PhantomData<u8> }
#[derive(Clone, Copy)]
pub struct VerificationKeyProofOfPossessionForConcatenation { pub vk: VerificationKeyForConcatenation, pub pop: u8 }
pub struct PopErr {}

pub uninterp spec fn pop_valid(k: &VerificationKeyProofOfPossessionForConcatenation) -> bool;      // BLS proof of possession (blst), assumed sound

impl VerificationKeyProofOfPossessionForConcatenation {
    #[verifier::external_body]
    pub fn verify_proof_of_possession(&self) -> (r: Result<(), PopErr>) ensures r is Ok ==> pop_valid(self) { unimplemented!() }
}

#[derive(Clone, Copy)]
pub struct RegistrationEntry(pub VerificationKeyForConcatenation, pub Stake);

pub enum RegisterError {
    EntryAlreadyRegistered(Box<RegistrationEntry>),
    ConcatenationKeyInvalid(Box<VerificationKeyForConcatenation>),
    Other,
}

impl RegistrationEntry {
// ---- extracted from mithril-stm/src/protocol/key_registration/registration_entry.rs:28 (fn new) ----
fn new(
        bls_verification_key_proof_of_possession: VerificationKeyProofOfPossessionForConcatenation,
        stake: Stake,
        
    ) -> (ret: Result<Self, RegisterError>)
    ensures ret is Ok ==> pop_valid(&bls_verification_key_proof_of_possession) && ret->Ok_0.0 == bls_verification_key_proof_of_possession.vk && ret->Ok_0.1 == stake
{
        bls_verification_key_proof_of_possession
            .verify_proof_of_possession()
            .map_err(|_e: PopErr| -> (r: RegisterError) {
                RegisterError::ConcatenationKeyInvalid(Box::new(
                    bls_verification_key_proof_of_possession.vk,
                ))
            })?;

        

        Ok(RegistrationEntry(
            bls_verification_key_proof_of_possession.vk,
            stake,
            
        ))
    }
// ---- end of extracted text ----

// ---- extracted from mithril-stm/src/protocol/key_registration/registration_entry.rs:59 (fn get_verification_key_for_concatenation) ----
fn get_verification_key_for_concatenation(&self) -> (ret: VerificationKeyForConcatenation)
    ensures ret == self.0
{
        self.0
    }
// ---- end of extracted text ----

// ---- extracted from mithril-stm/src/protocol/key_registration/registration_entry.rs:70 (fn get_stake) ----
fn get_stake(&self) -> (ret: Stake)
    ensures ret == self.1
{
        self.1
    }
// ---- end of extracted text ----
}

// std HashSet<VerificationKey> / BTreeSet<RegistrationEntry> as mathematical sets (assumed contract on std)
#[verifier::external_body] pub struct KeySet { _p: core::marker::PhantomData<u8> }
#[verifier::external_body] pub struct EntrySet { _p: core::marker::PhantomData<u8> }
pub uninterp spec fn keys(s: &KeySet) -> Set<VerificationKeyForConcatenation>;
pub uninterp spec fn entries(s: &EntrySet) -> Set<RegistrationEntry>;
impl KeySet {
    #[verifier::external_body]
    pub fn contains(&self, k: &VerificationKeyForConcatenation) -> (r: bool) ensures r == keys(self).contains(*k) { unimplemented!() }
    #[verifier::external_body]
    pub fn insert(&mut self, k: VerificationKeyForConcatenation) -> (r: bool) ensures keys(final(self)) == keys(old(self)).insert(k), r == !keys(old(self)).contains(k) { unimplemented!() }
}
impl EntrySet {
    #[verifier::external_body]
    pub fn insert(&mut self, e: RegistrationEntry) -> (r: bool) ensures entries(final(self)) == entries(old(self)).insert(e), r == !entries(old(self)).contains(e) { unimplemented!() }
}

pub struct KeyRegistration {
    pub registration_entries: EntrySet,
    pub registered_keys_for_concatenation: KeySet,
}

impl KeyRegistration {
// ---- extracted from mithril-stm/src/protocol/key_registration/register.rs:41 (fn register_by_entry) ----
fn register_by_entry(&mut self, entry: &RegistrationEntry) -> (ret: Result<(), RegisterError>)
    ensures
        // the key is not already registered ...
        ret is Ok ==> !keys(&old(self).registered_keys_for_concatenation).contains(entry.0),
        keys(&old(self).registered_keys_for_concatenation).contains(entry.0) ==> ret is Err,
        // ... and on success exactly this entry / key is added, nothing else changes
        ret is Ok ==> keys(&final(self).registered_keys_for_concatenation) == keys(&old(self).registered_keys_for_concatenation).insert(entry.0)
                  && entries(&final(self).registration_entries) == entries(&old(self).registration_entries).insert(*entry),
        ret is Err ==> keys(&final(self).registered_keys_for_concatenation) == keys(&old(self).registered_keys_for_concatenation)
                  && entries(&final(self).registration_entries) == entries(&old(self).registration_entries),
{
        let vk_concatenation = entry.get_verification_key_for_concatenation();
        let is_already_registered =
            self.registered_keys_for_concatenation.contains(&vk_concatenation);

        

        if is_already_registered {
            return Err(RegisterError::EntryAlreadyRegistered(Box::new(*entry)));
        }

        self.registered_keys_for_concatenation.insert(vk_concatenation);
        
        self.registration_entries.insert(*entry);

        Ok(())
    }
// ---- end of extracted text ----

// ---- extracted from mithril-stm/src/protocol/key_registration/register.rs:69 (fn register) ----
fn register(
        &mut self,
        stake: Stake,
        vk_pop: &VerificationKeyProofOfPossessionForConcatenation,
        
    ) -> (ret: Result<(), RegisterError>)
    ensures
        ret is Ok ==> pop_valid(vk_pop) && !keys(&old(self).registered_keys_for_concatenation).contains(vk_pop.vk)
                  && entries(&final(self).registration_entries) == entries(&old(self).registration_entries).insert(RegistrationEntry(vk_pop.vk, stake))
                  && keys(&final(self).registered_keys_for_concatenation) == keys(&old(self).registered_keys_for_concatenation).insert(vk_pop.vk),
        ret is Err ==> entries(&final(self).registration_entries) == entries(&old(self).registration_entries),
{
        let entry = RegistrationEntry::new(
            *vk_pop,
            stake,
            
        )?;
        self.register_by_entry(&entry)
    }
// ---- end of extracted text ----
}

} // verus!
fn main() {}

// C03 — Verus on the working tree's text of the certificate verifier's acceptance rule
// (mithril-common/src/certificate_chain/certificate_verifier.rs). Entities are declared abstractly with exactly the fields
// the verifier reads; cryptography, hashing and decoding are callee contracts (uninterpreted functions of their operands).
use vstd::prelude::*;
verus! {

// std semantics of Option::is_some_and (closure called on the payload iff Some)
pub assume_specification<T, F: FnOnce(T) -> bool>[Option::<T>::is_some_and](o: Option<T>, f: F) -> (r: bool)
    requires o is Some ==> f.requires((o->Some_0,)),
    ensures o is None ==> !r, o is Some ==> f.ensures((o->Some_0,), r);

#[derive(Clone, Copy)]
pub struct Epoch(pub u64);

impl vstd::std_specs::cmp::PartialEqSpecImpl for Epoch {
    open spec fn obeys_eq_spec() -> bool { true }
    open spec fn eq_spec(&self, other: &Epoch) -> bool { self.0 == other.0 }
}
impl PartialEq for Epoch {
    #[verifier::external_body]
    fn eq(&self, other: &Self) -> bool { self.0 == other.0 }
}

impl vstd::std_specs::cmp::PartialOrdSpecImpl for Epoch {
    open spec fn obeys_partial_cmp_spec() -> bool { true }
    open spec fn partial_cmp_spec(&self, other: &Epoch) -> Option<core::cmp::Ordering> {
        Some(if self.0 < other.0 { core::cmp::Ordering::Less } else if self.0 == other.0 { core::cmp::Ordering::Equal } else { core::cmp::Ordering::Greater })
    }
}
impl PartialOrd for Epoch {
    #[verifier::external_body]
    fn partial_cmp(&self, other: &Self) -> Option<core::cmp::Ordering> { self.0.partial_cmp(&other.0) }
}

impl Epoch {
    /// contract of the real `u64::abs_diff`
// ---- extracted from mithril-common/src/entities/epoch.rs:107 (fn has_gap_with) ----
fn has_gap_with(&self, other: &Epoch) -> (ret: bool)
    ensures ret == !(self.0 == other.0 || self.0 as int + 1 == other.0 as int || other.0 as int + 1 == self.0 as int)
{
        self.0.abs_diff(other.0) > 1
    }
// ---- end of extracted text ----
}

/// std semantics of u64::abs_diff
pub assume_specification[u64::abs_diff](a: u64, b: u64) -> (r: u64)
    ensures r as int == (if a >= b { a - b } else { b - a });

// ---- abstract entities -----------------------------------------------------------------------------------
#[verifier::external_body] pub struct ProtocolParameters { _p: core::marker::PhantomData<u8> }
#[verifier::external_body] pub struct ProtocolMessage { _p: core::marker::PhantomData<u8> }
#[verifier::external_body] pub struct Avk { _p: core::marker::PhantomData<u8> }
#[verifier::external_body] pub struct FullAvk { _p: core::marker::PhantomData<u8> }
#[verifier::external_body] pub struct ProtocolMultiSignature { _p: core::marker::PhantomData<u8> }
#[verifier::external_body] pub struct GenesisSignature { _p: core::marker::PhantomData<u8> }
#[verifier::external_body] pub struct SignedEntityType { _p: core::marker::PhantomData<u8> }
#[verifier::external_body] pub struct AncillaryVerifierData { _p: core::marker::PhantomData<u8> }
#[verifier::external_body] pub struct AncillaryInner { _p: core::marker::PhantomData<u8> }
#[verifier::external_body] pub struct GenesisVerifier { _p: core::marker::PhantomData<u8> }
#[verifier::external_body] pub struct GenesisVerificationKey { _p: core::marker::PhantomData<u8> }

pub enum AggregateSignatureType { Concatenation }
pub uninterp spec fn sig_type(s: &ProtocolMultiSignature) -> AggregateSignatureType;

impl CertificateSignature {
    /// contract of the real accessor: Some(type of the multi-signature) exactly for standard certificates
    #[verifier::external_body]
    pub fn aggregate_signature_type(&self) -> (r: Option<AggregateSignatureType>)
        ensures (r is Some) == (self is MultiSignature), r is Some ==> r->Some_0 == sig_type(&self->MultiSignature_1)
    { unimplemented!() }
}
impl AggregateSignatureType {
    /// only (future) recursive proof types certify the whole chain; the concatenation type does not
    #[verifier::external_body]
    pub fn certifies_full_certificate_chain(&self) -> (r: bool) ensures r == false { unimplemented!() }
}

pub struct CertificateMetadata { pub protocol_parameters: ProtocolParameters }

pub enum CertificateSignature {
    GenesisSignature(GenesisSignature),
    MultiSignature(SignedEntityType, ProtocolMultiSignature),
}

pub struct Certificate {
    pub hash: String,
    pub previous_hash: String,
    pub epoch: Epoch,
    pub metadata: CertificateMetadata,
    pub protocol_message: ProtocolMessage,
    pub signed_message: String,
    pub aggregate_verification_key: Avk,
    pub ancillary_verifier_data: Option<AncillaryVerifierData>,
    pub signature: CertificateSignature,
}

pub enum CertificateVerifierError {
    VerifyMultiSignature,
    CertificateGenesis,
    CertificateHashUnmatch,
    CertificateChainPreviousHashUnmatch,
    CertificateProtocolMessageUnmatch,
    CertificateChainAVKUnmatch,
    CertificateChainProtocolParametersUnmatch,
    CertificateEpochUnmatch,
    CertificateChainMissingEpoch,
    CertificateChainInfiniteLoop,
    InvalidGenesisCertificateProvided,
    InvalidStandardCertificateProvided,
    Retriever,
}

// ---- clause predicates of the statement (uninterpreted where they involve hashing / cryptography) ------------
pub uninterp spec fn content_hash(c: &Certificate) -> Seq<char>;          // SHA-256 over the certificate's content
pub uninterp spec fn message_digest(m: &ProtocolMessage) -> Seq<char>;    // digest of the protocol message
pub uninterp spec fn multisig_valid(msg: Seq<u8>, sig: &ProtocolMultiSignature, avk: &Avk, params: &ProtocolParameters, anc: Option<AncillaryInner>) -> bool;
pub uninterp spec fn genesis_sig_valid(msg: Seq<u8>, sig: &GenesisSignature) -> bool;
pub uninterp spec fn str_bytes(s: Seq<char>) -> Seq<u8>;                 // UTF-8 bytes of a string
pub uninterp spec fn concat_part(k: &FullAvk) -> Avk;                    // the concatenation key inside the full aggregate key
pub uninterp spec fn anc_inner(a: AncillaryVerifierData) -> AncillaryInner;
pub open spec fn anc_of(c: &Certificate) -> Option<AncillaryInner> {
    if c.ancillary_verifier_data is Some { Some(anc_inner(c.ancillary_verifier_data->Some_0)) } else { None }
}
pub uninterp spec fn avk_eq(a: &Avk, b: &Avk) -> bool;
pub uninterp spec fn params_eq(a: &ProtocolParameters, b: &ProtocolParameters) -> bool;

/// the signed message carries the certificate's epoch
pub open spec fn signed_epoch_is(m: &ProtocolMessage, e: Epoch) -> bool {
    part(m, ProtocolMessagePartKey::CurrentEpoch) == Some(epoch_string(e))
}
/// the previous certificate's signed message commits to exactly this aggregate key
pub open spec fn commits_next_avk(m: &ProtocolMessage, avk: &Avk) -> bool {
    part(m, ProtocolMessagePartKey::NextAggregateVerificationKey) is Some
    && decode_avk(part(m, ProtocolMessagePartKey::NextAggregateVerificationKey)->Some_0) is Some
    && avk_eq(&decode_avk(part(m, ProtocolMessagePartKey::NextAggregateVerificationKey)->Some_0)->Some_0, avk)
}
/// ... and to exactly these parameters
pub open spec fn commits_next_params(m: &ProtocolMessage, p: &ProtocolParameters) -> bool {
    part(m, ProtocolMessagePartKey::NextProtocolParameters) == Some(params_hash(p))
}

pub open spec fn is_multisig(c: &Certificate) -> bool { c.signature is MultiSignature }

pub open spec fn integrity(c: &Certificate) -> bool {
    &&& c.signature is MultiSignature
    &&& c.hash@ != c.previous_hash@
    &&& c.hash@ == content_hash(c)
    &&& c.signed_message@ == message_digest(&c.protocol_message)
    &&& multisig_valid(str_bytes(c.signed_message@), &c.signature->MultiSignature_1, &c.aggregate_verification_key, &c.metadata.protocol_parameters, anc_of(c))
    &&& signed_epoch_is(&c.protocol_message, c.epoch)
}

pub open spec fn epoch_link(c: &Certificate, p: &Certificate) -> bool {
    p.epoch.0 == c.epoch.0 || p.epoch.0 as int + 1 == c.epoch.0 as int
}
pub open spec fn hash_link(c: &Certificate, p: &Certificate) -> bool { p.hash@ == c.previous_hash@ }
pub open spec fn avk_link(c: &Certificate, p: &Certificate) -> bool {
    if p.epoch.0 == c.epoch.0 { avk_eq(&p.aggregate_verification_key, &c.aggregate_verification_key) }
    else { commits_next_avk(&p.protocol_message, &c.aggregate_verification_key) }
}
pub open spec fn params_link(c: &Certificate, p: &Certificate) -> bool {
    if p.epoch.0 == c.epoch.0 { params_eq(&p.metadata.protocol_parameters, &c.metadata.protocol_parameters) }
    else { commits_next_params(&p.protocol_message, &c.metadata.protocol_parameters) }
}

/// C03, one link: what `verify_standard_certificate(c, p)` must imply
pub open spec fn standard_link(c: &Certificate, p: &Certificate) -> bool {
    integrity(c) && epoch_link(c, p) && hash_link(c, p) && avk_link(c, p) && params_link(c, p)
}

/// the retriever was asked for exactly this hash and answered with this certificate (untrusted provider: nothing is
/// assumed about the answer)
pub uninterp spec fn retrieved(hash: Seq<char>, answer: &Certificate) -> bool;

pub open spec fn genesis_ok(c: &Certificate) -> bool {
    &&& c.signature is GenesisSignature
    &&& c.hash@ == content_hash(c)
    &&& c.signed_message@ == message_digest(&c.protocol_message)
    &&& genesis_sig_valid(str_bytes(c.signed_message@), &c.signature->GenesisSignature_0)
    &&& signed_epoch_is(&c.protocol_message, c.epoch)
}

// ---- protocol message parts ------------------------------------------------------------------------------------
pub enum ProtocolMessagePartKey { CurrentEpoch, NextAggregateVerificationKey, NextProtocolParameters, Other }
pub type ProtocolMessagePartValue = String;
pub uninterp spec fn part(m: &ProtocolMessage, k: ProtocolMessagePartKey) -> Option<Seq<char>>;
pub uninterp spec fn epoch_string(e: Epoch) -> Seq<char>;             // Epoch's Display (decimal)
pub uninterp spec fn decode_avk(s: Seq<char>) -> Option<Avk>;          // ProtocolKey::try_from(&str): JSON-hex decoding
pub uninterp spec fn params_hash(p: &ProtocolParameters) -> Seq<char>;  // ProtocolParameters::compute_hash

impl ProtocolMessage {
    #[verifier::external_body]
    pub fn get_message_part(&self, key: &ProtocolMessagePartKey) -> (r: Option<&ProtocolMessagePartValue>)
        ensures (r is Some) == (part(self, *key) is Some), r is Some ==> r->Some_0@ == part(self, *key)->Some_0
    { unimplemented!() }

    #[verifier::external_body]
    pub fn compute_hash(&self) -> (r: String)
        ensures r@ == message_digest(self)
    { unimplemented!() }
}

impl ProtocolParameters {
    #[verifier::external_body]
    pub fn compute_hash(&self) -> (r: String)
        ensures r@ == params_hash(self)
    { unimplemented!() }
}
impl vstd::std_specs::cmp::PartialEqSpecImpl for ProtocolParameters {
    open spec fn obeys_eq_spec() -> bool { true }
    open spec fn eq_spec(&self, other: &ProtocolParameters) -> bool { params_eq(self, other) }
}
impl PartialEq for ProtocolParameters {
    #[verifier::external_body]
    fn eq(&self, other: &Self) -> bool { unimplemented!() }
}
impl vstd::std_specs::cmp::PartialEqSpecImpl for Avk {
    open spec fn obeys_eq_spec() -> bool { true }
    open spec fn eq_spec(&self, other: &Avk) -> bool { avk_eq(self, other) }
}
impl PartialEq for Avk {
    #[verifier::external_body]
    fn eq(&self, other: &Self) -> bool { unimplemented!() }
}
pub struct ProtocolAggregateVerificationKeyForConcatenation {}
impl ProtocolAggregateVerificationKeyForConcatenation {
    /// contract of `ProtocolKey::try_from(&str)` (JSON-hex decoding): a partial function of the string
    #[verifier::external_body]
    pub fn try_from(s: &str) -> (r: Result<Avk, CertificateVerifierError>)
        ensures (r is Ok) == (decode_avk(s@) is Some), r is Ok ==> r->Ok_0 == decode_avk(s@)->Some_0
    { unimplemented!() }
}
impl Epoch {
    #[verifier::external_body]
    pub fn to_string(&self) -> (r: String)
        ensures r@ == epoch_string(*self)
    { unimplemented!() }
}

// ---- callee contracts on Certificate (hashing: assumed functions) -------------------------------------------
impl Certificate {
    #[verifier::external_body]
    pub fn try_compute_hash(&self) -> (r: Result<String, CertificateVerifierError>)
        ensures r is Ok ==> r->Ok_0@ == content_hash(self)
    { unimplemented!() }

    #[verifier::external_body]
    pub fn create_aggregate_verification_key(&self) -> (r: FullAvk)
        ensures concat_part(&r) == self.aggregate_verification_key
    { unimplemented!() }

// ---- extracted from mithril-common/src/entities/certificate.rs:206 (fn is_chaining_to_itself) ----
fn is_chaining_to_itself(&self) -> (ret: bool)
    ensures ret == (self.hash@ == self.previous_hash@)
{
        self.hash == self.previous_hash
    }
// ---- end of extracted text ----

// ---- extracted from mithril-common/src/entities/certificate.rs:195 (fn is_genesis) ----
fn is_genesis(&self) -> (ret: bool)
    ensures ret == (self.signature is GenesisSignature)
{
        match self.signature {
            CertificateSignature::GenesisSignature(_) => true,
            #[cfg(feature = "future_snark")]
            CertificateSignature::GenesisDualSignature(_, _) => true,
            CertificateSignature::MultiSignature(_, _) => false,
        }
    }
// ---- end of extracted text ----
}

impl AncillaryVerifierData {
    #[verifier::external_body]
    pub fn into_inner(self) -> (r: AncillaryInner) ensures r == anc_inner(self) { unimplemented!() }
}
impl Clone for AncillaryVerifierData {
    #[verifier::external_body]
    fn clone(&self) -> (r: Self) ensures r == *self { unimplemented!() }
}
#[verifier::external_body]
fn string_as_bytes(s: &String) -> (r: &[u8]) ensures r@ == str_bytes(s@) { s.as_bytes() }

impl GenesisVerifier {
    #[verifier::external_body]
    pub fn to_ed25519_verification_key(&self) -> (r: GenesisVerificationKey) { unimplemented!() }
}
impl GenesisVerificationKey {
    /// Ed25519 verification under the configured genesis key (assumed sound)
    #[verifier::external_body]
    pub fn verify(&self, message: &[u8], signature: &GenesisSignature) -> (r: Result<(), CertificateVerifierError>)
        ensures r is Ok ==> genesis_sig_valid(message@, signature)
    { unimplemented!() }
}

pub struct MithrilCertificateVerifier { pub genesis_verifier: GenesisVerifier }

impl MithrilCertificateVerifier {
// ---- extracted from mithril-common/src/certificate_chain/certificate_verifier.rs:216 (fn verify_is_not_in_infinite_loop) ----
fn verify_is_not_in_infinite_loop(&self, certificate: &Certificate) -> (ret: Result<(), CertificateVerifierError>)
    ensures ret is Ok ==> certificate.hash@ != certificate.previous_hash@
{
        if certificate.is_chaining_to_itself() {
            return Err(CertificateVerifierError::CertificateChainInfiniteLoop);
        }

        Ok(())
    }
// ---- end of extracted text ----

// ---- extracted from mithril-common/src/certificate_chain/certificate_verifier.rs:226 (fn verify_hash_matches_content) ----
fn verify_hash_matches_content(&self, certificate: &Certificate) -> (ret: Result<(), CertificateVerifierError>)
    ensures ret is Ok ==> certificate.hash@ == content_hash(certificate)
{
        if certificate.try_compute_hash()? != certificate.hash {
            return Err(CertificateVerifierError::CertificateHashUnmatch);
        }

        Ok(())
    }
// ---- end of extracted text ----

// ---- extracted from mithril-common/src/certificate_chain/certificate_verifier.rs:234 (fn verify_previous_hash_matches_previous_certificate_hash) ----
fn verify_previous_hash_matches_previous_certificate_hash(
        &self,
        certificate: &Certificate,
        previous_certificate: &Certificate,
    ) -> (ret: Result<(), CertificateVerifierError>)
    ensures ret is Ok ==> hash_link(certificate, previous_certificate)
{
        if previous_certificate.hash != certificate.previous_hash {
            return Err(CertificateVerifierError::CertificateChainPreviousHashUnmatch);
        }

        Ok(())
    }
// ---- end of extracted text ----

// ---- extracted from mithril-common/src/certificate_chain/certificate_verifier.rs:273 (fn verify_epoch_chaining) ----
fn verify_epoch_chaining(
        &self,
        certificate: &Certificate,
        previous_certificate: &Certificate,
    ) -> (ret: Result<(), CertificateVerifierError>)
    ensures ret is Ok ==> epoch_link(certificate, previous_certificate)
{
        if certificate.epoch.has_gap_with(&previous_certificate.epoch)
            || previous_certificate.epoch > certificate.epoch
        {
            return Err(CertificateVerifierError::CertificateChainMissingEpoch);
        }

        Ok(())
    }
// ---- end of extracted text ----
// ---- extracted from mithril-common/src/certificate_chain/certificate_verifier.rs:248 (fn verify_signed_message_matches_hashed_protocol_message) ----
fn verify_signed_message_matches_hashed_protocol_message(
        &self,
        certificate: &Certificate,
    ) -> (ret: Result<(), CertificateVerifierError>)
    ensures ret is Ok ==> certificate.signed_message@ == message_digest(&certificate.protocol_message)
{
        if certificate.protocol_message.compute_hash() != certificate.signed_message {
            return Err(CertificateVerifierError::CertificateProtocolMessageUnmatch);
        }

        Ok(())
    }
// ---- end of extracted text ----

    /// callee contract (the real text uses a let-chain, which Verus does not accept): Kani harness c03_epoch_matches_protocol_message
    #[verifier::external_body]
    fn verify_epoch_matches_protocol_message(&self, certificate: &Certificate) -> (ret: Result<(), CertificateVerifierError>)
        ensures ret is Ok ==> signed_epoch_is(&certificate.protocol_message, certificate.epoch)
    { unimplemented!() }

// ---- extracted from mithril-common/src/certificate_chain/certificate_verifier.rs:400 (fn verify_protocol_parameters_chaining) ----
fn verify_protocol_parameters_chaining(
        &self,
        certificate: &Certificate,
        previous_certificate: &Certificate,
    ) -> (ret: Result<(), CertificateVerifierError>)
    ensures ret is Ok ==> params_link(certificate, previous_certificate)
{
        let previous_certificate_has_same_epoch = previous_certificate.epoch == certificate.epoch;
        let certificate_has_valid_protocol_parameters = if previous_certificate_has_same_epoch {
            previous_certificate.metadata.protocol_parameters
                == certificate.metadata.protocol_parameters
        } else {
            match &previous_certificate
                .protocol_message
                .get_message_part(&ProtocolMessagePartKey::NextProtocolParameters)
            {
                Some(previous_certificate_next_protocol_parameters) => {
                    **previous_certificate_next_protocol_parameters
                        == certificate.metadata.protocol_parameters.compute_hash()
                }
                None => false,
            }
        };
        if !certificate_has_valid_protocol_parameters {
            
            return Err(CertificateVerifierError::CertificateChainProtocolParametersUnmatch);
        }

        Ok(())
    }
// ---- end of extracted text ----
// ---- extracted from mithril-common/src/certificate_chain/certificate_verifier.rs:319 (fn verify_concatenation_aggregate_verification_key_chaining) ----
fn verify_concatenation_aggregate_verification_key_chaining(
        &self,
        certificate: &Certificate,
        previous_certificate: &Certificate,
    ) -> (ret: Result<(), CertificateVerifierError>)
    ensures ret is Ok ==> avk_link(certificate, previous_certificate)
{
        let previous_certificate_has_same_epoch = previous_certificate.epoch == certificate.epoch;
        let certificate_has_valid_aggregate_verification_key =
            if previous_certificate_has_same_epoch {
                previous_certificate.aggregate_verification_key
                    == certificate.aggregate_verification_key
            } else {
                previous_certificate
                    .protocol_message
                    .get_message_part(&ProtocolMessagePartKey::NextAggregateVerificationKey)
                    .and_then(|encoded_next_avk: &String| -> (r: Option<Avk>) ensures (r is Some) == (decode_avk(encoded_next_avk@) is Some), r is Some ==> r->Some_0 == decode_avk(encoded_next_avk@)->Some_0 {
                        ProtocolAggregateVerificationKeyForConcatenation::try_from(
                            encoded_next_avk.as_str(),
                        )
                        .ok()
                    })
                    .is_some_and(|decoded_next_avk: Avk| -> (r: bool) ensures r == avk_eq(&decoded_next_avk, &certificate.aggregate_verification_key) {
                        decoded_next_avk == certificate.aggregate_verification_key
                    })
            };
        if !certificate_has_valid_aggregate_verification_key {
            
            return Err(CertificateVerifierError::CertificateChainAVKUnmatch);
        }

        Ok(())
    }
// ---- end of extracted text ----
    /// callee contract: delegates to ProtocolMultiSignature::verify = mithril-stm AggregateSignature::verify (C01)
    #[verifier::external_body]
    fn verify_multi_signature(&self, message: &[u8], multi_signature: &ProtocolMultiSignature, aggregate_verification_key: &FullAvk,
        protocol_parameters: &ProtocolParameters, ancillary_verifier_data: Option<AncillaryInner>) -> (ret: Result<(), CertificateVerifierError>)
        ensures ret is Ok ==> multisig_valid(message@, multi_signature, &concat_part(aggregate_verification_key), protocol_parameters, ancillary_verifier_data)
    { unimplemented!() }

// ---- extracted from mithril-common/src/certificate_chain/certificate_verifier.rs:193 (fn verify_standard_certificate_integrity) ----
fn verify_standard_certificate_integrity(&self, certificate: &Certificate) -> (ret: Result<(), CertificateVerifierError>)
    ensures ret is Ok ==> integrity(certificate)
{
        let multi_signature = match &certificate.signature {
            CertificateSignature::MultiSignature(_, signature) => Ok(signature),
            _ => Err(CertificateVerifierError::InvalidStandardCertificateProvided),
        }?;
        self.verify_is_not_in_infinite_loop(certificate)?;
        self.verify_hash_matches_content(certificate)?;
        self.verify_signed_message_matches_hashed_protocol_message(certificate)?;
        self.verify_multi_signature(
            string_as_bytes(&certificate.signed_message),
            multi_signature,
            &certificate.create_aggregate_verification_key(),
            &certificate.metadata.protocol_parameters,
            certificate
                .ancillary_verifier_data
                .clone()
                .map(|ancillary_verifier_data: AncillaryVerifierData| -> (r: AncillaryInner) ensures r == anc_inner(ancillary_verifier_data) { ancillary_verifier_data.into_inner() }),
        )?;
        self.verify_epoch_matches_protocol_message(certificate)?;

        Ok(())
    }
// ---- end of extracted text ----

// ---- extracted from mithril-common/src/certificate_chain/certificate_verifier.rs:438 (fn verify_genesis_certificate) ----
fn verify_genesis_certificate(&self, genesis_certificate: &Certificate) -> (ret: Result<(), CertificateVerifierError>)
    ensures ret is Ok ==> genesis_ok(genesis_certificate)
{
        let genesis_signature = match &genesis_certificate.signature {
            CertificateSignature::GenesisSignature(signature) => Ok(signature),
            // The Schnorr half is intentionally not verified here as it is needed for IVC SNARK only
            #[cfg(feature = "future_snark")]
            CertificateSignature::GenesisDualSignature(signature, _) => Ok(signature),
            CertificateSignature::MultiSignature(_, _) => {
                Err(CertificateVerifierError::InvalidGenesisCertificateProvided)
            }
        }?;
        self.verify_hash_matches_content(genesis_certificate)?;
        self.verify_signed_message_matches_hashed_protocol_message(genesis_certificate)?;
        self.genesis_verifier
            .to_ed25519_verification_key()
            .verify(
                string_as_bytes(&genesis_certificate.signed_message),
                genesis_signature,
            )
            ?;
        self.verify_epoch_matches_protocol_message(genesis_certificate)?;

        Ok(())
    }
// ---- end of extracted text ----

// ---- extracted from mithril-common/src/certificate_chain/certificate_verifier.rs:289 (fn verify_aggregate_verification_key_chaining) ----
fn verify_aggregate_verification_key_chaining(
        &self,
        certificate: &Certificate,
        previous_certificate: &Certificate,
    ) -> (ret: Result<(), CertificateVerifierError>)
    ensures ret is Ok ==> avk_link(certificate, previous_certificate)
{
        let aggregate_signature_type = certificate
            .signature
            .aggregate_signature_type()
            .ok_or(CertificateVerifierError::InvalidStandardCertificateProvided)?;

        match aggregate_signature_type {
            AggregateSignatureType::Concatenation => self
                .verify_concatenation_aggregate_verification_key_chaining(
                    certificate,
                    previous_certificate,
                ),
            #[cfg(feature = "future_snark")]
            AggregateSignatureType::Snark => self.verify_snark_aggregate_verification_key_chaining(
                certificate,
                previous_certificate,
            ),
            #[cfg(feature = "future_snark")]
            AggregateSignatureType::IvcSnark => self
                .verify_snark_aggregate_verification_key_chaining(
                    certificate,
                    previous_certificate,
                ),
        }
    }
// ---- end of extracted text ----

// ---- extracted from mithril-common/src/certificate_chain/certificate_verifier.rs:462 (fn verify_standard_certificate) ----
fn verify_standard_certificate(
        &self,
        certificate: &Certificate,
        previous_certificate: &Certificate,
    ) -> (ret: Result<(), CertificateVerifierError>)
    ensures ret is Ok ==> standard_link(certificate, previous_certificate)
{
        self.verify_standard_certificate_integrity(certificate)?;
        self.verify_epoch_chaining(certificate, previous_certificate)?;
        self.verify_previous_hash_matches_previous_certificate_hash(
            certificate,
            previous_certificate,
        )?;
        self.verify_aggregate_verification_key_chaining(certificate, previous_certificate)?;
        self.verify_protocol_parameters_chaining(certificate, previous_certificate)?;

        Ok(())
    }
// ---- end of extracted text ----
    #[verifier::external_body]
    fn fetch_previous_certificate(&self, certificate: &Certificate) -> (r: Result<Certificate, CertificateVerifierError>)
        ensures r is Ok ==> retrieved(certificate.previous_hash@, &r->Ok_0)
    { unimplemented!() }

// ---- extracted from mithril-common/src/certificate_chain/certificate_verifier.rs:480 (fn verify_certificate) ----
fn verify_certificate(
        &self,
        certificate: &Certificate,
    ) -> (ret: Result<Option<Certificate>, CertificateVerifierError>)
    ensures ret is Ok && ret->Ok_0 is None ==> genesis_ok(certificate),
            ret is Ok && ret->Ok_0 is Some ==> retrieved(certificate.previous_hash@, &ret->Ok_0->Some_0) && standard_link(certificate, &ret->Ok_0->Some_0),
{
        

        if certificate.is_genesis() {
            self.verify_genesis_certificate(certificate)?;

            return Ok(None);
        }

        // Stopping here is sound only because such a signature's verification attests to the whole
        // certificate chain back to the genesis certificate, so the integrity checks alone suffice.
        if certificate.signature.aggregate_signature_type().is_some_and(
            |aggregate_signature_type: AggregateSignatureType| -> (r: bool) ensures r == false { aggregate_signature_type.certifies_full_certificate_chain() },
        ) {
            self.verify_standard_certificate_integrity(certificate)?;

            return Ok(None);
        }

        let previous_certificate = self.fetch_previous_certificate(certificate)?;
        self.verify_standard_certificate(certificate, &previous_certificate)
            ?;

        Ok(Some(previous_certificate))
    }
// ---- end of extracted text ----
// ---- extracted from mithril-common/src/certificate_chain/certificate_verifier.rs:116 (fn verify_certificate_chain) ----
#[verifier::exec_allows_no_decreases_clause]
fn verify_certificate_chain(&self, certificate: Certificate) -> (ret: Result<(), CertificateVerifierError>)
    ensures ret is Ok ==> exists|g: Certificate| genesis_ok(&g)
{
        let mut certificate = certificate;
        loop 
        invariant true,
        ensures genesis_ok(&certificate),
    { let verif_next = self.verify_certificate(&certificate)?; if verif_next.is_none() { proof { assert(genesis_ok(&certificate)); } break; } let previous_certificate = verif_next.unwrap();
            certificate = previous_certificate;
        }

        Ok(())
    }
// ---- end of extracted text ----
}

} // verus!
fn main() {}

// C08 (clause "never flips from won to lost when ... the draw value shrinks") — Verus on the working tree's text of the
// lottery's decision procedure (eligibility.rs, num-integer backend), ADVISORY unit:
//   the real taylor_comparison loop computes decide(x, 0, bound, cmp): "the first iteration k at which cmp leaves the interval
//   [lo_k(x), hi_k(x)] decides: above -> lost, below -> won; undecided after `bound` iterations -> lost", where lo_k / hi_k are
//   the partial Taylor sums -/+ the error term, functions of x ONLY (defined with the very operator specifications the loop uses);
//   lemma: decide is monotone in cmp (a smaller draw ratio never turns won into lost) - by induction, using only that the order
//   of rationals is transitive; lemma: is_lottery_won is monotone in the draw value ev for every phi_f, stake and total.
// The intermediate specification mirrors the arithmetic of the loop, so a change of the arithmetic (another error factor) makes
// the loop invariant fail WITHOUT breaking the clause: this unit is advisory - a failure is reported as a violation only if the
// replay scenarios (sampled draws around the threshold) reproduce a flip on the real code, otherwise as undecided.
use vstd::prelude::*;
use core::cmp::Ordering;
use core::ops::{Add, Sub, Mul, Div};
verus! {

pub type Stake = u64;
pub type PhiFValue = f64;
pub struct BigInt { pub v: Ghost<int> }
pub struct Ratio { pub n: Ghost<int>, pub d: Ghost<int> }
pub open spec fn rat(n: int, d: int) -> Ratio { Ratio { n: Ghost(n), d: Ghost(d) } }
pub open spec fn big(v: int) -> BigInt { BigInt { v: Ghost(v) } }

// standalone names for the operator specifications above (the SpecImpl methods are defined to be exactly these)
pub open spec fn r_add(a: Ratio, b: Ratio) -> Ratio { if b.n@ == 0 { a } else if a.n@ == 0 { b } else { rat(a.n@ * b.d@ + b.n@ * a.d@, a.d@ * b.d@) } }
pub open spec fn r_sub(a: Ratio, b: Ratio) -> Ratio { if b.n@ == 0 { a } else { rat(a.n@ * b.d@ - b.n@ * a.d@, a.d@ * b.d@) } }
pub open spec fn r_mul(a: Ratio, b: Ratio) -> Ratio { if a.n@ == 0 || b.n@ == 0 { rat(0, 1) } else { rat(a.n@ * b.n@, a.d@ * b.d@) } }
pub open spec fn r_mulb(a: Ratio, b: BigInt) -> Ratio { if a.n@ == 0 || b.v@ == 0 { rat(0, 1) } else { rat(a.n@ * b.v@, a.d@) } }
pub open spec fn r_divb(a: Ratio, b: BigInt) -> Ratio { if a.n@ == 0 { rat(0, 1) } else if b.v@ > 0 { rat(a.n@, a.d@ * b.v@) } else { rat(-a.n@, a.d@ * (-b.v@)) } }
pub open spec fn b_add(a: BigInt, i: i32) -> BigInt { big(a.v@ + i) }
impl Clone for Ratio { #[verifier::external_body] fn clone(&self) -> (r: Self) ensures r == *self { unimplemented!() } }
impl Clone for BigInt { #[verifier::external_body] fn clone(&self) -> (r: Self) ensures r == *self { unimplemented!() } }

impl vstd::std_specs::ops::AddSpecImpl<Ratio> for Ratio {
    open spec fn obeys_add_spec() -> bool { true }
    open spec fn add_req(self, rhs: Ratio) -> bool { true }
    open spec fn add_spec(self, rhs: Ratio) -> Ratio { r_add(self, rhs) }
}
impl Add<Ratio> for Ratio { type Output = Ratio; #[verifier::external_body] fn add(self, rhs: Ratio) -> Ratio { unimplemented!() } }
impl vstd::std_specs::ops::SubSpecImpl<Ratio> for Ratio {
    open spec fn obeys_sub_spec() -> bool { true }
    open spec fn sub_req(self, rhs: Ratio) -> bool { true }
    open spec fn sub_spec(self, rhs: Ratio) -> Ratio { r_sub(self, rhs) }
}
impl Sub<Ratio> for Ratio { type Output = Ratio; #[verifier::external_body] fn sub(self, rhs: Ratio) -> Ratio { unimplemented!() } }
impl vstd::std_specs::ops::MulSpecImpl<Ratio> for Ratio {
    open spec fn obeys_mul_spec() -> bool { true }
    open spec fn mul_req(self, rhs: Ratio) -> bool { true }
    open spec fn mul_spec(self, rhs: Ratio) -> Ratio { r_mul(self, rhs) }
}
impl Mul<Ratio> for Ratio { type Output = Ratio; #[verifier::external_body] fn mul(self, rhs: Ratio) -> Ratio { unimplemented!() } }
impl vstd::std_specs::ops::MulSpecImpl<BigInt> for Ratio {
    open spec fn obeys_mul_spec() -> bool { true }
    open spec fn mul_req(self, rhs: BigInt) -> bool { true }
    open spec fn mul_spec(self, rhs: BigInt) -> Ratio { r_mulb(self, rhs) }
}
impl Mul<BigInt> for Ratio { type Output = Ratio; #[verifier::external_body] fn mul(self, rhs: BigInt) -> Ratio { unimplemented!() } }
impl vstd::std_specs::ops::DivSpecImpl<BigInt> for Ratio {
    open spec fn obeys_div_spec() -> bool { true }
    open spec fn div_req(self, rhs: BigInt) -> bool { rhs.v@ != 0 }
    open spec fn div_spec(self, rhs: BigInt) -> Ratio { r_divb(self, rhs) }
}
impl Div<BigInt> for Ratio { type Output = Ratio; #[verifier::external_body] fn div(self, rhs: BigInt) -> Ratio { unimplemented!() } }
impl vstd::std_specs::ops::AddSpecImpl<i32> for BigInt {
    open spec fn obeys_add_spec() -> bool { true }
    open spec fn add_req(self, rhs: i32) -> bool { true }
    open spec fn add_spec(self, rhs: i32) -> BigInt { b_add(self, rhs) }
}
impl Add<i32> for BigInt { type Output = BigInt; #[verifier::external_body] fn add(self, rhs: i32) -> BigInt { unimplemented!() } }

pub open spec fn rat_cmp(a: Ratio, b: Ratio) -> Ordering {
    if a.n@ * b.d@ < b.n@ * a.d@ { Ordering::Less } else if a.n@ * b.d@ == b.n@ * a.d@ { Ordering::Equal } else { Ordering::Greater }
}
impl vstd::std_specs::cmp::PartialEqSpecImpl for Ratio {
    open spec fn obeys_eq_spec() -> bool { true }
    open spec fn eq_spec(&self, other: &Ratio) -> bool { rat_cmp(*self, *other) == Ordering::Equal }
}
impl PartialEq for Ratio { #[verifier::external_body] fn eq(&self, other: &Self) -> bool { unimplemented!() } }
impl vstd::std_specs::cmp::PartialOrdSpecImpl for Ratio {
    open spec fn obeys_partial_cmp_spec() -> bool { true }
    open spec fn partial_cmp_spec(&self, other: &Ratio) -> Option<Ordering> { Some(rat_cmp(*self, *other)) }
}
impl PartialOrd for Ratio { #[verifier::external_body] fn partial_cmp(&self, other: &Self) -> Option<Ordering> { unimplemented!() } }

impl Ratio {
    #[verifier::external_body]
    pub fn abs(self) -> (r: Ratio) ensures r == rat(if self.n@ >= 0 { self.n@ } else { -self.n@ }, self.d@) { unimplemented!() }
    #[verifier::external_body]
    pub fn one() -> (r: Ratio) ensures r == rat(1, 1) { unimplemented!() }
}
impl BigInt {
    #[verifier::external_body]
    pub fn one() -> (r: BigInt) ensures r == big(1) { unimplemented!() }
    #[verifier::external_body]
    pub fn from(x: i32) -> (r: BigInt) ensures r == big(x as int) { unimplemented!() }
}


impl vstd::std_specs::ops::SubSpecImpl<BigInt> for BigInt {
    open spec fn obeys_sub_spec() -> bool { true }
    open spec fn sub_req(self, rhs: BigInt) -> bool { true }
    open spec fn sub_spec(self, rhs: BigInt) -> BigInt { big(self.v@ - rhs.v@) }
}
impl Sub<BigInt> for BigInt { type Output = BigInt; #[verifier::external_body] fn sub(self, rhs: BigInt) -> BigInt { unimplemented!() } }
impl Ratio {
    #[verifier::external_body]
    pub fn new_raw(n: BigInt, d: BigInt) -> (r: Ratio) ensures r == rat(n.v@, d.v@) { unimplemented!() }
    #[verifier::external_body]
    pub fn neg(self) -> (r: Ratio) ensures r == rat(-self.n@, self.d@) { unimplemented!() }
}
impl BigInt {
    #[verifier::external_body]
    pub fn from_u64(x: u64) -> (r: BigInt) ensures r == big(x as int) { unimplemented!() }
}
pub uninterp spec fn pow2_512() -> int;
/// `BigInt::from(2u8).pow(512)`
#[verifier::external_body]
fn two_pow_512() -> (r: BigInt) ensures r == big(pow2_512()), pow2_512() > 0 { unimplemented!() }
/// `BigInt::from_bytes_le(Sign::Plus, &ev)`: the 64-byte draw value as a non-negative integer below 2^512
#[verifier::external_body]
fn bigint_from_le(ev: &[u8; 64]) -> (r: BigInt) ensures r == big(ev_int(*ev)), 0 <= r.v@ < pow2_512() { unimplemented!() }
pub uninterp spec fn phi_f_is_one_spec(phi_f: f64) -> bool;
/// `(phi_f - 1.0).abs() < PhiFValue::EPSILON`
#[verifier::external_body]
fn phi_f_is_one(phi_f: f64) -> (r: bool) ensures r == phi_f_is_one_spec(phi_f) { unimplemented!() }
/// `Ratio::from_float((1.0 - phi_f).ln()).expect(..)`: some rational (f64 ln is not specified)
pub uninterp spec fn ln_spec(phi_f: f64) -> Ratio;
#[verifier::external_body]
fn ln_one_minus(phi_f: f64) -> (r: Ratio) ensures r == ln_spec(phi_f), r.d@ > 0 { unimplemented!() }
pub uninterp spec fn ev_int(ev: [u8; 64]) -> int;


// ---- the loop's state after k iterations and the decision it computes, as functions of x only ----
pub open spec fn abs_spec(a: Ratio) -> Ratio { rat(if a.n@ >= 0 { a.n@ } else { -a.n@ }, a.d@) }
pub open spec fn st(x: Ratio, k: nat) -> (Ratio, Ratio, BigInt)
    decreases k
{
    if k == 0 { (x, rat(1, 1), big(1)) } else {
        let (nx, phi, dv) = st(x, (k - 1) as nat);
        let dv2 = b_add(dv, 1i32);
        (r_divb(r_mul(nx, x), dv2), r_add(phi, nx), dv2)
    }
}
pub open spec fn err(x: Ratio, k: nat) -> Ratio { r_mulb(abs_spec(st(x, k).0), big(3)) }
pub open spec fn hi(x: Ratio, k: nat) -> Ratio { r_add(st(x, k).1, err(x, k)) }
pub open spec fn lo(x: Ratio, k: nat) -> Ratio { r_sub(st(x, k).1, err(x, k)) }
pub open spec fn gt(a: Ratio, b: Ratio) -> bool { rat_cmp(a, b) == Ordering::Greater }
pub open spec fn ltr(a: Ratio, b: Ratio) -> bool { rat_cmp(a, b) == Ordering::Less }
pub open spec fn decide(x: Ratio, k: nat, bound: nat, cmp: Ratio) -> bool
    decreases bound - k
{
    if k >= bound { false }
    else if gt(cmp, hi(x, k + 1)) { false }
    else if ltr(cmp, lo(x, k + 1)) { true }
    else { decide(x, k + 1, bound, cmp) }
}

// ---- order facts ----
pub open spec fn pos(a: Ratio) -> bool { a.d@ > 0 }
proof fn lemma_le_lt(a: Ratio, b: Ratio, c: Ratio)
    requires pos(a), pos(b), pos(c), rat_cmp(a, b) != Ordering::Greater, ltr(b, c)
    ensures ltr(a, c)
{
    assert(a.n@ * b.d@ * c.d@ <= b.n@ * a.d@ * c.d@) by(nonlinear_arith) requires a.n@ * b.d@ <= b.n@ * a.d@, c.d@ > 0;
    assert(b.n@ * c.d@ * a.d@ < c.n@ * b.d@ * a.d@) by(nonlinear_arith) requires b.n@ * c.d@ < c.n@ * b.d@, a.d@ > 0;
    assert(b.n@ * a.d@ * c.d@ == b.n@ * c.d@ * a.d@) by(nonlinear_arith);
    assert(a.n@ * c.d@ * b.d@ == a.n@ * b.d@ * c.d@) by(nonlinear_arith);
    assert(c.n@ * a.d@ * b.d@ == c.n@ * b.d@ * a.d@) by(nonlinear_arith);
    assert(a.n@ * c.d@ < c.n@ * a.d@) by(nonlinear_arith) requires a.n@ * c.d@ * b.d@ < c.n@ * a.d@ * b.d@, b.d@ > 0;
}
proof fn lemma_lt_le(a: Ratio, b: Ratio, c: Ratio)
    requires pos(a), pos(b), pos(c), ltr(a, b), rat_cmp(b, c) != Ordering::Greater
    ensures ltr(a, c)
{
    assert(a.n@ * b.d@ * c.d@ < b.n@ * a.d@ * c.d@) by(nonlinear_arith) requires a.n@ * b.d@ < b.n@ * a.d@, c.d@ > 0;
    assert(b.n@ * c.d@ * a.d@ <= c.n@ * b.d@ * a.d@) by(nonlinear_arith) requires b.n@ * c.d@ <= c.n@ * b.d@, a.d@ > 0;
    assert(b.n@ * a.d@ * c.d@ == b.n@ * c.d@ * a.d@) by(nonlinear_arith);
    assert(a.n@ * c.d@ * b.d@ == a.n@ * b.d@ * c.d@) by(nonlinear_arith);
    assert(c.n@ * a.d@ * b.d@ == c.n@ * b.d@ * a.d@) by(nonlinear_arith);
    assert(a.n@ * c.d@ < c.n@ * a.d@) by(nonlinear_arith) requires a.n@ * c.d@ * b.d@ < c.n@ * a.d@ * b.d@, b.d@ > 0;
}
proof fn lemma_mul_pos(a: int, b: int) requires a > 0, b > 0 ensures a * b > 0 { assert(a * b > 0) by(nonlinear_arith) requires a > 0, b > 0; }
/// denominators stay positive along the iteration
proof fn lemma_st_pos(x: Ratio, k: nat)
    requires pos(x)
    ensures pos(st(x, k).0), pos(st(x, k).1), st(x, k).2.v@ >= 1, pos(err(x, k)), pos(hi(x, k)), pos(lo(x, k))
    decreases k
{
    if k > 0 {
        lemma_st_pos(x, (k - 1) as nat);
        let (nx, phi, dv) = st(x, (k - 1) as nat);
        let dv2 = b_add(dv, 1i32);
        if nx.n@ != 0 && x.n@ != 0 { lemma_mul_pos(nx.d@, x.d@); lemma_mul_pos(nx.d@ * x.d@, dv2.v@); }
        if nx.n@ != 0 && phi.n@ != 0 { lemma_mul_pos(phi.d@, nx.d@); }
    }
    let s = st(x, k);
    let e = err(x, k);
    if s.1.n@ != 0 && e.n@ != 0 { lemma_mul_pos(s.1.d@, e.d@); }
    if e.n@ != 0 { lemma_mul_pos(s.1.d@, e.d@); }
}
/// a smaller draw ratio never turns won into lost
proof fn lemma_decide_monotone(x: Ratio, k: nat, bound: nat, c1: Ratio, c2: Ratio)
    requires pos(x), pos(c1), pos(c2), rat_cmp(c2, c1) != Ordering::Greater, decide(x, k, bound, c1)
    ensures decide(x, k, bound, c2)
    decreases bound - k
{
    if k < bound {
        lemma_st_pos(x, k + 1);
        let h = hi(x, k + 1);
        let l = lo(x, k + 1);
        // c2 > h would give c1 > h (c2 <= c1), i.e. decide(c1) == false
        if gt(c2, h) { lemma_lt_le(h, c2, c1); assert(gt(c1, h)); assert(false); }
        if ltr(c1, l) { lemma_le_lt(c2, c1, l); }
        else if !ltr(c2, l) { lemma_decide_monotone(x, k + 1, bound, c1, c2); }
    }
}

// ---- extracted from mithril-stm/src/proof_system/concatenation/eligibility.rs:63 (fn taylor_comparison) ----
fn taylor_comparison(bound: usize, cmp: Ratio, x: Ratio) -> (ret: bool)
    ensures ret == decide(x, 0, bound as nat, cmp)
{
        let mut new_x = x.clone();
        let mut phi: Ratio = Ratio::one();
        let mut divisor: BigInt = BigInt::one();
        for verif_i in 0..bound 
        invariant 0 <= verif_i <= bound, divisor.v@ >= 1, (new_x, phi, divisor) == st(x, verif_i as nat),
            decide(x, 0, bound as nat, cmp) == decide(x, verif_i as nat, bound as nat, cmp),
    {
            phi = phi + new_x.clone();

            divisor = divisor + 1;
            new_x = (new_x.clone() * x.clone()) / divisor.clone();
            let error_term = new_x.clone().abs() * BigInt::from(3); // new_x * M

            if cmp > (phi.clone() + error_term.clone()) {
                return false;
            } else if cmp < phi.clone() - error_term.clone() {
                return true;
            }
        }
        false
    }
// ---- end of extracted text ----

/// the value is_lottery_won computes, as a function of the draw value
pub open spec fn x_of(phi_f: f64, stake: u64, total: u64) -> Ratio { rat(-r_mul(rat(stake as int, total as int), ln_spec(phi_f)).n@, r_mul(rat(stake as int, total as int), ln_spec(phi_f)).d@) }
pub open spec fn won_spec(phi_f: f64, e: int, stake: u64, total: u64) -> bool {
    phi_f_is_one_spec(phi_f) || decide(x_of(phi_f, stake, total), 0, 1000, rat(pow2_512(), pow2_512() - e))
}

// ---- extracted from mithril-stm/src/proof_system/concatenation/eligibility.rs:32 (fn is_lottery_won) ----
fn is_lottery_won(phi_f: PhiFValue, ev: [u8; 64], stake: Stake, total_stake: Stake) -> (ret: bool)
    ensures ret == won_spec(phi_f, ev_int(ev), stake, total_stake)
{
        // If phi_f = 1, then we automatically break with true
        if phi_f_is_one(phi_f) {
            return true;
        }

        let ev_max = two_pow_512();
        let ev = bigint_from_le(&ev);
        let q = Ratio::new_raw(ev_max.clone(), ev_max - ev);

        let c =
            ln_one_minus(phi_f);
        let w = Ratio::new_raw(BigInt::from_u64(stake), BigInt::from_u64(total_stake));
        let x = (w * c).neg();

        // Now we compute a taylor function that breaks when the result is known.
        taylor_comparison(1000, q, x)
    }
// ---- end of extracted text ----

/// THE CLAUSE: for every phi_f, stake, total > 0: a smaller draw value never turns won into lost
proof fn lemma_draw_monotone(phi_f: f64, e1: int, e2: int, stake: u64, total: u64)
    requires 0 <= e2 <= e1 < pow2_512(), total > 0, ln_spec(phi_f).d@ > 0, won_spec(phi_f, e1, stake, total)
    ensures won_spec(phi_f, e2, stake, total)
{
    if !phi_f_is_one_spec(phi_f) {
        let m = pow2_512();
        let x = x_of(phi_f, stake, total);
        let w = rat(stake as int, total as int);
        if w.n@ != 0 && ln_spec(phi_f).n@ != 0 { lemma_mul_pos(w.d@, ln_spec(phi_f).d@); }
        assert(pos(x));
        let (c1, c2) = (rat(m, m - e1), rat(m, m - e2));
        assert(m * (m - e1) <= m * (m - e2)) by(nonlinear_arith) requires m > 0, e2 <= e1;
        assert(rat_cmp(c2, c1) != Ordering::Greater);
        lemma_decide_monotone(x, 0, 1000, c1, c2);
    }
}

} // verus!
fn main() {}

#!/usr/bin/env python3
"""Regenerates MANIFEST.json from the table below (kept as a script so the manifest stays consistent)."""
import json, os
HERE = os.path.dirname(os.path.abspath(__file__))
BASE = json.load(open("/root/.vp/BASELINE.json"))["cmd"] if os.path.exists("/root/.vp/BASELINE.json") else "cargo test --workspace --offline"

CLAIMED = {
 "C17": dict(cat="proof", tech="Kani function harnesses on the real code (full 64-bit domain) + Verus on mechanically extracted function text",
             text="Per-call postconditions of the real beacon functions proved by Kani/CBMC for all 2^192 inputs; the extracted text of the same functions verified by Verus against the mathematical spec, from which monotonicity, whole-step and block-range-boundary clauses are derived as lemmas. time_point_to_signed_entity proved to be a function of its arguments with the beacon callee as contract stub.",
             note="Trusted: operator contracts in Verus are exactly those Kani proves on the real impls; std::cmp::max semantics; equal configuration on signer and aggregator is not decided.", ref="§4 C17"),
}
NA = {
 "C04": "Tamper-evidence is injectivity of a byte-string pre-image built from Strings, chrono timestamps, JSON-hex keys and serde_json round trips under SHA-256: Verus has no str/byte reasoning, CBMC cannot execute serde/JSON/hex symbolically beyond a few bytes, and 'different pre-image => different hash' is an assumption, so no contract within reach expresses or decides it.",
 "C10": "The acceptance decision is computed inline in an async routine over the file system, a digester task and Merkle-mountain-range calls; no function boundary exists at which 'content bound to file name' can be stated without modelling the directory, and neither verifier accepts that code.",
 "C12": "Quantifies over directory layouts, file contents and cache histories; the code is walkdir/std::fs/tokio spawn_blocking plus an async cache provider - I/O that neither Kani (FFI) nor Verus can execute; the property is about the environment, not about one call.",
 "C13": "A convergence property over histories of roll-forward / roll-back / restart against SQLite; the mechanism is SQL executed by an external engine. Contracts on the Rust wrappers would only restate the SQL text.",
 "C14": "Invariant over all interleavings of a five-state async machine, a database and asynchronous signature registration; needs a model or a history explorer - a different family.",
 "C15": "Crash points between persistence steps: a property of process death and restart, not expressible as pre/postcondition of any function that returns.",
 "C16": "The guarantee needs a relation 'party id -> key it registered' that the verifying function does not receive, and the storing path is async + SQLite; a contract would need ghost state spanning registration, two crates' private internals and the database.",
 "C19": "Tar/zstd unpacking, HTTP download, file moves and failure injection on the file system; nothing here is within either verifier's input language, and the property is about directory contents after an I/O sequence.",
}
PENDING = {}  # filled below for properties planned but whose check is not committed yet
ALL = ["C%02d" % i for i in range(1, 21)]
for p in ALL:
    if p not in CLAIMED and p not in NA:
        PENDING[p] = "planned in DESIGN.md §4 for this family, check not committed yet - not claimed until it is"

checks = []
for pid, c in sorted(CLAIMED.items()):
    checks.append(dict(property_id=pid, quick_cmd="./check %s --tier quick" % pid, thorough_cmd="./check %s --tier thorough" % pid,
                       evidence_file="evidence/%s.json" % pid, replay_cmd_template="./check %s --replay {path}" % pid,
                       engine="contracts", level_claimed=dict(category=c["cat"], text=c["text"], design_ref=c["ref"]),
                       level_note=c["note"], technique=c["tech"]))
m = dict(version=1, setup_cmd="./setup.sh",
         hooks=dict(guard="kani", enable="contracts are attached at check time to a scratch copy of the working tree as `#[cfg(kani)] #[path=/verif/contracts/..] mod ..;` child modules; cargo kani sets cfg(kani); no hook is committed in /repo",
                    baseline_off_cmd=BASE, source_commits=[], add_only=True),
         engines=[dict(name="contracts", path="check", serves_properties=sorted(CLAIMED), kind_free_text="contract-based deductive verification: Kani 0.68/CBMC function harnesses and contract stubs on the real crates in place; Verus 0.2026.09.13 on function text extracted mechanically from the working tree on every run")],
         checks=checks,
         notes="exit 0 held / 1 VIOLATION / 2 undecided (tool limit, lost anchor, timeout - never an alarm). known findings: known_findings.json",
         not_applicable=[dict(property_id=p, reason=r) for p, r in sorted({**NA, **PENDING}.items())])
json.dump(m, open(os.path.join(HERE, "MANIFEST.json"), "w"), indent=1)
print("MANIFEST.json: %d checks, %d not_applicable" % (len(checks), len(m["not_applicable"])))

#!/usr/bin/env python3
"""Regenerates MANIFEST.json from the table below (kept as a script so the manifest stays consistent)."""
import json, os
HERE = os.path.dirname(os.path.abspath(__file__))
BASE = json.load(open("/root/.vp/BASELINE.json"))["cmd"] if os.path.exists("/root/.vp/BASELINE.json") else "cargo test --workspace --offline"

KV = "Kani 0.68/CBMC harnesses and contract stubs on the real crate in place"
VX = "Verus 0.2026.09.13 on function text extracted mechanically from the working tree"
CLAIMED = {
 "C01": dict(cat="proof", tech=VX + " (check_indices, preliminary_verify, verify: unbounded) + " + KV + " (per-signature checks, bounded shapes)",
             text="Every clause of the acceptance rule (>= k pairwise distinct indices, each in [0,m), each won with the signature's own committed stake, Merkle membership of the (key, stake) pairs, BLS aggregate check on exactly those pairs) is a postcondition over uninterpreted cryptographic predicates, proved by Verus on the extracted text of check_indices / preliminary_verify / verify for any number of signatures and indices, and by Kani on the real per-signature functions.",
             note="BLS (blst), dense mapping (Blake2b), Merkle membership (C09) and the lottery predicate (C08) are callee contracts; batch_verify and re-encodings are not under contract; std HashSet as a mathematical set.", ref="§4 C01"),
 "C03": dict(cat="proof", tech=VX + " (whole per-link acceptance rule) + Kani function contract on Epoch::has_gap_with",
             text="verify_certificate / verify_standard_certificate / verify_genesis_certificate and every sub-check verified modularly against the statement's per-link rule: no conjunct can be dropped or weakened without a named obligation failing.",
             note="Hashing, multi-signature verification (C01), Ed25519 and key decoding are uninterpreted callee contracts; reaching genesis needs hash acyclicity (assumed); the default verify_certificate_chain loop and mithril-client's chain walk (default features) are verified for partial correctness; the client's optional verifier cache (feature unstable) is not under contract.", ref="§4 C03"),
 "C05": dict(cat="other", tech=KV + " (built-in panic / bounds / overflow / capacity checks), bounded in input length",
             text="Bounded stand-in: every hand-written legacy decoder of mithril-stm is run by Kani on all byte strings of a few stated lengths; obligations are Kani's panic, bounds, arithmetic-overflow and capacity-overflow checks.",
             note="Bounded in input length (never counted as proved); blst point validation and ciborium are assumed total; round trips and serde/JSON/hex decoders are not decided.", ref="§4 C05"),
 "C06": dict(cat="proof", tech=KV + ", 96-byte comparison loop completely unrolled + " + VX + " (SignerBuilder::new and the three computation paths: client, signer, aggregator)",
             text="The Ord impls of the registration entry types are proved to be the lexicographic total order on (stake, 96-byte key encoding) - the law that makes BTreeSet iteration order, hence leaf order, signer slots and the aggregate key, a function of the registered set; SignerBuilder::new (the single function through which signer, aggregator and client derive the key) registers each listed signer with its own material against the stake distribution derived from the same list.",
             note="PARTIAL: blst encoding as contract stub; std BTreeSet ordered by Ord (assumed); order-independence of the executed registration code, serde round trips and collision resistance are not decided.", ref="§4 C06"),
 "C07": dict(cat="proof", tech=VX + " (KES window, KeyRegWrapper::register, OpCert::validate, mithril-stm registration)",
             text="Every conjunct of the registration rule (opcert signed by the cold key, key signed by that opcert's KES key within one period, proof of possession, pool id derived from the cold key and present in the stake distribution, key not already registered, stake taken from the distribution) is a postcondition proved on the extracted text in both crates.",
             note="Ed25519, Sum6KES and BLS PoP assumed sound; pool-id hashing/bech32 and std maps/sets are contracts; default feature set only; aggregator-side async services not under contract.", ref="§4 C07"),
 "C08": dict(cat="proof", tech="Kani loop-free harness (phi_f = 1) + " + VX + " (signer and verifier loops against one lottery predicate)",
             text="PARTIAL: 'always won when phi_f is 1' for all 2^512 draws, 'always lost for zero stake' and 'a smaller draw value never turns won into lost' for all draws, stakes, totals and phi_f (the real taylor_comparison loop with exact rational arithmetic, any iteration bound; the monotonicity unit is advisory on changed code), and 'signer and verifier decide identically' (the signer proposes exactly the indices the verifier accepts, on the same operands).",
             note="Exactness against the real-valued threshold, monotonicity in the stake and the negligible band are NOT decided (f64::ln, Taylor remainder analysis).", ref="§4 C08"),
 "C09": dict(cat="proof", tech=VX + " (heap-index algebra, unbounded) + " + KV + " at an ideal hash (bounded tree size)",
             text="Heap-index laws of the signer-registration Merkle tree proved without bound; generate/verify completeness and soundness of the real generic tree code checked at an ideal (collision-free) hash for every tree up to the bound, every selection and every proof value.",
             note="PARTIAL: the STM tree only; tree size bounded; the generic Merkle tree / map delegate to ckb-merkle-mountain-range (external): not under contract.", ref="§4 C09"),
 "C11": dict(cat="proof", tech=VX + " (both proof formats, message reconstruction, stake leaf encoding)",
             text="verify() of both proof formats: every reported item is a leaf proven under one single root, nothing else is reported, block number / offset copied; the client's signed message is rebuilt from the verified value; the stake-distribution leaf encoding is checked for injectivity (fails: known finding F-C11-1, replayed on the real code; holds for fixed-length identifiers).",
             note="MKMapProof verify/contains (ckb MMR) and decoding are callee contracts; tx/block leaf encoding injectivity and SHA-256 message match assumed.", ref="§4 C11"),
 "C16": dict(cat="proof", tech=VX + " (the common verification function the aggregator's authenticator relies on)",
             text="PARTIAL: MultiSigner::verify_single_signature verified on its extracted text: acceptance implies validity under the key registered at the slot the signature names AND that this key is the one registered by the party the submission names (the pinned code lacked the second part: finding F-C16-1, found, replayed on real keys and repaired); SignerBuilder::new builds that party-id -> key table from each signer's own key (C06 unit).",
             note="Only this function; the aggregator's storing, buffering and publishing paths (async, SQLite) are not decided. mithril-stm verification is a callee contract (C01).", ref="§0.2 C16"),
 "C17": dict(cat="proof", tech=KV + " (full 64-bit domain) + " + VX,
             text="Per-call postconditions of the real beacon functions proved by Kani/CBMC for all 2^192 inputs; the extracted text of the same functions verified by Verus against the mathematical spec, from which monotonicity, whole-step and block-range-boundary clauses are derived as lemmas. time_point_to_signed_entity proved to be a function of its arguments with the beacon callee as contract stub.",
             note="Operator contracts in Verus are exactly those Kani proves on the real impls; std::cmp::max semantics; equal configuration on signer and aggregator is not decided.", ref="§4 C17"),
 "C18": dict(cat="proof", tech=KV + ": representation invariant + per-operation contracts from arbitrary invariant states",
             text="Inv (len <= size, single generation) and per-operation contracts of the real generic pool instantiated with generation-tagged resources: an induction over all sequential histories for the stated capacities.",
             note="Capacity <= 2 (shapes enumerated); no threads in Kani: interleavings inside one operation and the wake-up clause are not decided.", ref="§4 C18"),
 "C19": dict(cat="proof", tech=VX + " (the ancillary acceptance path)",
             text="PARTIAL: the ancillary clause: AncillaryVerifier::verify accepts only a manifest found in the unpack directory whose every listed file hashes to the listed hash and which is signed under the configured key, hands on exactly the listed files; the archive is unpacked into a temporary directory and only a manifest validated there is moved to the target.",
             note="The immutable-file clause (UnexpectedDownloadedFileVerifier), tar/zstd unpacking, HTTP, the file moves themselves, removal of the temporary directory on failure and file-system races are NOT decided.", ref="§0.2 C19"),
 "C20": dict(cat="proof", tech=KV + ", loop-free over all epochs + " + VX + " (signer-side eligibility gate; both epoch services: which offset keys which store access; the signer's certifier: never an already signed entity, publish then mark)",
             text="PARTIAL: the epoch-offset algebra shared by signer and aggregator (a key recorded at e is retrieved for signing at e + signing offset; next signers of e are current signers of e+1; retrieval fails exactly at epoch 0), both epoch services keyed by exactly those offsets (key material / signer set in force at e = saved / recorded under e - 1, next under e, registration settings under e + 1; aggregate keys from SignerBuilder on exactly those sets), and the signer's gate can_signer_sign_current_epoch (true only with stored key material for the epoch whose key is the one listed for this party).",
             note="At-most-once signing per beacon, restarts and acceptance by the aggregator at run level (async state machines over SQLite) are not decided.", ref="§4 C20"),
 "C10": dict(cat="proof", tech=VX + " (the client's acceptance decision for a restored database)",
             text="PARTIAL: verify_cardano_database accepts only if no file of the requested range is missing (unless allowed), every computed (file name, digest) entry equals the digest the verified digest list assigns to that very file name, and the returned Merkle proof is the verified tree's proof for exactly those digests and verifies. Found and repaired: the unrepaired code accepted swapped / duplicated / out-of-range certified files (F-C10-1).",
             note="That the digest list itself reproduces the Merkle root signed in the certificate (download, unpack, JSON, MKTree construction), the digester (C12), file-system effects and the CLI's reporting are NOT decided.", ref="§0.2 C10"),
 "C14": dict(cat="proof", tech=VX + " (the aggregator's certifier service and epoch service)",
             text="PARTIAL: the clauses decided at the moment a certificate is sealed or a signature registered: create_certificate seals only an existing, uncertified, unexpired open message, for exactly its epoch / protocol message / signed entity type / multi-signature, with the aggregate key and parameters the epoch service holds as current (themselves SignerBuilder's result for the signer set recorded under e - 1), linked to the repository's master certificate of that epoch, verified by the certificate verifier before being stored, and marks the open message certified; register_single_signature stores only signatures the multi-signer accepted for an open, unexpired, uncertified message; verify_certificate_chain refuses an epoch gap.",
             note="Run-level clauses (every stored certificate verifies to genesis for every run, quorum of registered signers, no double certification across interleavings / restarts, first-of-epoch linking decided by SQL, stopping after a skipped epoch as state-machine behaviour) are NOT decided: they need the async state machine and the database.", ref="§0.2 C14"),
}
NA = {
 "C04": "Tamper-evidence is injectivity of a byte-string pre-image built from Strings, chrono timestamps, JSON-hex keys and serde_json round trips under SHA-256: Verus has no str/byte reasoning, CBMC cannot execute serde/JSON/hex symbolically beyond a few bytes, and 'different pre-image => different hash' is an assumption, so no contract within reach expresses or decides it.",
 "C12": "Quantifies over directory layouts, file contents and cache histories; the code is walkdir/std::fs/tokio spawn_blocking plus an async cache provider - I/O that neither Kani (FFI) nor Verus can execute; the property is about the environment, not about one call.",
 "C13": "A convergence property over histories of roll-forward / roll-back / restart against SQLite; the mechanism is SQL executed by an external engine. Contracts on the Rust wrappers would only restate the SQL text.",
 "C15": "Crash points between persistence steps: a property of process death and restart, not expressible as pre/postcondition of any function that returns.",
}
PENDING = {}  # filled below for properties planned but whose check is not committed yet
NA["C02"] = "select_valid_signatures_for_k_indices works on BTreeMap/HashMap/HashSet keyed by references with value hashing, closures and iterator chains: outside Verus' subset, and CBMC does not terminate on hashbrown (two HashSet<u64> inserts alone exceeded 15 min in the C01 probes); a per-call contract also cannot express 'for all multisets and orderings' without executing the maps. Observed and not claimed: a repeated copy of a signature makes aggregation fail (DESIGN.md section 6)."
ALL = ["C%02d" % i for i in range(1, 21)]
for p in ALL:
    if p not in CLAIMED and p not in NA:
        PENDING[p] = "planned in DESIGN.md §4 for this family, check not committed yet - not claimed until it is"

checks = []
for pid, c in sorted(CLAIMED.items()):
    checks.append(dict(property_id=pid, quick_cmd="./check %s --tier quick" % pid, thorough_cmd="./check %s --tier thorough" % pid,
                       evidence_file="evidence/%s.json" % pid, replay_cmd_template="./check %s --replay {path}" % pid,
                       engine="contracts", level_claimed=dict(category=c["cat"], text=c["text"], design_ref=c["ref"]),
                       level_note=c["note"], technique=c["tech"]))
m = dict(version=1, setup_cmd="./setup.sh",
         hooks=dict(guard="kani", enable="contracts are attached at check time to a scratch copy of the working tree as `#[cfg(kani)] #[path=/verif/contracts/..] mod ..;` child modules; cargo kani sets cfg(kani); no hook is committed in /repo",
                    baseline_off_cmd=BASE, source_commits=[], add_only=True),
         engines=[dict(name="contracts", path="check", serves_properties=sorted(CLAIMED), kind_free_text="contract-based deductive verification: Kani 0.68/CBMC function harnesses and contract stubs on the real crates in place; Verus 0.2026.09.13 on function text extracted mechanically from the working tree on every run")],
         checks=checks,
         notes="exit 0 held / 1 VIOLATION / 2 undecided (tool limit, lost anchor, timeout - never an alarm). known findings: known_findings.json",
         not_applicable=[dict(property_id=p, reason=r) for p, r in sorted({**NA, **PENDING}.items())])
json.dump(m, open(os.path.join(HERE, "MANIFEST.json"), "w"), indent=1)
print("MANIFEST.json: %d checks, %d not_applicable" % (len(checks), len(m["not_applicable"])))

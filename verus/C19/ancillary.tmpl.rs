// C19 (PARTIAL: the ancillary clause - "ancillary files that are listed, with matching hashes, in a manifest signed by the
// configured ancillary verification key"; "when ancillary verification fails nothing from the ancillary archive is kept") —
// Verus on the working tree's text of
//   mithril-client/src/utils/ancillary_verifier.rs                       AncillaryVerifier::verify
//   internal/cardano-node/mithril-cardano-node-internal-database/src/entities/ancillary_files_manifest.rs
//                                                                        AncillaryFilesManifest::verify_data
//   mithril-client/src/cardano_database_client/download_unpack/download_task.rs   DownloadTask::download_unpack_verify_ancillary
// File system, JSON parsing, SHA-256 of file contents and the Ed25519 manifest signature are callee contracts.
use vstd::prelude::*;
verus! {

pub struct MithrilError {}
#[verifier::external_body] pub struct DirPath { _p: core::marker::PhantomData<u8> }   // &Path (a directory)
#[verifier::external_body] pub struct PathBuf { _p: core::marker::PhantomData<u8> }
#[verifier::external_body] pub struct FileHandle { _p: core::marker::PhantomData<u8> }
#[verifier::external_body] #[derive(Clone, Copy)] pub struct ManifestSignature { _p: core::marker::PhantomData<u8> }
#[verifier::external_body] pub struct ManifestVerifier { _p: core::marker::PhantomData<u8> }
#[verifier::external_body] pub struct ManifestHash { _p: core::marker::PhantomData<u8> }   // Vec<u8>

/// the manifest's data (BTreeMap<PathBuf, String>) viewed as its entry sequence (relative path, expected hex SHA-256)
pub struct SignableManifest { pub data: Vec<(PathBuf, String)>, pub signature: Option<ManifestSignature> }
pub struct AncillaryFilesManifest { pub signable_manifest: SignableManifest }
pub enum AncillaryFilesManifestVerifyError {
    FileHashMismatch { file_path: PathBuf, expected_hash: String, actual_hash: String },
    HashCompute { file_path: PathBuf },
}
pub enum AncillaryVerificationError { ManifestParse, ManifestInvalid(AncillaryFilesManifestVerifyError), SignatureMissing, SignatureInvalid }

/// hex SHA-256 of the content of the file `base/rel` as found on disk during this call (None: unreadable)
pub uninterp spec fn file_hash(base: &DirPath, rel: &PathBuf) -> Option<Seq<char>>;
pub uninterp spec fn joined(base: &DirPath, rel: &PathBuf) -> PathBuf;
pub uninterp spec fn joined_source(p: &PathBuf) -> (DirPath, PathBuf);
impl DirPath {
    #[verifier::external_body]
    pub fn join(&self, rel: &PathBuf) -> (r: PathBuf) ensures r == joined(self, rel) { unimplemented!() }
}
impl Clone for PathBuf { #[verifier::external_body] fn clone(&self) -> (r: Self) ensures r == *self { unimplemented!() } }
#[verifier::external_body]
fn string_clone(s: &String) -> (r: String) ensures r@ == s@ { s.clone() }

/// every listed file is present under `base` and its content hashes to the listed hash
pub open spec fn data_matches(m: &AncillaryFilesManifest, base: &DirPath) -> bool {
    forall|i: int| 0 <= i < m.signable_manifest.data@.len() ==> entry_matches(base, #[trigger] m.signable_manifest.data@[i])
}
pub open spec fn entry_matches(base: &DirPath, e: (PathBuf, String)) -> bool {
    file_hash(base, &e.0) is Some && file_hash(base, &e.0)->Some_0 == e.1@
}

impl AncillaryFilesManifest {
    /// compute_file_hash (tokio file read loop + SHA-256): contract only
    #[verifier::external_body]
    fn compute_file_hash_at(base: &DirPath, rel: &PathBuf, file_path: &PathBuf) -> (r: Result<String, AncillaryFilesManifestVerifyError>)
        requires *file_path == joined(base, rel)
        ensures r is Ok ==> file_hash(base, rel) == Some(r->Ok_0@)
    { unimplemented!() }

    //@extract file=internal/cardano-node/mithril-cardano-node-internal-database/src/entities/ancillary_files_manifest.rs fn=verify_data within="impl AncillaryFilesManifest"
    //@ rewrite /pub async fn/ => /fn/
    //@ rewrite /\.await/ => //
    //@ rewrite /base_directory: &std::path::Path/ => /base_directory: &DirPath/
    //@ rewrite /for \(file_path, expected_hash\) in &self\.signable_manifest\.data \{/ => /for verif_e in it: self.signable_manifest.data.iter() { let (verif_rel, expected_hash) = (&verif_e.0, &verif_e.1); let file_path = verif_rel;/
    //@ rewrite /(?s)Self::compute_file_hash\(&file_path\)\s*\.map_err\(\|source\| \{.*?\}\)\?/ => /Self::compute_file_hash_at(base_directory, verif_rel, &file_path)?/
    //@ rewrite /expected_hash: expected_hash\.clone\(\)/ => /expected_hash: string_clone(expected_hash)/
    //@ spec ensures ret is Ok ==> data_matches(self, base_directory)
    //@ loop 0 invariant 0 <= it.index@ <= self.signable_manifest.data@.len(),
    //@ loop 0     forall|i: int| 0 <= i < it.index@ ==> entry_matches(base_directory, #[trigger] self.signable_manifest.data@[i]),
    //@end

    #[verifier::external_body]
    pub fn signature(&self) -> (r: Option<ManifestSignature>) ensures r == self.signable_manifest.signature { unimplemented!() }

    //@extract file=internal/cardano-node/mithril-cardano-node-internal-database/src/entities/ancillary_files_manifest.rs fn=compute_hash within="impl AncillaryFilesManifest"
    //@ rewrite /-> Vec<u8>/ => /-> ManifestHash/
    //@ rewrite /for \((\w+), (\w+)\) in &self\.signable_manifest\.data \{/ => /for verif_e in it: self.signable_manifest.data.iter() { let (\1, \2) = (&verif_e.0, &verif_e.1);/
    //@ rewrite /hasher\.update\((\w+)\.to_string_lossy\(\)\.as_bytes\(\)\);/ => /hasher.update_path(\1);/
    //@ rewrite /hasher\.update\((\w+)\.as_bytes\(\)\);/ => /hasher.update_str(\1);/
    //@ rewrite /hasher\.finalize\(\)\.to_vec\(\)/ => /hasher.finalize_to_vec()/
    //@ spec ensures ret == manifest_hash(self.signable_manifest.data@)
    //@ loop 0 invariant 0 <= it.index@ <= self.signable_manifest.data@.len(), fed(&hasher) == preimage(self.signable_manifest.data@, it.index@ as int),
    //@end
    /// the listed relative paths, in order
    #[verifier::external_body]
    pub fn files(&self) -> (r: Vec<PathBuf>) ensures r@ == listed_files(self.signable_manifest.data@) { unimplemented!() }
}
/// what the manifest's signature covers: SHA-256 of, for every entry IN ORDER, the FULL relative path string (lossy UTF-8,
/// separators included) followed by the listed hash string
pub open spec fn preimage(d: Seq<(PathBuf, String)>, j: int) -> Seq<u8>
    decreases j
{
    if j <= 0 { Seq::empty() } else { preimage(d, j - 1) + path_string_bytes(&d[j - 1].0) + string_bytes(d[j - 1].1@) }
}
pub uninterp spec fn path_string_bytes(p: &PathBuf) -> Seq<u8>;
pub uninterp spec fn string_bytes(s: Seq<char>) -> Seq<u8>;
pub uninterp spec fn sha256(b: Seq<u8>) -> ManifestHash;
pub open spec fn manifest_hash(d: Seq<(PathBuf, String)>) -> ManifestHash { sha256(preimage(d, d.len() as int)) }
/// sha2::Sha256 as an accumulator of the bytes fed so far (Digest::update / finalize)
#[verifier::external_body] pub struct Sha256 { _p: core::marker::PhantomData<u8> }
pub uninterp spec fn fed(h: &Sha256) -> Seq<u8>;
impl Sha256 {
    #[verifier::external_body]
    pub fn new() -> (r: Self) ensures fed(&r) == Seq::<u8>::empty() { unimplemented!() }
    /// `update(path.to_string_lossy().as_bytes())`
    #[verifier::external_body]
    pub fn update_path(&mut self, p: &PathBuf) ensures fed(final(self)) == fed(old(self)) + path_string_bytes(p) { unimplemented!() }
    /// `update(s.as_bytes())`
    #[verifier::external_body]
    pub fn update_str(&mut self, s: &String) ensures fed(final(self)) == fed(old(self)) + string_bytes(s@) { unimplemented!() }
    /// `finalize().to_vec()`
    #[verifier::external_body]
    pub fn finalize_to_vec(self) -> (r: ManifestHash) ensures r == sha256(fed(&self)) { unimplemented!() }
}
pub uninterp spec fn listed_files(d: Seq<(PathBuf, String)>) -> Seq<PathBuf>;
/// Ed25519: `sig` is a valid signature of `h` under the verifier's (configured) key
pub uninterp spec fn signature_valid(v: &ManifestVerifier, h: ManifestHash, sig: ManifestSignature) -> bool;
impl ManifestVerifier {
    #[verifier::external_body]
    pub fn verify(&self, h: &ManifestHash, sig: &ManifestSignature) -> (r: Result<(), AncillaryVerificationError>) ensures r is Ok ==> signature_valid(self, *h, *sig) { unimplemented!() }
}

// ---- mithril-client AncillaryVerifier ----
/// the manifest parsed from `<dir>/ancillary_manifest.json` (File::open + serde_json::from_reader)
pub uninterp spec fn manifest_at(p: PathBuf) -> Option<AncillaryFilesManifest>;
pub uninterp spec fn manifest_path_of(dir: &DirPath) -> PathBuf;
pub open spec fn manifest_in(dir: &DirPath) -> Option<AncillaryFilesManifest> { manifest_at(manifest_path_of(dir)) }
/// `dir.join(AncillaryFilesManifest::ANCILLARY_MANIFEST_FILE_NAME)`
#[verifier::external_body]
fn manifest_path(dir: &DirPath) -> (r: PathBuf) ensures r == manifest_path_of(dir) { unimplemented!() }
#[verifier::external_body]
fn open_file(p: &PathBuf) -> (r: Result<FileHandle, AncillaryVerificationError>) ensures r is Ok ==> opened(&r->Ok_0) == *p { unimplemented!() }
pub uninterp spec fn opened(f: &FileHandle) -> PathBuf;
#[verifier::external_body]
fn parse_manifest(f: &FileHandle) -> (r: Result<AncillaryFilesManifest, AncillaryVerificationError>)
    ensures r is Ok ==> manifest_at(opened(f)) == Some(r->Ok_0)
{ unimplemented!() }
impl DirPath { #[verifier::external_body] pub fn to_path_buf(&self) -> (r: PathBuf) ensures r == dir_as_path(self) { unimplemented!() } }
pub uninterp spec fn dir_as_path(d: &DirPath) -> PathBuf;

pub struct AncillaryVerifier { pub verifier: ManifestVerifier }
pub struct ValidatedAncillaryManifest { pub base_directory: PathBuf, pub ancillary_files: Vec<PathBuf> }

/// what a validated manifest stands for: the directory holds a manifest whose listed files all hash to the listed hashes, which
/// carries a signature valid under the CONFIGURED key over the manifest's hash, and exactly the listed files are handed on
pub open spec fn validated(v: &AncillaryVerifier, dir: &DirPath, out: &ValidatedAncillaryManifest) -> bool {
    &&& manifest_in(dir) is Some
    &&& data_matches(&manifest_in(dir)->Some_0, dir)
    &&& manifest_in(dir)->Some_0.signable_manifest.signature is Some
    &&& signature_valid(&v.verifier, manifest_hash(manifest_in(dir)->Some_0.signable_manifest.data@), manifest_in(dir)->Some_0.signable_manifest.signature->Some_0)
    &&& out.ancillary_files@ == listed_files(manifest_in(dir)->Some_0.signable_manifest.data@)
    &&& out.base_directory == dir_as_path(dir)
}

impl AncillaryFilesManifest {
    /// verify_data seen from another crate (its own contract: the extracted function above)
    #[verifier::external_body]
    pub fn verify_data_ext(&self, base_directory: &DirPath) -> (ret: Result<(), AncillaryVerificationError>) ensures ret is Ok ==> data_matches(self, base_directory) { unimplemented!() }
}

impl AncillaryVerifier {
    //@extract file=mithril-client/src/utils/ancillary_verifier.rs fn=verify within="impl AncillaryVerifier"
    //@ rewrite /pub async fn/ => /fn/
    //@ rewrite /\.await/ => //
    //@ rewrite /temp_ancillary_dir: &Path/ => /temp_ancillary_dir: &DirPath/
    //@ rewrite /temp_ancillary_dir\.join\(AncillaryFilesManifest::ANCILLARY_MANIFEST_FILE_NAME\)/ => /manifest_path(temp_ancillary_dir)/
    //@ rewrite /(?s)File::open\(&ancillary_manifest_path\)\s*\.with_context\(\|\| "[^"]*"\)\s*\.map_err\(\|e\| \{.*?\}\)\?/ => /open_file(&ancillary_manifest_path)?/
    //@ rewrite /(?s)serde_json::from_reader\(&manifest_file\)\.map_err\(\|e\| \{.*?\}\)\?/ => /parse_manifest(&manifest_file)?/
    //@ rewrite /manifest\.verify_data\(temp_ancillary_dir\)\?/ => /manifest.verify_data_ext(temp_ancillary_dir)?/
    //@ rewrite /\s*\.map_err\(AncillaryVerificationError::SignatureInvalid\)/ => //
    //@ spec ensures ret is Ok ==> validated(self, temp_ancillary_dir, &ret->Ok_0)
    //@end
}

// ---- mithril-client DownloadTask (ancillary kind) ----
#[verifier::external_body] pub struct Logger { _p: core::marker::PhantomData<u8> }
pub struct DownloadTask {}
/// move_to_final_location(target) was called on this validated manifest
pub uninterp spec fn moved_to(m: &ValidatedAncillaryManifest, target: &DirPath) -> bool;
/// the archive was downloaded and unpacked INTO this directory
pub uninterp spec fn unpacked_into(t: &DownloadTask, dir: &DirPath) -> bool;
impl ValidatedAncillaryManifest {
    #[verifier::external_body]
    pub fn move_to_final_location(&self, target: &DirPath) -> (r: Result<(), MithrilError>) ensures r is Ok ==> moved_to(self, target) { unimplemented!() }
}
impl AncillaryVerifier {
    #[verifier::external_body]
    pub fn verify_ext(&self, dir: &DirPath) -> (r: Result<ValidatedAncillaryManifest, MithrilError>) ensures r is Ok ==> validated(self, dir, &r->Ok_0) { unimplemented!() }
}
impl DownloadTask {
    #[verifier::external_body]
    fn download_unpack_file(&self, target_dir: &DirPath, logger: &Logger) -> (r: Result<(), MithrilError>) ensures r is Ok ==> unpacked_into(self, target_dir) { unimplemented!() }

    //@extract file=mithril-client/src/cardano_database_client/download_unpack/download_task.rs fn=download_unpack_verify_ancillary within="impl DownloadTask"
    //@ rewrite /async fn/ => /fn/
    //@ rewrite /\.await/ => //
    //@ rewrite /ancillary_files_temp_dir: &Path/ => /ancillary_files_temp_dir: &DirPath/
    //@ rewrite /target_dir: &Path/ => /target_dir: &DirPath/
    //@ rewrite /ancillary_verifier: &Arc<AncillaryVerifier>/ => /ancillary_verifier: &AncillaryVerifier/
    //@ rewrite /MithrilResult<\(\)>/ => /Result<(), MithrilError>/
    //@ rewrite /ancillary_verifier\.verify\(/ => /ancillary_verifier.verify_ext(/
    //@ spec ensures ret is Ok ==> unpacked_into(self, ancillary_files_temp_dir)
    //@ spec     // what reaches the target directory is a manifest validated in the TEMPORARY directory the archive was unpacked into
    //@ spec     && exists|m: ValidatedAncillaryManifest| validated(ancillary_verifier, ancillary_files_temp_dir, &m) && #[trigger] moved_to(&m, target_dir)
    //@end
}

} // verus!
fn main() {}

// C11 — Verus on the working tree's text of the client-side proof message verification (mithril-common) and of the
// protocol-message reconstruction (mithril-client MessageBuilder). Merkle-map proof verification / membership
// (ckb-merkle-mountain-range behind MKMapProof), hex/JSON decoding and Display are callee contracts.
use vstd::prelude::*;
use vstd::std_specs::cmp::PartialEqSpec;
verus! {

pub type TransactionHash = String;
#[derive(Clone, Copy, PartialEq, Eq)] pub struct BlockNumber(pub u64);
#[derive(Clone, Copy, PartialEq, Eq)] pub struct BlockNumberOffset(pub u64);
#[verifier::external_body] pub struct ProtocolMkProof { _p: core::marker::PhantomData<u8> }
#[verifier::external_body] pub struct MKTreeNode { _p: core::marker::PhantomData<u8> }
pub struct StdError {}

// ---- callee contracts -------------------------------------------------------------------------------------------
pub uninterp spec fn proof_valid(p: &ProtocolMkProof) -> bool;                  // MKMapProof::verify: sub-proofs + master proof (C09 assumptions)
pub uninterp spec fn proof_contains(p: &ProtocolMkProof, n: MKTreeNode) -> bool;  // MKMapProof::contains
pub uninterp spec fn proof_root(p: &ProtocolMkProof) -> Seq<char>;                // compute_root().to_hex()
pub uninterp spec fn hash_node(h: Seq<char>) -> MKTreeNode;                       // From<String> for MKTreeNode
pub uninterp spec fn decode_proof(s: Seq<char>) -> Option<ProtocolMkProof>;       // ProtocolMkProof::from_json_hex (a partial function of the string)
pub uninterp spec fn u64_str(v: u64) -> Seq<char>;                                // Display of the number newtypes (decimal)

pub assume_specification<T: Clone>[<[T]>::to_vec](s: &[T]) -> (r: Vec<T>);   // only used to decorate error values

/// std semantics of `!=` on Option<String>: structural comparison of the strings
pub open spec fn string_eq_is_view_eq() -> bool {
    <String as PartialEqSpec<String>>::obeys_eq_spec()
    && forall|x: String, y: String| #[trigger] <String as PartialEqSpec<String>>::eq_spec(&x, &y) == (x@ == y@)
}
/// std semantics of String's PartialEq (vstd specifies `==` on String but not the PartialEqSpec used for Option<String>)
#[verifier::external_body]
pub proof fn axiom_string_eq() ensures string_eq_is_view_eq() {}

pub struct RootHex { pub hex: String }
impl RootHex { pub fn to_hex(&self) -> (r: String) ensures r@ == self.hex@ { self.hex.clone() } }

impl ProtocolMkProof {
    #[verifier::external_body]
    pub fn verify(&self) -> (r: Result<(), StdError>) ensures r is Ok ==> proof_valid(self) { unimplemented!() }
    #[verifier::external_body]
    pub fn contains(&self, n: &MKTreeNode) -> (r: Result<(), StdError>) ensures r is Ok ==> proof_contains(self, *n) { unimplemented!() }
    #[verifier::external_body]
    pub fn compute_root(&self) -> (r: RootHex) ensures r.hex@ == proof_root(self) { unimplemented!() }
}
#[verifier::external_body]
fn tx_hash_node(h: &TransactionHash) -> (r: MKTreeNode) ensures r == hash_node(h@) { unimplemented!() }

// ---- legacy format: a list of (transaction hashes, proof) parts ----------------------------------------------------
pub struct CardanoTransactionsSetProof { pub transactions_hashes: Vec<TransactionHash>, pub transactions_proof: ProtocolMkProof }
pub struct CardanoTransactionsSetProofMessagePart { pub transactions_hashes: Vec<TransactionHash>, pub proof: String }

/// every listed hash is a leaf proven by a valid proof
pub open spec fn set_proof_ok(hashes: Seq<TransactionHash>, p: &ProtocolMkProof) -> bool {
    proof_valid(p) && forall|i: int| 0 <= i < hashes.len() ==> proof_contains(p, hash_node(#[trigger] hashes[i]@))
}

impl CardanoTransactionsSetProof {
    //@extract file=mithril-common/src/entities/cardano_transactions_set_proof.rs fn=verify within="impl CardanoTransactionsSetProof"
    //@ rewrite /StdResult<\(\)>/ => /Result<(), StdError>/
    //@ rewrite /for (\w+) in &self\.transactions_hashes \{/ => /for \1 in it: self.transactions_hashes.iter() {/
    //@ rewrite /&(\w+)\.to_owned\(\)\.into\(\)/ => /&tx_hash_node(\1)/
    //@ spec ensures ret is Ok ==> set_proof_ok(self.transactions_hashes@, &self.transactions_proof)
    //@ loop 0 invariant proof_valid(&self.transactions_proof), forall|i: int| 0 <= i < it.index@ ==> proof_contains(&self.transactions_proof, hash_node(#[trigger] self.transactions_hashes@[i]@)),
    //@end

    //@extract file=mithril-common/src/entities/cardano_transactions_set_proof.rs fn=merkle_root within="impl CardanoTransactionsSetProof"
    //@ spec ensures ret@ == proof_root(&self.transactions_proof)
    //@end

    //@extract file=mithril-common/src/entities/cardano_transactions_set_proof.rs fn=transactions_hashes within="impl CardanoTransactionsSetProof"
    //@ spec ensures ret@ == self.transactions_hashes@
    //@end
}

impl CardanoTransactionsSetProofMessagePart {
    /// contract of `TryFrom<CardanoTransactionsSetProofMessagePart> for CardanoTransactionsSetProof` (hex/JSON decoding):
    /// the hashes are carried over unchanged, the proof is the decoding of the proof string
    #[verifier::external_body]
    pub fn try_into(self) -> (r: Result<CardanoTransactionsSetProof, StdError>)
        ensures r is Ok ==> r->Ok_0.transactions_hashes@ == self.transactions_hashes@ && decode_proof(self.proof@) == Some(r->Ok_0.transactions_proof)
    { unimplemented!() }
}
impl Clone for CardanoTransactionsSetProofMessagePart {
    #[verifier::external_body]
    fn clone(&self) -> (r: Self) ensures r == *self { unimplemented!() }
}

pub enum VerifyCardanoTransactionsProofsError {
    InvalidSetProof { transactions_hashes: Vec<TransactionHash>, source: StdError },
    NoCertifiedTransaction,
    NonMatchingMerkleRoot,
    MalformedData(StdError),
}

pub struct VerifiedCardanoTransactions {
    pub certificate_hash: String,
    pub merkle_root: String,
    pub certified_transactions: Vec<TransactionHash>,
    pub latest_block_number: BlockNumber,
}

pub struct CardanoTransactionsProofsMessage {
    pub certificate_hash: String,
    pub certified_transactions: Vec<CardanoTransactionsSetProofMessagePart>,
    pub non_certified_transactions: Vec<TransactionHash>,
    pub latest_block_number: BlockNumber,
}

/// all transaction hashes of the first j parts, in order
pub open spec fn flat_hashes(parts: Seq<CardanoTransactionsSetProofMessagePart>, j: int) -> Seq<TransactionHash>
    decreases j
{
    if j <= 0 { Seq::empty() } else { flat_hashes(parts, j - 1) + parts[j - 1].transactions_hashes@ }
}

/// part j is a set of leaves proven (by the decoding of its own proof string) under the root `root`
pub open spec fn part_ok(part: &CardanoTransactionsSetProofMessagePart, root: Seq<char>) -> bool {
    decode_proof(part.proof@) is Some
    && set_proof_ok(part.transactions_hashes@, &decode_proof(part.proof@)->Some_0)
    && proof_root(&decode_proof(part.proof@)->Some_0) == root
}

/// contract of `self.certified_transactions.iter().flat_map(|c| c.transactions_hashes.clone()).collect()`
#[verifier::external_body]
fn collect_hashes(parts: &Vec<CardanoTransactionsSetProofMessagePart>) -> (r: Vec<TransactionHash>)
    ensures r@ == flat_hashes(parts@, parts@.len() as int)
{ unimplemented!() }

impl CardanoTransactionsProofsMessage {
    //@extract file=mithril-common/src/messages/cardano_transactions_proof.rs fn=verify within="impl CardanoTransactionsProofsMessage"
    //@ rewrite /let mut merkle_root = None;/ => /let mut merkle_root: Option<String> = None;/
    //@ rewrite /for (\w+) in &self\.certified_transactions \{/ => /for \1 in it: self.certified_transactions.iter() {/
    //@ rewrite /\.map_err\(VerifyCardanoTransactionsProofsError::MalformedData\)/ => /.map_err(|e: StdError| -> (r: VerifyCardanoTransactionsProofsError) { VerifyCardanoTransactionsProofsError::MalformedData(e) })/
    //@ rewrite /\.map_err\(\|e\| \{/ => /.map_err(|e: StdError| -> (r: VerifyCardanoTransactionsProofsError) {/
    //@ rewrite /certified_transactions: self\s*\.certified_transactions\s*\.iter\(\)\s*\.flat_map\(\|c\| c\.transactions_hashes\.clone\(\)\)\s*\.collect\(\),/ => /certified_transactions: collect_hashes(&self.certified_transactions),/
    //@ spec ensures ret is Ok ==> ({
    //@ spec     let v = ret->Ok_0;
    //@ spec     // at least one part; every reported item is a leaf proven under ONE single Merkle root, the one reported
    //@ spec     &&& self.certified_transactions@.len() > 0
    //@ spec     &&& forall|j: int| 0 <= j < self.certified_transactions@.len() ==> part_ok(&#[trigger] self.certified_transactions@[j], v.merkle_root@)
    //@ spec     // the reported items are exactly the items of the parts, the block number and certificate hash are copied
    //@ spec     &&& v.certified_transactions@ == flat_hashes(self.certified_transactions@, self.certified_transactions@.len() as int)
    //@ spec     &&& v.latest_block_number == self.latest_block_number
    //@ spec     &&& v.certificate_hash@ == self.certificate_hash@
    //@ spec }),
    //@ body_prefix proof { axiom_string_eq(); }
    //@ loop 0 invariant
    //@ loop 0     string_eq_is_view_eq(),
    //@ loop 0     0 <= it.index@ <= self.certified_transactions@.len(),
    //@ loop 0     it.index@ == 0 ==> merkle_root is None,
    //@ loop 0     it.index@ > 0 ==> merkle_root is Some,
    //@ loop 0     forall|j: int| 0 <= j < it.index@ ==> part_ok(&#[trigger] self.certified_transactions@[j], merkle_root->Some_0@),
    //@end
}

// ---- v2 format (blocks / transactions): one MkSetProof over items --------------------------------------------------
#[verifier::external_body] pub struct Item { _p: core::marker::PhantomData<u8> }        // CardanoTransaction / CardanoBlock
#[verifier::external_body] pub struct ItemMsg { _p: core::marker::PhantomData<u8> }     // ...MessagePart
pub uninterp spec fn item_node(i: &Item) -> MKTreeNode;          // IntoMKTreeNode: 'Tx/<hash>/<block hash>/<n>/<slot>' leaf (injectivity: not decided here)
pub uninterp spec fn item_of(m: &ItemMsg) -> Item;               // From<message part> for the entity (field-by-field copy)
pub uninterp spec fn decode_proof_hex(s: Seq<char>) -> Option<ProtocolMkProof>;   // ProtocolMkProof::from_bytes_hex

pub struct MkSetProof { pub items: Vec<Item>, pub proof: ProtocolMkProof }
pub struct MkSetProofMessagePart { pub items: Vec<ItemMsg>, pub proof: String }

pub open spec fn items_proven(items: Seq<Item>, p: &ProtocolMkProof) -> bool {
    proof_valid(p) && forall|i: int| 0 <= i < items.len() ==> proof_contains(p, item_node(&#[trigger] items[i]))
}
pub open spec fn msg_items(m: &MkSetProofMessagePart) -> Seq<Item> { Seq::new(m.items@.len(), |i: int| item_of(&m.items@[i])) }

#[verifier::external_body]
fn node_of_item(i: &Item) -> (r: MKTreeNode) ensures r == item_node(i) { unimplemented!() }

impl MkSetProof {
    //@extract file=mithril-common/src/entities/mk_set_proof.rs fn=verify within="impl<T: IntoMKTreeNode + Clone> MkSetProof<T>"
    //@ rewrite /StdResult<\(\)>/ => /Result<(), StdError>/
    //@ rewrite /for node in self\.items\.iter\(\)\.cloned\(\)\.map\(IntoMKTreeNode::into_mk_tree_node\) \{/ => /for verif_item in it: self.items.iter() { let node = node_of_item(verif_item);/
    //@ spec ensures ret is Ok ==> items_proven(self.items@, &self.proof)
    //@ loop 0 invariant proof_valid(&self.proof), forall|i: int| 0 <= i < it.index@ ==> proof_contains(&self.proof, item_node(&#[trigger] self.items@[i])),
    //@end

    //@extract file=mithril-common/src/entities/mk_set_proof.rs fn=merkle_root within="impl<T: IntoMKTreeNode + Clone> MkSetProof<T>"
    //@ spec ensures ret@ == proof_root(&self.proof)
    //@end
}

impl MkSetProofMessagePart {
    /// contract of `TryFrom<MkSetProofMessagePart<U>> for MkSetProof<T>`: items converted one by one, proof decoded from hex
    #[verifier::external_body]
    pub fn try_into(self) -> (r: Result<MkSetProof, StdError>)
        ensures r is Ok ==> r->Ok_0.items@ == msg_items(&self) && decode_proof_hex(self.proof@) == Some(r->Ok_0.proof)
    { unimplemented!() }
}
impl Clone for MkSetProofMessagePart {
    #[verifier::external_body]
    fn clone(&self) -> (r: Self) ensures r == *self { unimplemented!() }
}

pub enum VerifyProofsV2Error { InvalidSetProof, NoCertifiedItem(&'static str), MalformedData(&'static str, StdError) }

pub struct ProofMessageVerifier { pub subject: &'static str }

/// the message part's items (converted) are leaves proven by the decoding of its own proof string, whose root is `root`
pub open spec fn v2_part_ok(m: &MkSetProofMessagePart, root: Seq<char>) -> bool {
    decode_proof_hex(m.proof@) is Some
    && items_proven(msg_items(m), &decode_proof_hex(m.proof@)->Some_0)
    && proof_root(&decode_proof_hex(m.proof@)->Some_0) == root
}

impl ProofMessageVerifier {
    //@extract file=mithril-common/src/messages/proof_v2/verify.rs fn=proof_message_into_entity
    //@ rewrite /MkSetProofMessagePart<T>/ => /MkSetProofMessagePart/
    //@ rewrite /MkSetProof<U>/ => /MkSetProof/
    //@ rewrite /\.map_err\(\|e\| (VerifyProofsV2Error::MalformedData\(self\.subject, e\))\)/ => /.map_err(|e: StdError| -> (r: VerifyProofsV2Error) { \1 })/
    //@ spec ensures ret is Ok ==> ret->Ok_0.items@ == msg_items(message) && decode_proof_hex(message.proof@) == Some(ret->Ok_0.proof)
    //@end

    //@extract file=mithril-common/src/messages/proof_v2/verify.rs fn=verify within="ProofMessageVerifier<T, U>"
    //@ rewrite /MkSetProofMessagePart<T>/ => /MkSetProofMessagePart/
    //@ rewrite /(?s)\.map_err\(\|e\| VerifyProofsV2Error::InvalidSetProof \{.*?\}\)\?;/ => /.map_err(|e: StdError| -> (r: VerifyProofsV2Error) { VerifyProofsV2Error::InvalidSetProof })?;/
    //@ spec ensures ret is Ok ==> v2_part_ok(proof_message, ret->Ok_0@)
    //@end
}

impl ProofMessageVerifier {
    /// the hash extractor closure is only used to decorate errors
    pub fn new(subject: &'static str) -> (r: Self) { ProofMessageVerifier { subject } }
}
impl Clone for ItemMsg {
    #[verifier::external_body]
    fn clone(&self) -> (r: Self) ensures r == *self { unimplemented!() }
}
#[verifier::external_body]
fn clone_items(v: &Vec<ItemMsg>) -> (r: Vec<ItemMsg>) ensures r@ == v@ { unimplemented!() }

pub struct CardanoTransactionsProofsV2Message {
    pub certificate_hash: String,
    pub certified_transactions: Option<MkSetProofMessagePart>,
    pub non_certified_transactions: Vec<String>,
    pub latest_block_number: BlockNumber,
    pub security_parameter: BlockNumberOffset,
}
pub struct VerifiedCardanoTransactionsV2 {
    pub certificate_hash: String,
    pub merkle_root: String,
    pub certified_transactions: Vec<ItemMsg>,
    pub latest_block_number: BlockNumber,
    pub security_parameter: BlockNumberOffset,
}
pub struct CardanoBlocksProofsMessage {
    pub certificate_hash: String,
    pub certified_blocks: Option<MkSetProofMessagePart>,
    pub non_certified_blocks: Vec<String>,
    pub latest_block_number: BlockNumber,
    pub security_parameter: BlockNumberOffset,
}
pub struct VerifiedCardanoBlocks {
    pub certificate_hash: String,
    pub merkle_root: String,
    pub certified_blocks: Vec<ItemMsg>,
    pub latest_block_number: BlockNumber,
    pub security_parameter: BlockNumberOffset,
}

impl CardanoTransactionsProofsV2Message {
    //@extract file=mithril-common/src/messages/proof_v2/cardano_transactions_proof.rs fn=verify within="impl CardanoTransactionsProofsV2Message"
    //@ rewrite /const SUBJECT: &str = ("[^"]*");/ => /let SUBJECT: &'static str = \1;/
    //@ rewrite /(?s)ProofMessageVerifier::<_, CardanoTransaction>::new\(SUBJECT, \|tx\| \{.*?\}\)/ => /ProofMessageVerifier::new(SUBJECT)/
    //@ rewrite /certified_transactions\.items\.clone\(\)/ => /clone_items(&certified_transactions.items)/
    //@ spec ensures ret is Ok ==> ({
    //@ spec     let v = ret->Ok_0;
    //@ spec     &&& self.certified_transactions is Some
    //@ spec     &&& v2_part_ok(&self.certified_transactions->Some_0, v.merkle_root@)
    //@ spec     &&& v.certified_transactions@ == (self.certified_transactions->Some_0).items@
    //@ spec     &&& v.latest_block_number == self.latest_block_number && v.security_parameter == self.security_parameter
    //@ spec     &&& v.certificate_hash@ == self.certificate_hash@
    //@ spec }),
    //@end
}

impl CardanoBlocksProofsMessage {
    //@extract file=mithril-common/src/messages/proof_v2/cardano_blocks_proof.rs fn=verify within="impl CardanoBlocksProofsMessage"
    //@ rewrite /const SUBJECT: &str = ("[^"]*");/ => /let SUBJECT: &'static str = \1;/
    //@ rewrite /(?s)ProofMessageVerifier::<_, CardanoBlock>::new\(SUBJECT, \|block\| .*?\)\s*\.verify/ => /ProofMessageVerifier::new(SUBJECT).verify/
    //@ rewrite /certified_blocks\.items\.clone\(\)/ => /clone_items(&certified_blocks.items)/
    //@ spec ensures ret is Ok ==> ({
    //@ spec     let v = ret->Ok_0;
    //@ spec     &&& self.certified_blocks is Some
    //@ spec     &&& v2_part_ok(&self.certified_blocks->Some_0, v.merkle_root@)
    //@ spec     &&& v.certified_blocks@ == (self.certified_blocks->Some_0).items@
    //@ spec     &&& v.latest_block_number == self.latest_block_number && v.security_parameter == self.security_parameter
    //@ spec     &&& v.certificate_hash@ == self.certificate_hash@
    //@ spec }),
    //@end
}

// ---- reconstruction of the signed protocol message from the VERIFIED value (mithril-client MessageBuilder) -------------
pub enum ProtocolMessagePartKey { CardanoTransactionsMerkleRoot, LatestBlockNumber, CardanoBlocksTransactionsMerkleRoot, CardanoBlocksTransactionsBlockNumberOffset, CardanoStakeDistributionEpoch, CardanoStakeDistributionMerkleRoot, Other }
#[verifier::external_body] pub struct ProtocolMessage { _p: core::marker::PhantomData<u8> }
pub uninterp spec fn parts(m: &ProtocolMessage) -> Map<ProtocolMessagePartKey, Seq<char>>;
impl ProtocolMessage {
    #[verifier::external_body]
    pub fn set_message_part(&mut self, key: ProtocolMessagePartKey, value: String)
        ensures parts(final(self)) == parts(old(self)).insert(key, value@)
    { unimplemented!() }
}
impl Clone for ProtocolMessage {
    #[verifier::external_body]
    fn clone(&self) -> (r: Self) ensures parts(&r) == parts(self) { unimplemented!() }
}
impl BlockNumber {
    #[verifier::external_body]
    pub fn to_string(&self) -> (r: String) ensures r@ == u64_str(self.0) { unimplemented!() }
}
impl BlockNumberOffset {
    #[verifier::external_body]
    pub fn to_string(&self) -> (r: String) ensures r@ == u64_str(self.0) { unimplemented!() }
}
#[verifier::external_body]
fn str_to_string(s: &str) -> (r: String) ensures r@ == s@ { s.to_string() }
#[verifier::external_body]
fn clone_string(s: &String) -> (r: String) ensures r@ == s@ { s.clone() }

impl VerifiedCardanoTransactions {
    //@extract file=mithril-common/src/messages/cardano_transactions_proof.rs fn=fill_protocol_message within="impl VerifiedCardanoTransactions"
    //@ rewrite /self\.merkle_root\.clone\(\)/ => /clone_string(&self.merkle_root)/
    //@ spec ensures parts(final(message)) == parts(old(message)).insert(ProtocolMessagePartKey::CardanoTransactionsMerkleRoot, self.merkle_root@).insert(ProtocolMessagePartKey::LatestBlockNumber, u64_str(self.latest_block_number.0))
    //@end
}

impl VerifiedCardanoTransactionsV2 {
    //@extract file=mithril-common/src/messages/proof_v2/cardano_transactions_proof.rs fn=certified_merkle_root within="impl VerifiedCardanoTransactionsV2"
    //@ spec ensures ret@ == self.merkle_root@
    //@end
    //@extract file=mithril-common/src/messages/proof_v2/cardano_transactions_proof.rs fn=latest_certified_block_number within="impl VerifiedCardanoTransactionsV2"
    //@ spec ensures ret == self.latest_block_number
    //@end
    //@extract file=mithril-common/src/messages/proof_v2/cardano_transactions_proof.rs fn=security_parameter within="impl VerifiedCardanoTransactionsV2"
    //@ spec ensures ret == self.security_parameter
    //@end
}
impl VerifiedCardanoBlocks {
    //@extract file=mithril-common/src/messages/proof_v2/cardano_blocks_proof.rs fn=certified_merkle_root within="impl VerifiedCardanoBlocks"
    //@ spec ensures ret@ == self.merkle_root@
    //@end
    //@extract file=mithril-common/src/messages/proof_v2/cardano_blocks_proof.rs fn=latest_certified_block_number within="impl VerifiedCardanoBlocks"
    //@ spec ensures ret == self.latest_block_number
    //@end
    //@extract file=mithril-common/src/messages/proof_v2/cardano_blocks_proof.rs fn=security_parameter within="impl VerifiedCardanoBlocks"
    //@ spec ensures ret == self.security_parameter
    //@end
}

pub struct MithrilCertificate { pub protocol_message: ProtocolMessage }
pub struct MessageBuilder {}

impl MessageBuilder {
    //@extract file=mithril-client/src/message.rs fn=compute_cardano_transactions_proofs_message
    //@ spec ensures parts(&ret) == parts(&transactions_proofs_certificate.protocol_message)
    //@ spec     .insert(ProtocolMessagePartKey::CardanoTransactionsMerkleRoot, verified_transactions.merkle_root@)
    //@ spec     .insert(ProtocolMessagePartKey::LatestBlockNumber, u64_str(verified_transactions.latest_block_number.0))
    //@end

    //@extract file=mithril-client/src/message.rs fn=compute_cardano_transactions_proofs_v2_message
    //@ rewrite /\.certified_merkle_root\(\)\.to_string\(\)/ => /.certified_merkle_root().verif_to_string()/
    //@ spec ensures parts(&ret) == parts(&transactions_proofs_certificate.protocol_message)
    //@ spec     .insert(ProtocolMessagePartKey::CardanoBlocksTransactionsMerkleRoot, verified_transactions.merkle_root@)
    //@ spec     .insert(ProtocolMessagePartKey::LatestBlockNumber, u64_str(verified_transactions.latest_block_number.0))
    //@ spec     .insert(ProtocolMessagePartKey::CardanoBlocksTransactionsBlockNumberOffset, u64_str(verified_transactions.security_parameter.0))
    //@end

    //@extract file=mithril-client/src/message.rs fn=compute_cardano_blocks_proofs_message
    //@ rewrite /\.certified_merkle_root\(\)\.to_string\(\)/ => /.certified_merkle_root().verif_to_string()/
    //@ spec ensures parts(&ret) == parts(&blocks_proofs_certificate.protocol_message)
    //@ spec     .insert(ProtocolMessagePartKey::CardanoBlocksTransactionsMerkleRoot, verified_blocks.merkle_root@)
    //@ spec     .insert(ProtocolMessagePartKey::LatestBlockNumber, u64_str(verified_blocks.latest_block_number.0))
    //@ spec     .insert(ProtocolMessagePartKey::CardanoBlocksTransactionsBlockNumberOffset, u64_str(verified_blocks.security_parameter.0))
    //@end
}

pub trait VerifToString { fn verif_to_string(&self) -> String; }
impl VerifToString for str {
    /// `str::to_string`
    #[verifier::external_body]
    fn verif_to_string(&self) -> (r: String) ensures r@ == self@ { self.to_string() }
}

// ---- stake distribution: the message is rebuilt from the SERVED distribution's own Merkle root and epoch ------------------
#[verifier::external_body] pub struct StakeDistribution { _p: core::marker::PhantomData<u8> }
#[verifier::external_body] pub struct MKTree { _p: core::marker::PhantomData<u8> }
#[derive(Clone, Copy)] pub struct Epoch(pub u64);
pub struct MithrilError {}
pub uninterp spec fn stake_tree_root(d: &StakeDistribution) -> Option<Seq<char>>;   // root (hex) of the Merkle tree over the (pool id, stake) leaves - leaf encoding: unit stake_leaf
pub uninterp spec fn tree_root(t: &MKTree) -> Option<Seq<char>>;
pub struct CardanoStakeDistribution { pub epoch: Epoch, pub stake_distribution: StakeDistribution }
pub struct CardanoStakeDistributionSignableBuilder {}
impl Clone for StakeDistribution { #[verifier::external_body] fn clone(&self) -> (r: Self) ensures r == *self { unimplemented!() } }
impl CardanoStakeDistributionSignableBuilder {
    /// mithril-common: MKTree::new over `format!("{}{}", pool_id, stake)` leaves (iterator map/collect + external MMR)
    #[verifier::external_body]
    pub fn compute_merkle_tree_from_stake_distribution(pools_with_stake: StakeDistribution) -> (r: Result<MKTree, MithrilError>)
        ensures r is Ok ==> tree_root(&r->Ok_0) == stake_tree_root(&pools_with_stake)
    { unimplemented!() }
}
impl MKTree {
    #[verifier::external_body]
    pub fn compute_root(&self) -> (r: Result<RootHex, MithrilError>) ensures r is Ok ==> tree_root(self) == Some(r->Ok_0.hex@) { unimplemented!() }
}
impl Epoch {
    #[verifier::external_body]
    pub fn to_string(&self) -> (r: String) ensures r@ == u64_str(self.0) { unimplemented!() }
}
impl MessageBuilder {
    //@extract file=mithril-client/src/message.rs fn=compute_cardano_stake_distribution_message
    //@ rewrite /MithrilResult<ProtocolMessage>/ => /Result<ProtocolMessage, MithrilError>/
    //@ spec ensures ret is Ok ==> stake_tree_root(&cardano_stake_distribution.stake_distribution) is Some
    //@ spec     && parts(&ret->Ok_0) == parts(&certificate.protocol_message)
    //@ spec         .insert(ProtocolMessagePartKey::CardanoStakeDistributionEpoch, u64_str(cardano_stake_distribution.epoch.0))
    //@ spec         .insert(ProtocolMessagePartKey::CardanoStakeDistributionMerkleRoot, stake_tree_root(&cardano_stake_distribution.stake_distribution)->Some_0)
    //@end
}

} // verus!
fn main() {}

// C10 (PARTIAL: the acceptance decision, given the verified digest list) — Verus on the working tree's text of
// mithril-client/src/cardano_database_client/proving.rs: InternalArtifactProver::verify_cardano_database,
// VerifiedDigests::list_immutable_files_not_verified, InternalArtifactProver::check_merkle_root_is_signed_by_certificate.
//   verify_cardano_database Ok ==> no immutable file of the requested range is missing (unless the caller allowed it), EVERY
//   computed (file name, digest) entry of the range equals the digest the verified digest list assigns to THAT VERY file name
//   (content bound to the name: not merely "the digest occurs somewhere in the certified list"), and the returned Merkle proof
//   is the verified tree's proof for exactly those digests and verifies.
// File system, digester (C12), Merkle mountain range (ckb) and download/unpack are callee contracts.
use vstd::prelude::*;
verus! {

pub type ImmutableFileNumber = u64;
pub type ImmutableFileName = String;
pub type HexEncodedDigest = String;
pub struct StdError {}
#[verifier::external_body] pub struct DirPath { _p: core::marker::PhantomData<u8> }        // &Path
#[verifier::external_body] pub struct PathBuf { _p: core::marker::PhantomData<u8> }
#[verifier::external_body] pub struct NumberRange { _p: core::marker::PhantomData<u8> }    // RangeInclusive<ImmutableFileNumber>
#[verifier::external_body] pub struct ImmutableFileRange { _p: core::marker::PhantomData<u8> }
#[verifier::external_body] pub struct MKTree { _p: core::marker::PhantomData<u8> }
#[verifier::external_body] pub struct MKProof { _p: core::marker::PhantomData<u8> }
#[verifier::external_body] pub struct MKTreeNode { _p: core::marker::PhantomData<u8> }
#[verifier::external_body] pub struct ProofError { _p: core::marker::PhantomData<u8> }
#[verifier::external_body] pub struct DigestMap { _p: core::marker::PhantomData<u8> }      // BTreeMap<ImmutableFileName, HexEncodedDigest>
#[verifier::external_body] pub struct ProtocolMessage { _p: core::marker::PhantomData<u8> }
pub struct ImmutableFile { pub filename: ImmutableFileName, pub number: ImmutableFileNumber }
/// BTreeMap<ImmutableFile, HexEncodedDigest> viewed as its (sorted) entry sequence
pub struct ComputedDigests { pub entries: Vec<(ImmutableFile, HexEncodedDigest)> }
pub struct ComputedImmutablesDigests { pub entries: ComputedDigests }
pub struct CardanoDbBeacon { pub immutable_file_number: ImmutableFileNumber }
pub struct CardanoDatabaseSnapshotMessage { pub beacon: CardanoDbBeacon }
pub struct CertificateMessage { pub protocol_message: ProtocolMessage, pub hash: String }
pub struct VerifiedDigests { pub digests: DigestMap, pub merkle_tree: MKTree }
pub struct ImmutableFilesNotVerified { pub tampered_files: Vec<ImmutableFileName>, pub non_verifiable_files: Vec<ImmutableFileName> }
pub struct ImmutableVerificationResult { pub immutables_dir: PathBuf, pub missing: Vec<ImmutableFileName>, pub tampered: Vec<ImmutableFileName>, pub non_verifiable: Vec<ImmutableFileName> }
pub enum CardanoDatabaseVerificationError {
    ImmutableFilesVerification(ImmutableVerificationResult),
    DigestsComputation,
    MerkleProofVerification,
    ImmutableFilesRangeCreation,
}

/// the verified digest list as a map file name -> digest
pub uninterp spec fn digest_map(m: &DigestMap) -> Map<Seq<char>, Seq<char>>;
impl DigestMap {
    #[verifier::external_body]
    pub fn get(&self, k: &ImmutableFileName) -> (r: Option<&HexEncodedDigest>)
        ensures (r is Some) == digest_map(self).dom().contains(k@), r is Some ==> r->Some_0@ == digest_map(self)[k@]
    { unimplemented!() }
}
#[verifier::external_body]
fn string_clone(s: &String) -> (r: String) ensures r@ == s@ { s.clone() }

/// entry i is bound to its name: the verified list assigns exactly this digest to this very file name
pub open spec fn entry_bound(m: &DigestMap, e: (ImmutableFile, HexEncodedDigest)) -> bool {
    digest_map(m).dom().contains(e.0.filename@) && digest_map(m)[e.0.filename@] == e.1@
}
pub open spec fn all_bound(m: &DigestMap, c: &ComputedDigests) -> bool {
    forall|i: int| 0 <= i < c.entries@.len() ==> entry_bound(m, #[trigger] c.entries@[i])
}

impl VerifiedDigests {
    //@extract file=mithril-client/src/cardano_database_client/proving.rs fn=list_immutable_files_not_verified within="impl VerifiedDigests"
    //@ rewrite /computed_digests: &BTreeMap<ImmutableFile, HexEncodedDigest>/ => /computed_digests: &ComputedDigests/
    //@ rewrite /for \(immutable_file, digest\) in computed_digests\.iter\(\) \{/ => /for verif_e in it: computed_digests.entries.iter() { let (immutable_file, digest) = (&verif_e.0, &verif_e.1);/
    //@ rewrite /immutable_file\.filename\.clone\(\)/ => /string_clone(&immutable_file.filename)/
    //@ rewrite /Some\(verified_digest\) if (\w+) != (\w+) =>/ => /Some(verified_digest) if *\1 != *\2 =>/
    //@ rewrite /vec!\[\]/ => /Vec::new()/
    //@ spec ensures
    //@ spec     // nothing reported <==> every computed entry carries the digest the verified list assigns to that very file name
    //@ spec     (ret.tampered_files@.len() == 0 && ret.non_verifiable_files@.len() == 0) == all_bound(&self.digests, computed_digests),
    //@ loop 0 invariant 0 <= it.index@ <= computed_digests.entries@.len(),
    //@ loop 0     (tampered_files@.len() == 0 && non_verifiable_files@.len() == 0) == (forall|i: int| 0 <= i < it.index@ ==> entry_bound(&self.digests, #[trigger] computed_digests.entries@[i])),
    //@end
}

// ---- callee contracts of verify_cardano_database ----
pub uninterp spec fn range_of(r: &ImmutableFileRange, last: ImmutableFileNumber) -> Option<NumberRange>;
/// every chunk / primary / secondary file of every number of the range exists in the directory
pub uninterp spec fn all_present(dir: &DirPath, range: &NumberRange) -> bool;
/// the digester's answer for (directory, range): name and content digest of each immutable file of the range (C12)
pub uninterp spec fn computed_for(dir: &DirPath, range: &NumberRange) -> ComputedDigests;
pub uninterp spec fn digest_nodes(c: &ComputedDigests) -> Seq<MKTreeNode>;
/// p is the tree's membership proof for these leaves / p verifies (ckb Merkle mountain range: contracts as in C11)
pub uninterp spec fn proof_for(t: &MKTree, leaves: Seq<MKTreeNode>, p: &MKProof) -> bool;
pub uninterp spec fn proof_valid(p: &MKProof) -> bool;

impl ImmutableFileRange {
    #[verifier::external_body]
    pub fn to_range_inclusive(&self, last: ImmutableFileNumber) -> (r: Result<NumberRange, CardanoDatabaseVerificationError>)
        ensures r is Ok ==> range_of(self, last) == Some(r->Ok_0)
    { unimplemented!() }
}
pub struct CardanoImmutableDigester {}
impl CardanoImmutableDigester {
    pub fn new() -> Self { CardanoImmutableDigester {} }
    #[verifier::external_body]
    pub fn compute_digests_for_range(&self, dir: &DirPath, range: &NumberRange) -> (r: Result<ComputedImmutablesDigests, CardanoDatabaseVerificationError>)
        ensures r is Ok ==> r->Ok_0.entries == computed_for(dir, range)
    { unimplemented!() }
}
/// `computed_digest_entries.values().map(MKTreeNode::from).collect::<Vec<_>>()`
#[verifier::external_body]
fn nodes_of(c: &ComputedDigests) -> (r: Vec<MKTreeNode>) ensures r@ == digest_nodes(c) { unimplemented!() }
impl MKTree {
    #[verifier::external_body]
    pub fn compute_proof(&self, leaves: &Vec<MKTreeNode>) -> (r: Result<MKProof, ProofError>) ensures r is Ok ==> proof_for(self, leaves@, &r->Ok_0) { unimplemented!() }
}
impl MKProof {
    #[verifier::external_body]
    pub fn verify(&self) -> (r: Result<(), CardanoDatabaseVerificationError>) ensures r is Ok ==> proof_valid(self) { unimplemented!() }
    #[verifier::external_body]
    pub fn clone(&self) -> (r: MKProof) ensures r == *self { unimplemented!() }
}
/// `if let Ok(ref x) = result` (let-chains and ref patterns are outside Verus' subset): the borrowed Ok value
#[verifier::external_body]
fn ok_ref(r: &Result<MKProof, ProofError>) -> (p: &MKProof) requires r is Ok ensures *p == r->Ok_0 { unimplemented!() }
#[verifier::external_body]
fn names_is_empty(v: &Vec<ImmutableFileName>) -> (r: bool) ensures r == (v@.len() == 0) { v.is_empty() }

// ---- the certificate binds the Merkle root ----
pub enum ProtocolMessagePartKey { CardanoDatabaseMerkleRoot, Other }
pub uninterp spec fn message_parts(m: &ProtocolMessage) -> Map<ProtocolMessagePartKey, Seq<char>>;
pub uninterp spec fn node_hex(n: &MKTreeNode) -> Seq<char>;
/// CertificateMessage::match_message: the certificate's signed message is the digest of this protocol message
pub uninterp spec fn certificate_signs(c: &CertificateMessage, parts: Map<ProtocolMessagePartKey, Seq<char>>) -> bool;
impl Clone for ProtocolMessage { #[verifier::external_body] fn clone(&self) -> (r: Self) ensures r == *self { unimplemented!() } }
impl ProtocolMessage {
    #[verifier::external_body]
    pub fn set_message_part(&mut self, key: ProtocolMessagePartKey, value: String) -> (r: Option<String>)
        ensures message_parts(final(self)) == message_parts(old(self)).insert(key, value@)
    { unimplemented!() }
}
impl MKTreeNode { #[verifier::external_body] pub fn to_hex(&self) -> (r: String) ensures r@ == node_hex(self) { unimplemented!() } }
impl CertificateMessage {
    #[verifier::external_body]
    pub fn match_message(&self, m: &ProtocolMessage) -> (r: bool) ensures r == certificate_signs(self, message_parts(m)) { unimplemented!() }
}
#[verifier::external_body]
fn anyhow_error() -> StdError { unimplemented!() }

pub struct InternalArtifactProver {}
impl InternalArtifactProver {
    //@extract file=mithril-client/src/cardano_database_client/proving.rs fn=check_merkle_root_is_signed_by_certificate within="impl InternalArtifactProver"
    //@ rewrite /MithrilResult<\(\)>/ => /Result<(), StdError>/
    //@ rewrite /(?s)Err\(anyhow!\(.*?\)\)/ => /Err(anyhow_error())/
    //@ spec ensures ret is Ok ==> certificate_signs(certificate, message_parts(&certificate.protocol_message).insert(ProtocolMessagePartKey::CardanoDatabaseMerkleRoot, node_hex(merkle_root)))
    //@end

    #[verifier::external_body]
    fn immutable_dir(db_dir: &DirPath) -> PathBuf { unimplemented!() }
    /// list_missing_immutable_files (three `Path::exists` per number): empty exactly when every file of the range is present
    #[verifier::external_body]
    fn list_missing_immutable_files(database_dir: &DirPath, range: &NumberRange) -> (r: Vec<ImmutableFileName>)
        ensures (r@.len() == 0) == all_present(database_dir, range)
    { unimplemented!() }

    //@extract file=mithril-client/src/cardano_database_client/proving.rs fn=verify_cardano_database within="impl InternalArtifactProver"
    //@ rewrite /pub async fn/ => /fn/
    //@ rewrite /\.await/ => //
    //@ rewrite /database_dir: &Path/ => /database_dir: &DirPath/
    //@ rewrite /\s*\.map_err\(CardanoDatabaseVerificationError::\w+\)/ => //
    //@ rewrite /vec!\[\]/ => /Vec::new()/
    //@ rewrite /CardanoImmutableDigester::new\(None, self\.logger\.clone\(\)\)/ => /CardanoImmutableDigester::new()/
    //@ rewrite /(?s)computed_digest_entries\s*\.values\(\)\s*\.map\(MKTreeNode::from\)\s*\.collect::<Vec<_>>\(\)/ => /nodes_of(&computed_digest_entries)/
    //@ rewrite /(?s)if let Ok\(ref merkle_proof\) = proof_result\s*&&(.*?)\{/ => /if proof_result.is_ok() &&\1{ let merkle_proof = ok_ref(&proof_result);/
    //@ rewrite? /(\w+)\.(tampered_files|non_verifiable_files)\.is_empty\(\)/ => /names_is_empty(&\1.\2)/
    //@ rewrite /(?<![\.\w])(\w+)\.is_empty\(\)/ => /names_is_empty(&\1)/
    //@ rewrite? /(?s)warn!\(.*?\);[ \t]*\n/ => //
    //@ spec ensures ret is Ok ==> ({
    //@ spec     let range = range_of(immutable_file_range, cardano_database_snapshot.beacon.immutable_file_number);
    //@ spec     &&& range is Some
    //@ spec     // each immutable file of the requested range is present, unless the caller explicitly allowed gaps
    //@ spec     &&& !allow_missing ==> all_present(database_dir, &range->Some_0)
    //@ spec     // the content of each file hashes to the digest the verified list assigns to THAT VERY file name
    //@ spec     &&& all_bound(&verified_digests.digests, &computed_for(database_dir, &range->Some_0))
    //@ spec     // and the returned proof is the verified tree's proof for exactly those digests, and it verifies
    //@ spec     &&& proof_for(&verified_digests.merkle_tree, digest_nodes(&computed_for(database_dir, &range->Some_0)), &ret->Ok_0) && proof_valid(&ret->Ok_0)
    //@ spec }),
    //@end
}

} // verus!
fn main() {}

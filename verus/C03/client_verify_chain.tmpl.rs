// C03 — client side: mithril-client MithrilCertificateVerifier::verify_chain and its helpers (certificate_client/verify.rs), on
// the working tree's text, DEFAULT features (the optional verifier cache is behind the `unstable` feature and is stripped:
// fetch_cached_previous_hash is the `not(unstable)` alternative, which never answers from a cache).
// Every certificate on the walk is verified by the common verifier (unit verifier), and the walk only ends at a certificate
// that verifier accepted as a chain root.
use vstd::prelude::*;
verus! {

#[derive(Clone, Copy, PartialEq, Eq)] pub struct Epoch(pub u64);
impl vstd::std_specs::cmp::PartialEqSpecImpl for Epoch {
    open spec fn obeys_eq_spec() -> bool { true }
    open spec fn eq_spec(&self, other: &Epoch) -> bool { self.0 == other.0 }
}
pub struct Certificate { pub hash: String, pub previous_hash: String, pub epoch: Epoch }
pub struct MithrilCertificate { pub hash: String, pub epoch: Epoch }
pub struct MithrilError {}

/// outcomes of the common verifier's verify_certificate (its contract: unit verifier): accepted as a chain root
/// (Ok(None): genesis verified under the configured key), or accepted with this previous certificate (Ok(Some(p)): the
/// per-link rule holds and p is the retriever's answer for previous_hash)
pub uninterp spec fn accepted_as_root(c: &Certificate) -> bool;
pub uninterp spec fn accepted_link(c: &Certificate, p: &Certificate) -> bool;
pub uninterp spec fn downloaded_for(hash: Seq<char>, c: &Certificate) -> bool;
pub uninterp spec fn converted(m: &MithrilCertificate, c: &Certificate) -> bool;   // TryFrom<CertificateMessage> for Certificate

#[verifier::external_body] pub struct InternalVerifier { _p: core::marker::PhantomData<u8> }
#[verifier::external_body] pub struct Retriever { _p: core::marker::PhantomData<u8> }
impl InternalVerifier {
    #[verifier::external_body]
    pub fn verify_certificate(&self, c: &Certificate) -> (r: Result<Option<Certificate>, MithrilError>)
        ensures r is Ok && r->Ok_0 is None ==> accepted_as_root(c), r is Ok && r->Ok_0 is Some ==> accepted_link(c, &r->Ok_0->Some_0)
    { unimplemented!() }
}
impl Retriever {
    #[verifier::external_body]
    pub fn get_certificate_details(&self, hash: &String) -> (r: Result<Certificate, MithrilError>)
        ensures r is Ok ==> downloaded_for(hash@, &r->Ok_0)
    { unimplemented!() }
}
impl MithrilCertificate {
    #[verifier::external_body]
    pub fn clone(&self) -> (r: MithrilCertificate) ensures r == *self { unimplemented!() }
    #[verifier::external_body]
    pub fn try_into(self) -> (r: Result<Certificate, MithrilError>) ensures r is Ok ==> converted(&self, &r->Ok_0) { unimplemented!() }
}

pub enum CertificateToVerify { Downloaded { certificate: Box<Certificate> }, ToDownload { hash: String } }
#[verifier::external_body]
fn into_to_verify(c: Option<Certificate>) -> (r: Option<CertificateToVerify>)
    ensures (r is Some) == (c is Some), c is Some ==> r->Some_0 == (CertificateToVerify::Downloaded { certificate: Box::new(c->Some_0) })
{ unimplemented!() }
#[verifier::external_body]
fn epoch_differs(c: &Option<Certificate>, e: Epoch) -> (r: bool) ensures r == (c is Some && c->Some_0.epoch.0 != e.0) { unimplemented!() }

impl CertificateToVerify {
    //@extract file=mithril-client/src/certificate_client/verify.rs fn=hash within="impl CertificateToVerify"
    //@ spec ensures ret@ == (match self { CertificateToVerify::Downloaded { certificate } => certificate.hash@, CertificateToVerify::ToDownload { hash } => hash@ })
    //@end
}

pub struct MithrilCertificateVerifier { pub retriever: Retriever, pub internal_verifier: InternalVerifier }

/// some certificate was accepted by the common verifier as a chain root during this call
pub open spec fn reached_root() -> bool { exists|g: Certificate| accepted_as_root(&g) }
/// the common verifier accepted c (as a root, or linked to some previous certificate)
pub open spec fn verified(c: &Certificate) -> bool { accepted_as_root(c) || exists|p: Certificate| accepted_link(c, &p) }
/// the certificate handed to verify_chain was itself verified
pub open spec fn first_verified(m: &MithrilCertificate) -> bool { exists|c0: Certificate| converted(m, &c0) && verified(&c0) }

impl MithrilCertificateVerifier {
    //@extract file=mithril-client/src/certificate_client/verify.rs fn=fetch_cached_previous_hash within="impl MithrilCertificateVerifier" nth=1
    //@ rewrite /async fn/ => /fn/
    //@ rewrite /MithrilResult<Option<String>>/ => /Result<Option<String>, MithrilError>/
    //@ spec ensures ret is Ok && ret->Ok_0 is None
    //@end

    //@extract file=mithril-client/src/certificate_client/verify.rs fn=verify_without_cache within="impl MithrilCertificateVerifier"
    //@ strip_cfg unstable
    //@ rewrite /async fn/ => /fn/
    //@ rewrite /\.await/ => //
    //@ rewrite /MithrilResult<Option<Certificate>>/ => /Result<Option<Certificate>, MithrilError>/
    //@ rewrite /(?s)trace!\([^;]*;[^;]*\);/ => //
    //@ rewrite /(?s)self\.feedback_sender\s*\.send_event\(.*?\)\s*;/ => //
    //@ spec ensures ret is Ok && ret->Ok_0 is None ==> accepted_as_root(&certificate),
    //@ spec         ret is Ok && ret->Ok_0 is Some ==> accepted_link(&certificate, &ret->Ok_0->Some_0),
    //@ spec         ret is Ok ==> verified(&certificate),
    //@end

    //@extract file=mithril-client/src/certificate_client/verify.rs fn=verify_with_cache_enabled within="impl MithrilCertificateVerifier"
    //@ rewrite /async fn/ => /fn/
    //@ rewrite /\.await/ => //
    //@ rewrite /MithrilResult<Option<CertificateToVerify>>/ => /Result<Option<CertificateToVerify>, MithrilError>/
    //@ rewrite /(?s)trace!\([^;]*;[^;]*\);/ => //
    //@ rewrite /(?s)self\.feedback_sender\s*\.send_event\(.*?\)\s*;/ => //
    //@ rewrite /previous_certificate\.map\(Into::into\)/ => /into_to_verify(previous_certificate)/
    //@ spec ensures
    //@ spec     // default build: never answered from a cache - the certificate (downloaded for the requested hash if necessary) was
    //@ spec     // verified by the common verifier; None only when it was accepted as a chain root
    //@ spec     ret is Ok && ret->Ok_0 is None ==> reached_root(),
    //@ spec     ret is Ok && ret->Ok_0 is Some ==> ret->Ok_0->Some_0 is Downloaded,
    //@end

    //@extract file=mithril-client/src/certificate_client/verify.rs fn=verify_chain within="impl CertificateVerifier for MithrilCertificateVerifier"
    //@ attr #[verifier::exec_allows_no_decreases_clause]
    //@ rewrite /async fn/ => /fn/
    //@ rewrite /\.await/ => //
    //@ rewrite /MithrilResult<\(\)>/ => /Result<(), MithrilError>/
    //@ rewrite /let certificate_chain_validation_id = MithrilEvent::new_certificate_chain_validation_id\(\);/ => /let certificate_chain_validation_id = String::new();/
    //@ rewrite /(?s)self\.feedback_sender\s*\.send_event\(.*?\)\s*;/ => //
    //@ rewrite /(?s)current_certificate\.as_ref\(\)\.is_some_and\(\|c\| c\.epoch != start_epoch\)/ => /epoch_differs(&current_certificate, start_epoch)/
    //@ rewrite /current_certificate\.map\(Into::into\)/ => /into_to_verify(current_certificate)/
    //@ spec ensures ret is Ok ==> reached_root() && first_verified(certificate)
    //@ loop 0 invariant current_certificate is None ==> reached_root(),
    //@ loop 0           first_verified(certificate) || (current_certificate is Some && converted(certificate, &current_certificate->Some_0)),
    //@ loop 0 ensures first_verified(certificate),
    //@ loop 1 invariant current_certificate is None ==> reached_root(),
    //@ loop 1 ensures reached_root(),
    //@end
}

} // verus!
fn main() {}

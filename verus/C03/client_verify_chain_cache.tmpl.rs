// C03 — client side WITH the certificate-verifier cache: mithril-client MithrilCertificateVerifier (certificate_client/verify.rs)
// as compiled with the cargo feature `unstable` (which the workspace build and mithril-client-cli enable), on the working
// tree's text. The cache maps the hash of a certificate that was verified earlier to its previous hash; a cache hit skips the
// verification of that certificate.
// Obligation taken from the property ("for every way the provider can answer"): a certificate handed to
// verify_with_cache_enabled is accepted only if it is VOUCHED FOR: either the common verifier accepts it now, or its hash is
// in the cache AND - when its content has been downloaded and used to judge the certificate chained to it - that content
// hashes to this very hash. Without the last conjunct a provider can answer a cached hash with forged content announcing its
// own aggregate key (finding F-C03-2).
use vstd::prelude::*;
verus! {

#[derive(Clone, Copy, PartialEq, Eq)] pub struct Epoch(pub u64);
impl vstd::std_specs::cmp::PartialEqSpecImpl for Epoch {
    open spec fn obeys_eq_spec() -> bool { true }
    open spec fn eq_spec(&self, other: &Epoch) -> bool { self.0 == other.0 }
}
pub struct Certificate { pub hash: String, pub previous_hash: String, pub epoch: Epoch }
pub struct MithrilCertificate { pub hash: String, pub epoch: Epoch }
pub struct MithrilError {}
pub enum CertificateVerifierError { CertificateHashUnmatch }
#[verifier::external_body]
fn anyhow_error(e: CertificateVerifierError) -> MithrilError { unimplemented!() }

pub uninterp spec fn accepted_as_root(c: &Certificate) -> bool;
pub uninterp spec fn accepted_link(c: &Certificate, p: &Certificate) -> bool;
pub uninterp spec fn downloaded_for(hash: Seq<char>, c: &Certificate) -> bool;
pub uninterp spec fn converted(m: &MithrilCertificate, c: &Certificate) -> bool;
/// SHA-256 of the certificate's content (Certificate::try_compute_hash)
pub uninterp spec fn content_hash(c: &Certificate) -> Seq<char>;
pub uninterp spec fn is_genesis_kind(c: &Certificate) -> bool;
/// the common verifier's verify_certificate returned Ok for this certificate
pub uninterp spec fn accepted_some(c: &Certificate) -> bool;

#[verifier::external_body] pub struct InternalVerifier { _p: core::marker::PhantomData<u8> }
#[verifier::external_body] pub struct Retriever { _p: core::marker::PhantomData<u8> }
#[verifier::external_body] pub struct VerifierCache { _p: core::marker::PhantomData<u8> }
/// the cache holds (hash -> previous hash): a certificate with this hash was verified earlier
pub uninterp spec fn cached_previous(c: &VerifierCache, hash: Seq<char>) -> Option<Seq<char>>;
impl VerifierCache {
    #[verifier::external_body]
    pub fn get_previous_hash(&self, hash: &str) -> (r: Result<Option<String>, MithrilError>)
        ensures r is Ok ==> (r->Ok_0 is Some) == (cached_previous(self, hash@) is Some), r is Ok && r->Ok_0 is Some ==> r->Ok_0->Some_0@ == cached_previous(self, hash@)->Some_0
    { unimplemented!() }
    /// only a link of a certificate the common verifier has ACCEPTED may be stored (the cache's entries are trusted later)
    #[verifier::external_body]
    pub fn store_validated_certificate(&self, hash: &String, previous_hash: &String) -> (r: Result<(), MithrilError>)
        requires exists|c: Certificate| #[trigger] accepted_some(&c) && c.hash@ == hash@ && c.previous_hash@ == previous_hash@
    { unimplemented!() }
}
impl InternalVerifier {
    #[verifier::external_body]
    pub fn verify_certificate(&self, c: &Certificate) -> (r: Result<Option<Certificate>, MithrilError>)
        ensures r is Ok && r->Ok_0 is None ==> accepted_as_root(c), r is Ok && r->Ok_0 is Some ==> accepted_link(c, &r->Ok_0->Some_0), r is Ok ==> accepted_some(c)
    { unimplemented!() }
}
impl Retriever {
    #[verifier::external_body]
    pub fn get_certificate_details(&self, hash: &String) -> (r: Result<Certificate, MithrilError>)
        ensures r is Ok ==> downloaded_for(hash@, &r->Ok_0)
    { unimplemented!() }
}
impl Certificate {
    #[verifier::external_body]
    pub fn try_compute_hash(&self) -> (r: Result<String, MithrilError>) ensures r is Ok ==> r->Ok_0@ == content_hash(self) { unimplemented!() }
    #[verifier::external_body]
    pub fn is_genesis(&self) -> (r: bool) ensures r == is_genesis_kind(self) { unimplemented!() }
}

pub enum CertificateToVerify { Downloaded { certificate: Box<Certificate> }, ToDownload { hash: String } }
#[verifier::external_body]
fn into_to_verify(c: Option<Certificate>) -> (r: Option<CertificateToVerify>)
    ensures (r is Some) == (c is Some), c is Some ==> r->Some_0 == (CertificateToVerify::Downloaded { certificate: Box::new(c->Some_0) })
{ unimplemented!() }
/// `if let CertificateToVerify::Downloaded { certificate } = &x` as a let-chain head (outside Verus' subset): the borrowed certificate
#[verifier::external_body]
fn downloaded_ref(c: &CertificateToVerify) -> (r: &Certificate) requires c is Downloaded ensures *r == *c->Downloaded_certificate { unimplemented!() }
fn is_downloaded(c: &CertificateToVerify) -> (r: bool) ensures r == (c is Downloaded) {
    match c { CertificateToVerify::Downloaded { .. } => true, CertificateToVerify::ToDownload { .. } => false }
}

impl CertificateToVerify {
    //@extract file=mithril-client/src/certificate_client/verify.rs fn=hash within="impl CertificateToVerify"
    //@ spec ensures ret@ == (match self { CertificateToVerify::Downloaded { certificate } => certificate.hash@, CertificateToVerify::ToDownload { hash } => hash@ })
    //@end
}

pub struct MithrilCertificateVerifier { pub retriever: Retriever, pub internal_verifier: InternalVerifier, pub verifier_cache: Option<VerifierCache> }

pub open spec fn verified(c: &Certificate) -> bool { accepted_as_root(c) || exists|p: Certificate| accepted_link(c, &p) }
pub open spec fn in_cache(v: &MithrilCertificateVerifier, hash: Seq<char>) -> bool { v.verifier_cache is Some && cached_previous(&v.verifier_cache->Some_0, hash) is Some }
/// the certificate handed to the cache-enabled step is vouched for
pub open spec fn vouched(v: &MithrilCertificateVerifier, c: &CertificateToVerify) -> bool {
    match c {
        // downloaded content: verified now, or verified earlier under this hash AND the content hashes to this hash
        CertificateToVerify::Downloaded { certificate } => verified(certificate) || (in_cache(v, certificate.hash@) && content_hash(certificate) == certificate.hash@),
        // only a hash so far: verified earlier under this hash, or downloaded for this hash and verified now
        CertificateToVerify::ToDownload { hash } => in_cache(v, hash@) || exists|d: Certificate| downloaded_for(hash@, &d) && verified(&d),
    }
}

impl MithrilCertificateVerifier {
    //@extract file=mithril-client/src/certificate_client/verify.rs fn=fetch_cached_previous_hash within="impl MithrilCertificateVerifier" nth=0
    //@ with_feature unstable
    //@ rewrite /async fn/ => /fn/
    //@ rewrite /\.await/ => //
    //@ rewrite /MithrilResult<Option<String>>/ => /Result<Option<String>, MithrilError>/
    //@ spec ensures ret is Ok ==> (ret->Ok_0 is Some) == in_cache(self, hash@),
    //@ spec         ret is Ok && ret->Ok_0 is Some ==> ret->Ok_0->Some_0@ == cached_previous(&self.verifier_cache->Some_0, hash@)->Some_0,
    //@end

    //@extract file=mithril-client/src/certificate_client/verify.rs fn=verify_without_cache within="impl MithrilCertificateVerifier"
    //@ with_feature unstable
    //@ rewrite /async fn/ => /fn/
    //@ rewrite /\.await/ => //
    //@ rewrite /MithrilResult<Option<Certificate>>/ => /Result<Option<Certificate>, MithrilError>/
    //@ rewrite /(?s)trace!\([^;]*;[^;]*\);/ => //
    //@ rewrite /(?s)self\.feedback_sender\s*\.send_event\(.*?\)\s*;/ => //
    //@ rewrite /(?s)if let Some\(cache\) = self\.verifier_cache\.as_ref\(\)\s*&& !certificate\.is_genesis\(\)\s*\{/ => /if self.verifier_cache.is_some() && !certificate.is_genesis() { let cache = self.verifier_cache.as_ref().unwrap();/
    //@ spec ensures ret is Ok && ret->Ok_0 is None ==> accepted_as_root(&certificate),
    //@ spec         ret is Ok && ret->Ok_0 is Some ==> accepted_link(&certificate, &ret->Ok_0->Some_0),
    //@ spec         ret is Ok ==> verified(&certificate),
    //@end

    //@extract file=mithril-client/src/certificate_client/verify.rs fn=verify_with_cache_enabled within="impl MithrilCertificateVerifier"
    //@ rewrite /async fn/ => /fn/
    //@ rewrite /\.await/ => //
    //@ rewrite /MithrilResult<Option<CertificateToVerify>>/ => /Result<Option<CertificateToVerify>, MithrilError>/
    //@ rewrite /(?s)trace!\([^;]*;[^;]*\);/ => //
    //@ rewrite /(?s)self\.feedback_sender\s*\.send_event\(.*?\)\s*;/ => //
    //@ rewrite /previous_certificate\.map\(Into::into\)/ => /into_to_verify(previous_certificate)/
    //@ rewrite? /(?s)if let CertificateToVerify::Downloaded \{ certificate \} = &certificate\s*&& certificate\.try_compute_hash\(\)\? != certificate\.hash\s*\{/ => /if is_downloaded(&certificate) && downloaded_ref(&certificate).try_compute_hash()? != downloaded_ref(&certificate).hash {/
    //@ rewrite? /anyhow!\(/ => /anyhow_error(/
    //@ spec ensures ret is Ok ==> vouched(self, &certificate),
    //@ spec         ret is Ok && ret->Ok_0 is Some ==> (ret->Ok_0->Some_0 is ToDownload ==> in_cache(self, certificate_hash_view(&certificate))),
    //@end
}
pub open spec fn certificate_hash_view(c: &CertificateToVerify) -> Seq<char> {
    match c { CertificateToVerify::Downloaded { certificate } => certificate.hash@, CertificateToVerify::ToDownload { hash } => hash@ }
}

} // verus!
fn main() {}

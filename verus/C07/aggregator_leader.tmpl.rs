// C07 / C20 — aggregator side of a registration: the registration round and the leader's register_signer, on the working
// tree's text:
//   mithril-aggregator/src/services/signer_registration/leader.rs   open_registration_round, close_registration_round, register_signer
//   mithril-aggregator/src/runtime/runner.rs                        AggregatorRunner::open_signer_registration_round
// register_signer Ok(s) ==> a round is open, it is the round OF THE EPOCH the signer registers for, s is what the registration
// verifier (unit aggregator_verifier) returned for this signer against the ROUND's stake distribution, s was recorded and saved
// under the round's epoch, and no registration of that party existed for that epoch.
// The runner opens the round for the recording epoch (current epoch + 1) with the stake distribution stored under that epoch.
// tokio RwLock<Option<Round>> is viewed as the value it protects (one task at a time; interleavings are not covered).
use vstd::prelude::*;
verus! {

pub type PartyId = String;
#[derive(Clone, Copy, PartialEq, Eq, PartialOrd, Ord)] pub struct Epoch(pub u64);
impl vstd::std_specs::cmp::PartialEqSpecImpl for Epoch {
    open spec fn obeys_eq_spec() -> bool { true }
    open spec fn eq_spec(&self, other: &Epoch) -> bool { self.0 == other.0 }
}
impl vstd::std_specs::cmp::PartialOrdSpecImpl for Epoch {
    open spec fn obeys_partial_cmp_spec() -> bool { true }
    open spec fn partial_cmp_spec(&self, other: &Epoch) -> Option<core::cmp::Ordering> {
        if self.0 < other.0 { Some(core::cmp::Ordering::Less) } else if self.0 == other.0 { Some(core::cmp::Ordering::Equal) } else { Some(core::cmp::Ordering::Greater) }
    }
}
impl vstd::std_specs::cmp::OrdSpecImpl for Epoch {
    open spec fn obeys_cmp_spec() -> bool { true }
    open spec fn cmp_spec(&self, other: &Epoch) -> core::cmp::Ordering {
        if self.0 < other.0 { core::cmp::Ordering::Less } else if self.0 == other.0 { core::cmp::Ordering::Equal } else { core::cmp::Ordering::Greater }
    }
}
pub struct StdError {}
#[verifier::external_body] pub struct StakeDistribution { _p: core::marker::PhantomData<u8> }
#[verifier::external_body] pub struct Signer { _p: core::marker::PhantomData<u8> }
pub struct SignerWithStake { pub party_id: PartyId, pub rest: SignerRest }
#[verifier::external_body] pub struct SignerRest { _p: core::marker::PhantomData<u8> }
impl Clone for SignerWithStake { #[verifier::external_body] fn clone(&self) -> (r: Self) ensures r == *self { unimplemented!() } }
#[verifier::external_body]
fn string_clone(s: &String) -> (r: String) ensures r@ == s@ { s.clone() }
pub struct SignerRegistrationRound { pub epoch: Epoch, pub stake_distribution: StakeDistribution }
pub enum SignerRegistrationError { RegistrationRoundNotYetOpened, RegistrationRoundUnexpectedEpoch { current_round_epoch: Epoch, received_epoch: Epoch }, ExistingSigner(Box<SignerWithStake>), Other }

#[verifier::external_body] pub struct RegistrationVerifier { _p: core::marker::PhantomData<u8> }
#[verifier::external_body] pub struct SignerRecorder { _p: core::marker::PhantomData<u8> }
#[verifier::external_body] pub struct VerificationKeyStore { _p: core::marker::PhantomData<u8> }
/// the registration verifier accepted this signer against this stake distribution and returned `out` (its contract: unit aggregator_verifier)
pub uninterp spec fn registration_verified(v: &RegistrationVerifier, s: &Signer, d: &StakeDistribution, out: SignerWithStake) -> bool;
pub uninterp spec fn recorded(r: &SignerRecorder, id: Seq<char>) -> bool;
/// save_verification_key(epoch, signer) was called; `previous` is what the store held for that party and epoch before
pub uninterp spec fn saved(st: &VerificationKeyStore, e: Epoch, s: SignerWithStake, previous: Option<SignerWithStake>) -> bool;
impl RegistrationVerifier {
    #[verifier::external_body]
    pub fn verify(&self, s: &Signer, d: &StakeDistribution) -> (r: Result<SignerWithStake, SignerRegistrationError>) ensures r is Ok ==> registration_verified(self, s, d, r->Ok_0) { unimplemented!() }
}
impl SignerRecorder {
    #[verifier::external_body]
    pub fn record_signer_registration(&self, id: String) -> (r: Result<(), SignerRegistrationError>) ensures r is Ok ==> recorded(self, id@) { unimplemented!() }
}
impl VerificationKeyStore {
    #[verifier::external_body]
    pub fn save_verification_key(&self, e: Epoch, s: SignerWithStake) -> (r: Result<Option<SignerWithStake>, SignerRegistrationError>) ensures r is Ok ==> saved(self, e, s, r->Ok_0) { unimplemented!() }
}

pub struct MithrilSignerRegistrationLeader {
    pub current_round: Option<SignerRegistrationRound>,
    pub verification_key_store: VerificationKeyStore,
    pub signer_recorder: SignerRecorder,
    pub signer_registration_verifier: RegistrationVerifier,
}

impl MithrilSignerRegistrationLeader {
    //@extract file=mithril-aggregator/src/services/signer_registration/leader.rs fn=open_registration_round within="impl SignerRegistrationRoundOpener for MithrilSignerRegistrationLeader"
    //@ rewrite /async fn open_registration_round\(\s*&self,/ => /fn open_registration_round(&mut self,/
    //@ rewrite /StdResult<\(\)>/ => /Result<(), StdError>/
    //@ rewrite /let mut current_round = self\.current_round\.write\(\)\.await;\s*\*current_round = / => /self.current_round = /
    //@ spec ensures ret is Ok, final(self).current_round == Some(SignerRegistrationRound { epoch: registration_epoch, stake_distribution })
    //@end

    //@extract file=mithril-aggregator/src/services/signer_registration/leader.rs fn=close_registration_round within="impl SignerRegistrationRoundOpener for MithrilSignerRegistrationLeader"
    //@ rewrite /async fn close_registration_round\(&self\)/ => /fn close_registration_round(&mut self)/
    //@ rewrite /StdResult<\(\)>/ => /Result<(), StdError>/
    //@ rewrite /let mut current_round = self\.current_round\.write\(\)\.await;\s*\*current_round = / => /self.current_round = /
    //@ spec ensures ret is Ok, final(self).current_round is None
    //@end

    //@extract file=mithril-aggregator/src/services/signer_registration/leader.rs fn=register_signer within="impl SignerRegisterer for MithrilSignerRegistrationLeader"
    //@ rewrite /async fn/ => /fn/
    //@ rewrite /self\.current_round\.read\(\)\.await/ => /&self.current_round/
    //@ rewrite /\.await/ => //
    //@ rewrite /(?s)\s*\.map_err\(\|err\| \{.*?\}\)/ => //
    //@ rewrite /(?s)\s*\.with_context\(\|\| \{\s*format!\(.*?\)\s*\}\)/ => //
    //@ rewrite /\s*\.map_err\(SignerRegistrationError::Store\)/ => //
    //@ rewrite /signer_save\.party_id\.clone\(\)/ => /string_clone(&signer_save.party_id)/
    //@ spec ensures ret is Ok ==> ({
    //@ spec     let s = ret->Ok_0;
    //@ spec     // a round is open, and it is the round of the epoch the signer registers for
    //@ spec     &&& self.current_round is Some && self.current_round->Some_0.epoch == epoch
    //@ spec     // verified against the ROUND's stake distribution; recorded; saved under the round's epoch; not registered before
    //@ spec     &&& registration_verified(&self.signer_registration_verifier, signer, &self.current_round->Some_0.stake_distribution, s)
    //@ spec     &&& recorded(&self.signer_recorder, s.party_id@)
    //@ spec     &&& saved(&self.verification_key_store, epoch, s, None)
    //@ spec }),
    //@end
}

// ---- runner: which round is opened ----
pub struct TimePoint { pub epoch: Epoch }
#[verifier::external_body] pub struct StakeStore { _p: core::marker::PhantomData<u8> }
pub uninterp spec fn stakes_stored(s: &StakeStore, e: Epoch) -> Option<StakeDistribution>;
pub uninterp spec fn empty_distribution() -> StakeDistribution;
impl StakeStore {
    #[verifier::external_body]
    pub fn get_stakes(&self, e: Epoch) -> (r: Result<Option<StakeDistribution>, StdError>) ensures r is Ok ==> r->Ok_0 == stakes_stored(self, e) { unimplemented!() }
}
#[verifier::external_body]
fn unwrap_or_default_distribution(o: Option<StakeDistribution>) -> (r: StakeDistribution) ensures r == (if o is Some { o->Some_0 } else { empty_distribution() }) { unimplemented!() }
impl Epoch {
    /// proved on the real function by C20's Kani unit
    #[verifier::external_body]
    pub fn offset_to_recording_epoch(&self) -> (r: Epoch) requires self.0 < u64::MAX, ensures r.0 == self.0 + 1 { unimplemented!() }
}
pub struct Dependencies { pub stake_store: StakeStore, pub signer_registration_round_opener: MithrilSignerRegistrationLeader }
pub struct AggregatorRunner { pub dependencies: Dependencies }
impl AggregatorRunner {
    //@extract file=mithril-aggregator/src/runtime/runner.rs fn=open_signer_registration_round within="impl AggregatorRunnerTrait for AggregatorRunner"
    //@ rewrite /async fn open_signer_registration_round\(&self,/ => /fn open_signer_registration_round(&mut self,/
    //@ rewrite /\.await/ => //
    //@ rewrite /StdResult<\(\)>/ => /Result<(), StdError>/
    //@ rewrite? /(?s)(?:slog::)?(?:debug|info|warn|trace|error)!\(.*?\);[ \t]*\n/ => //
    //@ rewrite /(?s)(self\s*\.dependencies\s*\.stake_store\s*\.get_stakes\([^)]*\)\s*\?)\s*\.unwrap_or_default\(\)/ => /unwrap_or_default_distribution(\1)/
    //@ spec requires new_time_point.epoch.0 < u64::MAX
    //@ spec ensures ret is Ok ==> ({
    //@ spec     let round = final(self).dependencies.signer_registration_round_opener.current_round;
    //@ spec     let e = Epoch((new_time_point.epoch.0 + 1) as u64);
    //@ spec     // the round is opened for the recording epoch (current + 1) with the stake distribution stored under THAT epoch
    //@ spec     &&& round is Some && round->Some_0.epoch == e
    //@ spec     &&& round->Some_0.stake_distribution == (if stakes_stored(&old(self).dependencies.stake_store, e) is Some { stakes_stored(&old(self).dependencies.stake_store, e)->Some_0 } else { empty_distribution() })
    //@ spec }),
    //@end
}

} // verus!
fn main() {}

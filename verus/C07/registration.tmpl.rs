// C07 — Verus on the working tree's text of KeyRegWrapper::register / verify_kes_signature (mithril-common
// crypto_helper/cardano/key_certification.rs), OpCert::validate (opcert.rs) and mithril-stm KeyRegistration::register /
// RegistrationEntry::new. Cryptography (Ed25519, Sum6KES, BLS proof of possession), hashing/bech32 and the stake map are
// callee contracts.
use vstd::prelude::*;
verus! {

pub type Stake = u64;
pub type ProtocolPartyId = String;
#[derive(Clone, Copy)]
pub struct KesEvolutions(pub u64);
#[derive(Clone, Copy)]
pub struct KesPeriod(pub u64);
#[verifier::external_body] pub struct Sum6KesSig { _p: core::marker::PhantomData<u8> }
#[verifier::external_body] pub struct KesSigWrapper { _p: core::marker::PhantomData<u8> }     // ProtocolKey<Sum6KesSig>
#[verifier::external_body] pub struct KesPublicKey { _p: core::marker::PhantomData<u8> }
#[verifier::external_body] pub struct EdSignature { _p: core::marker::PhantomData<u8> }
#[verifier::external_body] pub struct EdVerificationKey { _p: core::marker::PhantomData<u8> }
#[verifier::external_body] pub struct VkPop { _p: core::marker::PhantomData<u8> }            // BLS key + proof of possession
#[verifier::external_body] pub struct VkPopWrapper { _p: core::marker::PhantomData<u8> }     // ProtocolKey<VkPop>
#[verifier::external_body] pub struct Vk { _p: core::marker::PhantomData<u8> }
#[verifier::external_body] pub struct KesVerifier { _p: core::marker::PhantomData<u8> }
#[verifier::external_body] pub struct StakeMap { _p: core::marker::PhantomData<u8> }
#[verifier::external_body] pub struct RegistrationEntry { _p: core::marker::PhantomData<u8> }
#[verifier::external_body] pub struct EntrySet { _p: core::marker::PhantomData<u8> }
pub struct KesVerifyErr {}
pub struct OpCertError {}
pub struct EdErr {}

pub enum ProtocolRegistrationErrorWrapper {
    PartyIdMissing, PartyIdNonExisting, OpCertMissing, OpCertInvalid, KesSignatureMissing,
    KesSignatureInvalid(KesEvolutions, KesPeriod, KesVerifyErr), KesPeriodMissing, PoolAddressEncoding, CoreRegister,
}

// ---- clause predicates of C07 -----------------------------------------------------------------------------------
pub uninterp spec fn ed_valid(vk: &EdVerificationKey, msg: Seq<u8>, sig: &EdSignature) -> bool;             // Ed25519, assumed sound
pub uninterp spec fn opcert_msg(kes_vk: &KesPublicKey, issue_number: u64, start: KesPeriod) -> Seq<u8>;      // the 48 signed bytes
pub uninterp spec fn kes_verified(v: &KesVerifier, msg: Seq<u8>, sig: &Sum6KesSig, opcert: &OpCert, e: KesEvolutions) -> bool;  // KesVerifierStandard::verify (unit kes_window)
pub uninterp spec fn pool_id_of(cold_vk: &EdVerificationKey) -> Option<Seq<char>>;                           // bech32(blake2b-224(cold key)): a function of the cold key only
pub uninterp spec fn stake_of(m: &StakeMap, id: Seq<char>) -> Option<Stake>;
pub uninterp spec fn vk_bytes(k: &VkPopWrapper) -> Seq<u8>;
pub uninterp spec fn kes_inner(w: KesSigWrapper) -> Sum6KesSig;
pub uninterp spec fn pop_inner(w: VkPopWrapper) -> VkPop;
pub uninterp spec fn pop_valid(k: &VkPop) -> bool;                                                          // BLS proof of possession, assumed sound
pub uninterp spec fn pop_vk(k: &VkPop) -> Vk;
pub uninterp spec fn entry(vk: Vk, stake: Stake) -> RegistrationEntry;
pub uninterp spec fn key_registered(s: &EntrySet, vk: Vk) -> bool;
pub uninterp spec fn with_entry(s: &EntrySet, e: RegistrationEntry) -> EntrySet;

pub struct OpCertWithoutColdVerificationKey { pub kes_vk: KesPublicKey, pub issue_number: u64, pub start_kes_period: KesPeriod, pub cert_sig: EdSignature }
pub struct OpCert { pub opcert_without_vk: OpCertWithoutColdVerificationKey, pub cold_vk: EdVerificationKey }
pub type ProtocolOpCert = OpCert;

/// the operational certificate is signed by the pool's cold key over (KES key, issue number, start KES period)
pub open spec fn opcert_valid(o: &OpCert) -> bool {
    ed_valid(&o.cold_vk, opcert_msg(&o.opcert_without_vk.kes_vk, o.opcert_without_vk.issue_number, o.opcert_without_vk.start_kes_period), &o.opcert_without_vk.cert_sig)
}

impl EdVerificationKey {
    #[verifier::external_body]
    pub fn verify(&self, msg: &[u8; 48], sig: &EdSignature) -> (r: Result<(), EdErr>) ensures r is Ok ==> ed_valid(self, msg@, sig) { unimplemented!() }
}

impl OpCert {
    /// contract of the byte layout helper (array slicing / copy_from_slice, not in Verus' subset): 32 key bytes,
    /// issue number BE, start period BE
    #[verifier::external_body]
    pub fn compute_message_to_sign(kes_vk: &KesPublicKey, issue_number: u64, start_kes_period: KesPeriod) -> (r: [u8; 48])
        ensures r@ == opcert_msg(kes_vk, issue_number, start_kes_period)
    { unimplemented!() }

    //@extract file=mithril-common/src/crypto_helper/cardano/opcert.rs fn=validate within="impl OpCert"
    //@ spec ensures ret is Ok ==> opcert_valid(self)
    //@end

    //@extract file=mithril-common/src/crypto_helper/cardano/opcert.rs fn=get_start_kes_period within="impl OpCert"
    //@ spec ensures ret == self.opcert_without_vk.start_kes_period
    //@end

    /// blake2b-224 + bech32 of the cold key (hash / encoding libraries: contract)
    #[verifier::external_body]
    pub fn compute_protocol_party_id(&self) -> (r: Result<ProtocolPartyId, OpCertError>)
        ensures r is Ok ==> pool_id_of(&self.cold_vk) == Some(r->Ok_0@)
    { unimplemented!() }
}

impl KesVerifier {
    #[verifier::external_body]
    pub fn verify(&self, message: &[u8], signature: &Sum6KesSig, operational_certificate: &OpCert, kes_evolutions: KesEvolutions) -> (r: Result<(), KesVerifyErr>)
        ensures r is Ok ==> kes_verified(self, message@, signature, operational_certificate, kes_evolutions)
    { unimplemented!() }
}
impl KesSigWrapper {
    #[verifier::external_body]
    pub fn into_inner(self) -> (r: Sum6KesSig) ensures r == kes_inner(self) { unimplemented!() }
}
impl VkPopWrapper {
    #[verifier::external_body]
    pub fn to_bytes(&self) -> (r: Vec<u8>) ensures r@ == vk_bytes(self) { unimplemented!() }
    #[verifier::external_body]
    pub fn into(self) -> (r: VkPop) ensures r == pop_inner(self) { unimplemented!() }
}
impl StakeMap {
    #[verifier::external_body]
    pub fn get(&self, id: &ProtocolPartyId) -> (r: Option<&Stake>)
        ensures (r is Some) == (stake_of(self, id@) is Some), r is Some ==> *r->Some_0 == stake_of(self, id@)->Some_0
    { unimplemented!() }
}

// ---- mithril-stm side: KeyRegistration ------------------------------------------------------------------------------
pub struct KeyRegistration { pub entries: EntrySet }
impl KeyRegistration {
    /// contract of mithril-stm KeyRegistration::register = RegistrationEntry::new (proof of possession) + register_by_entry
    /// (duplicate key rejected): see unit stm_registration
    #[verifier::external_body]
    pub fn register(&mut self, stake: Stake, vk_pop: &VkPop) -> (r: Result<(), ProtocolRegistrationErrorWrapper>)
        ensures r is Ok ==> pop_valid(vk_pop) && !key_registered(&old(self).entries, pop_vk(vk_pop)) && final(self).entries == with_entry(&old(self).entries, entry(pop_vk(vk_pop), stake)),
                r is Err ==> final(self).entries == old(self).entries
    { unimplemented!() }
}

pub struct SignerRegistrationParameters {
    pub party_id: Option<ProtocolPartyId>,
    pub operational_certificate: Option<ProtocolOpCert>,
    pub verification_key_for_concatenation: VkPopWrapper,
    pub verification_key_signature_for_concatenation: Option<KesSigWrapper>,
    pub kes_evolutions: Option<KesEvolutions>,
}

pub struct KeyRegWrapper { pub kes_verifier: KesVerifier, pub stm_key_reg: KeyRegistration, pub stake_distribution: StakeMap }

/// C07: what an accepted registration implies (default build: signer certification cannot be skipped)
pub open spec fn registration_ok(pre: &KeyRegWrapper, post: &KeyRegWrapper, p: &SignerRegistrationParameters, id: Seq<char>) -> bool {
    &&& p.operational_certificate is Some
    &&& p.kes_evolutions is Some
    &&& p.verification_key_signature_for_concatenation is Some
    // the verification key is signed by the KES key named in THIS operational certificate, at the announced evolution
    &&& kes_verified(&pre.kes_verifier, vk_bytes(&p.verification_key_for_concatenation), &kes_inner(p.verification_key_signature_for_concatenation->Some_0),
                     &p.operational_certificate->Some_0, p.kes_evolutions->Some_0)
    // the party id is the pool id derived from the cold key of that certificate - never a claimed one
    &&& pool_id_of(&(p.operational_certificate->Some_0).cold_vk) == Some(id)
    // it is present in the stake distribution of the round, and the stake recorded is the distribution's value
    &&& stake_of(&pre.stake_distribution, id) is Some
    &&& pop_valid(&pop_inner(p.verification_key_for_concatenation))
    &&& !key_registered(&pre.stm_key_reg.entries, pop_vk(&pop_inner(p.verification_key_for_concatenation)))
    &&& post.stm_key_reg.entries == with_entry(&pre.stm_key_reg.entries, entry(pop_vk(&pop_inner(p.verification_key_for_concatenation)), stake_of(&pre.stake_distribution, id)->Some_0))
}

impl KeyRegWrapper {
    //@extract file=mithril-common/src/crypto_helper/cardano/key_certification.rs fn=verify_kes_signature within="impl KeyRegWrapper"
    //@ rewrite /\.map_err\(\|e\| \{/ => /.map_err(|e: KesVerifyErr| -> (r: ProtocolRegistrationErrorWrapper) {/
    //@ spec ensures ret is Ok ==> kes_sig is Some && kes_verified(&self.kes_verifier, message@, &kes_sig->Some_0, opcert, kes_evolutions)
    //@end

    //@extract file=mithril-common/src/crypto_helper/cardano/key_certification.rs fn=register within="impl KeyRegWrapper"
    //@ rewrite /StdResult<ProtocolPartyId>/ => /Result<ProtocolPartyId, ProtocolRegistrationErrorWrapper>/
    //@ rewrite /\s*\.with_context\(\|\| "[^"]*"\)/ => //
    //@ rewrite /\.map\(\|s\| s\.into_inner\(\)\)/ => /.map(|s: KesSigWrapper| -> (r: Sum6KesSig) ensures r == kes_inner(s) { s.into_inner() })/
    //@ rewrite /\.map_err\(\|_\| ProtocolRegistrationErrorWrapper::PoolAddressEncoding\)/ => /.map_err(|_e: OpCertError| -> (r: ProtocolRegistrationErrorWrapper) { ProtocolRegistrationErrorWrapper::PoolAddressEncoding })/
    //@ rewrite /cfg!\(not\(feature = "allow_skip_signer_certification"\)\)/ => /true/
    //@ rewrite? /if let Some\(&stake\) = ([^{]*)\{/ => /if let Some(verif_stake_ref) = \1{ let stake = *verif_stake_ref;/
    //@ rewrite /Err\(anyhow!\(\s*(ProtocolRegistrationErrorWrapper::\w+)\s*\)\)/ => /Err(\1)/
    //@ spec ensures ret is Ok ==> registration_ok(old(self), final(self), &parameters, ret->Ok_0@),
    //@ spec         ret is Err ==> final(self).stm_key_reg.entries == old(self).stm_key_reg.entries,
    //@ spec         final(self).stake_distribution == old(self).stake_distribution,
    //@end
}

} // verus!
fn main() {}

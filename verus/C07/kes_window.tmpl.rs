// C07 — KES evolution window of KesVerifierStandard::verify, on the working tree's text.
use vstd::prelude::*;
verus! {

#[derive(Clone, Copy)]
pub struct KesEvolutions(pub u64);
#[derive(Clone, Copy)]
pub struct KesPeriod(pub u64);
#[verifier::external_body] pub struct Sum6KesSig { _p: core::marker::PhantomData<u8> }
#[verifier::external_body] pub struct KesPublicKey { _p: core::marker::PhantomData<u8> }
#[verifier::external_body] pub struct OpCert { _p: core::marker::PhantomData<u8> }
pub struct KesError {}
pub struct RegError {}

pub enum KesVerifyError { OpCertInvalid, InvalidKesEvolutions(KesEvolutions), SignatureInvalid(KesEvolutions, KesPeriod) }

pub uninterp spec fn opcert_valid(o: &OpCert) -> bool;                 // signed by the pool's cold key (c07 OpCert::validate)
pub uninterp spec fn kes_vk(o: &OpCert) -> KesPublicKey;
pub uninterp spec fn kes_sig_valid(s: &Sum6KesSig, period: u32, pk: KesPublicKey, m: Seq<u8>) -> bool;   // Sum6KES, assumed sound

impl KesEvolutions {
    // Deref<Target = u64>: the real code calls u64::saturating_sub / saturating_add through Deref
    #[verifier::external_body]
    pub fn saturating_sub(self, x: u64) -> (r: u64) ensures r == (if self.0 >= x { (self.0 - x) as u64 } else { 0 }) { self.0.saturating_sub(x) }
    #[verifier::external_body]
    pub fn saturating_add(self, x: u64) -> (r: u64) ensures r == (if self.0 + x <= u64::MAX { (self.0 + x) as u64 } else { u64::MAX }) { self.0.saturating_add(x) }
}

impl OpCert {
    #[verifier::external_body]
    pub fn validate(&self) -> (r: Result<(), RegError>) ensures r is Ok ==> opcert_valid(self) { unimplemented!() }
    #[verifier::external_body]
    pub fn get_kes_verification_key(&self) -> (r: KesPublicKey) ensures r == kes_vk(self) { unimplemented!() }
    #[verifier::external_body]
    pub fn get_start_kes_period(&self) -> KesPeriod { unimplemented!() }
}
impl Sum6KesSig {
    #[verifier::external_body]
    pub fn verify(&self, period: u32, pk: &KesPublicKey, m: &[u8]) -> (r: Result<(), KesError>)
        ensures r is Ok ==> kes_sig_valid(self, period, *pk, m@)
    { unimplemented!() }
}

pub assume_specification<T: std::cmp::Ord>[std::cmp::max](a: T, b: T) -> (r: T);
pub assume_specification<T: std::cmp::Ord>[std::cmp::min](a: T, b: T) -> (r: T);
#[verifier::external_body]
fn max_u64(a: u64, b: u64) -> (r: u64) ensures r == (if a >= b { a } else { b }) { std::cmp::max(a, b) }
#[verifier::external_body]
fn min_u64(a: u64, b: u64) -> (r: u64) ensures r == (if a <= b { a } else { b }) { std::cmp::min(a, b) }

/// the evolution t lies within one KES period of the announced evolution e (and within the key's 0..=64 life)
pub open spec fn in_window(t: u32, e: u64) -> bool { t as int + 1 >= e as int && t as int <= e as int + 1 && t <= 64 }

pub struct KesVerifierStandard {}

impl KesVerifierStandard {
    //@extract file=mithril-common/src/crypto_helper/cardano/kes/verifier_standard.rs fn=verify within="impl KesVerifier for KesVerifierStandard"
    //@ rewrite /StdResult<\(\)>/ => /Result<(), KesVerifyError>/
    //@ rewrite /\.map_err\(\|_\| KesVerifyError::OpCertInvalid\)/ => /.map_err(|_e: RegError| -> (r: KesVerifyError) { KesVerifyError::OpCertInvalid })/
    //@ rewrite /\.map_err\(\|_\| KesVerifyError::InvalidKesEvolutions\(kes_evolutions\)\)/ => /.map_err(|_e: core::num::TryFromIntError| -> (r: KesVerifyError) { KesVerifyError::InvalidKesEvolutions(kes_evolutions) })/
    //@ rewrite /(\w+)\.\.=(\w+)/ => /\1..(\2 + 1)/
    //@ rewrite? /std::cmp::max\(/ => /max_u64(/
    //@ rewrite? /std::cmp::min\(/ => /min_u64(/
    //@ rewrite /\)\s*\.into\(\)\)/ => /))/
    //@ spec ensures ret is Ok ==> opcert_valid(operational_certificate) && exists|t: u32| in_window(t, kes_evolutions.0) && #[trigger] kes_sig_valid(signature, t, kes_vk(operational_certificate), message@)
    //@ loop 0 invariant opcert_valid(operational_certificate), kes_evolutions_try_min as int + 1 >= kes_evolutions.0, kes_evolutions_try_max <= 64, kes_evolutions_try_max as int <= kes_evolutions.0 + 1,
    //@end
}

} // verus!
fn main() {}

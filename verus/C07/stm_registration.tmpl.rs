// C07 — mithril-stm side of a registration: RegistrationEntry::new (proof of possession), KeyRegistration::register_by_entry
// (a key cannot be registered twice; nothing else changes), KeyRegistration::register; on the working tree's text.
use vstd::prelude::*;
verus! {

pub type Stake = u64;
#[verifier::external_body]
#[derive(Clone, Copy)]
pub struct VerificationKeyForConcatenation { _p: core::marker::PhantomData<u8> }
#[derive(Clone, Copy)]
pub struct VerificationKeyProofOfPossessionForConcatenation { pub vk: VerificationKeyForConcatenation, pub pop: u8 }
pub struct PopErr {}

pub uninterp spec fn pop_valid(k: &VerificationKeyProofOfPossessionForConcatenation) -> bool;      // BLS proof of possession (blst), assumed sound

impl VerificationKeyProofOfPossessionForConcatenation {
    #[verifier::external_body]
    pub fn verify_proof_of_possession(&self) -> (r: Result<(), PopErr>) ensures r is Ok ==> pop_valid(self) { unimplemented!() }
}

#[derive(Clone, Copy)]
pub struct RegistrationEntry(pub VerificationKeyForConcatenation, pub Stake);

pub enum RegisterError {
    EntryAlreadyRegistered(Box<RegistrationEntry>),
    ConcatenationKeyInvalid(Box<VerificationKeyForConcatenation>),
    Other,
}

impl RegistrationEntry {
    //@extract file=mithril-stm/src/protocol/key_registration/registration_entry.rs fn=new within="impl RegistrationEntry"
    //@ strip_cfg future_snark
    //@ rewrite /StmResult<Self>/ => /Result<Self, RegisterError>/
    //@ rewrite /\.map_err\(\|_\| \{/ => /.map_err(|_e: PopErr| -> (r: RegisterError) {/
    //@ spec ensures ret is Ok ==> pop_valid(&bls_verification_key_proof_of_possession) && ret->Ok_0.0 == bls_verification_key_proof_of_possession.vk && ret->Ok_0.1 == stake
    //@end

    //@extract file=mithril-stm/src/protocol/key_registration/registration_entry.rs fn=get_verification_key_for_concatenation within="impl RegistrationEntry"
    //@ spec ensures ret == self.0
    //@end

    //@extract file=mithril-stm/src/protocol/key_registration/registration_entry.rs fn=get_stake within="impl RegistrationEntry"
    //@ spec ensures ret == self.1
    //@end
}

// std HashSet<VerificationKey> / BTreeSet<RegistrationEntry> as mathematical sets (assumed contract on std)
#[verifier::external_body] pub struct KeySet { _p: core::marker::PhantomData<u8> }
#[verifier::external_body] pub struct EntrySet { _p: core::marker::PhantomData<u8> }
pub uninterp spec fn keys(s: &KeySet) -> Set<VerificationKeyForConcatenation>;
pub uninterp spec fn entries(s: &EntrySet) -> Set<RegistrationEntry>;
impl KeySet {
    #[verifier::external_body]
    pub fn contains(&self, k: &VerificationKeyForConcatenation) -> (r: bool) ensures r == keys(self).contains(*k) { unimplemented!() }
    #[verifier::external_body]
    pub fn insert(&mut self, k: VerificationKeyForConcatenation) -> (r: bool) ensures keys(final(self)) == keys(old(self)).insert(k), r == !keys(old(self)).contains(k) { unimplemented!() }
}
impl EntrySet {
    #[verifier::external_body]
    pub fn insert(&mut self, e: RegistrationEntry) -> (r: bool) ensures entries(final(self)) == entries(old(self)).insert(e), r == !entries(old(self)).contains(e) { unimplemented!() }
}

pub struct KeyRegistration {
    pub registration_entries: EntrySet,
    pub registered_keys_for_concatenation: KeySet,
}

impl KeyRegistration {
    //@extract file=mithril-stm/src/protocol/key_registration/register.rs fn=register_by_entry within="impl KeyRegistration"
    //@ strip_cfg future_snark
    //@ rewrite /StmResult<\(\)>/ => /Result<(), RegisterError>/
    //@ rewrite /return Err\((RegisterError::EntryAlreadyRegistered\(Box::new\(\*entry\)\))\.into\(\)\);/ => /return Err(\1);/
    //@ spec ensures
    //@ spec     // the key is not already registered ...
    //@ spec     ret is Ok ==> !keys(&old(self).registered_keys_for_concatenation).contains(entry.0),
    //@ spec     keys(&old(self).registered_keys_for_concatenation).contains(entry.0) ==> ret is Err,
    //@ spec     // ... and on success exactly this entry / key is added, nothing else changes
    //@ spec     ret is Ok ==> keys(&final(self).registered_keys_for_concatenation) == keys(&old(self).registered_keys_for_concatenation).insert(entry.0)
    //@ spec               && entries(&final(self).registration_entries) == entries(&old(self).registration_entries).insert(*entry),
    //@ spec     ret is Err ==> keys(&final(self).registered_keys_for_concatenation) == keys(&old(self).registered_keys_for_concatenation)
    //@ spec               && entries(&final(self).registration_entries) == entries(&old(self).registration_entries),
    //@end

    //@extract file=mithril-stm/src/protocol/key_registration/register.rs fn=register within="impl KeyRegistration"
    //@ strip_cfg future_snark
    //@ rewrite /StmResult<\(\)>/ => /Result<(), RegisterError>/
    //@ spec ensures
    //@ spec     ret is Ok ==> pop_valid(vk_pop) && !keys(&old(self).registered_keys_for_concatenation).contains(vk_pop.vk)
    //@ spec               && entries(&final(self).registration_entries) == entries(&old(self).registration_entries).insert(RegistrationEntry(vk_pop.vk, stake))
    //@ spec               && keys(&final(self).registered_keys_for_concatenation) == keys(&old(self).registered_keys_for_concatenation).insert(vk_pop.vk),
    //@ spec     ret is Err ==> entries(&final(self).registration_entries) == entries(&old(self).registration_entries),
    //@end
}

} // verus!
fn main() {}

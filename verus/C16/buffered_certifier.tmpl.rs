// C16 (the buffered path) — Verus on the working tree's text of the aggregator's BufferedCertifierService::register_single_signature
// (mithril-aggregator/src/services/certifier/buffered_certifier.rs): a submission is either registered by the decorated
// certifier (whose own contract - C14 unit certifier_service - is: open message exists, not certified / expired, signature
// accepted by the multi-signer, then stored), or - ONLY when the decorated certifier found no open message AND the submission
// was authenticated beforehand - put into the buffer; every other error is passed on and nothing is stored.
use vstd::prelude::*;
verus! {

#[verifier::external_body] pub struct SignedEntityType { _p: core::marker::PhantomData<u8> }
#[verifier::external_body] #[derive(Clone, Copy)] pub struct SignedEntityTypeDiscriminants { _p: core::marker::PhantomData<u8> }
#[verifier::external_body] pub struct SingleSignature { _p: core::marker::PhantomData<u8> }
pub enum SignatureRegistrationStatus { Registered, Buffered }
/// anyhow::Error downcast to CertifierServiceError, or anything else
pub enum CertifierServiceError { NotFound(u8), AlreadyCertified(u8), Expired(u8), InvalidSingleSignature(u8), Other }
pub type StdError = CertifierServiceError;

pub uninterp spec fn is_authenticated_spec(s: &SingleSignature) -> bool;
pub uninterp spec fn discriminant_of(t: &SignedEntityType) -> SignedEntityTypeDiscriminants;
impl SingleSignature {
    #[verifier::external_body]
    pub fn is_authenticated(&self) -> (r: bool) ensures r == is_authenticated_spec(self) { unimplemented!() }
}
impl SignedEntityType {
    #[verifier::external_body]
    pub fn into(&self) -> (r: SignedEntityTypeDiscriminants) ensures r == discriminant_of(self) { unimplemented!() }
}
#[verifier::external_body] pub struct InnerCertifier { _p: core::marker::PhantomData<u8> }
#[verifier::external_body] pub struct BufferStore { _p: core::marker::PhantomData<u8> }
/// the decorated certifier's register_single_signature returned this for (type, signature) (its contract: C14)
pub uninterp spec fn inner_result(c: &InnerCertifier, t: &SignedEntityType, s: &SingleSignature) -> Result<SignatureRegistrationStatus, StdError>;
/// buffer_signature(discriminant, signature) was called
pub uninterp spec fn buffered(b: &BufferStore, d: SignedEntityTypeDiscriminants, s: &SingleSignature) -> bool;
impl InnerCertifier {
    #[verifier::external_body]
    pub fn register_single_signature(&self, t: &SignedEntityType, s: &SingleSignature) -> (r: Result<SignatureRegistrationStatus, StdError>)
        ensures r == inner_result(self, t, s)
    { unimplemented!() }
}
impl BufferStore {
    #[verifier::external_body]
    pub fn buffer_signature(&self, d: SignedEntityTypeDiscriminants, s: &SingleSignature) -> (r: Result<(), StdError>) ensures r is Ok ==> buffered(self, d, s) { unimplemented!() }
}
/// `error.downcast_ref::<CertifierServiceError>()`
fn downcast_ref(e: &StdError) -> (r: Option<&CertifierServiceError>) ensures r == Some(e) { Some(e) }

pub struct BufferedCertifierService { pub certifier_service: InnerCertifier, pub buffered_single_signature_store: BufferStore }

impl BufferedCertifierService {
    //@extract file=mithril-aggregator/src/services/certifier/buffered_certifier.rs fn=register_single_signature within="impl CertifierService for BufferedCertifierService"
    //@ rewrite /async fn/ => /fn/
    //@ rewrite /\.await/ => //
    //@ rewrite /StdResult<SignatureRegistrationStatus>/ => /Result<SignatureRegistrationStatus, StdError>/
    //@ rewrite /error\.downcast_ref::<CertifierServiceError>\(\)/ => /downcast_ref(&error)/
    //@ rewrite? /(?s)(?:slog::)?(?:debug|info|warn|trace|error)!\(.*?\);[ \t]*\n/ => //
    //@ spec ensures
    //@ spec     // Buffered ONLY when the decorated certifier found no open message and the submission was authenticated; then it is in the buffer
    //@ spec     ret is Ok && ret->Ok_0 is Buffered && !(inner_result(&self.certifier_service, signed_entity_type, signature) is Ok) ==>
    //@ spec         inner_result(&self.certifier_service, signed_entity_type, signature) is Err && inner_result(&self.certifier_service, signed_entity_type, signature)->Err_0 is NotFound
    //@ spec         && is_authenticated_spec(signature) && buffered(&self.buffered_single_signature_store, discriminant_of(signed_entity_type), signature),
    //@ spec     // otherwise the decorated certifier's answer is passed on unchanged (registered by it, or its error)
    //@ spec     inner_result(&self.certifier_service, signed_entity_type, signature) is Ok ==> ret == inner_result(&self.certifier_service, signed_entity_type, signature),
    //@ spec     ret is Ok ==> inner_result(&self.certifier_service, signed_entity_type, signature) is Ok || ret->Ok_0 is Buffered,
    //@ spec     !is_authenticated_spec(signature) && inner_result(&self.certifier_service, signed_entity_type, signature) is Err ==> ret is Err,
    //@end
}

} // verus!
fn main() {}

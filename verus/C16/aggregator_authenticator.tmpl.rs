// C16 / C14 — aggregator side of a submitted single signature, on the working tree's text:
//   mithril-aggregator/src/tools/single_signature_authenticator.rs   SingleSignatureAuthenticator::authenticate
//   mithril-aggregator/src/multi_signer.rs                           MultiSignerImpl::{run_verify_single_signature,
//        verify_single_signature, verify_single_signature_for_next_stake_distribution}
// authenticate marks a submission Authenticated exactly when the common verification (unit verify_single_signature: valid
// under the key registered by the party the submission names) succeeds for the CURRENT or, failing that, the NEXT stake
// distribution, and touches nothing else of the submission. (create_multi_signature - anyhow downcasting - is not under contract.)
use vstd::prelude::*;
verus! {

pub mod entities { pub use super::SingleSignature; }

pub struct StdError {}
#[verifier::external_body] pub struct SigBody { _p: core::marker::PhantomData<u8> }
#[derive(PartialEq, Eq, Clone, Copy)] pub enum SingleSignatureAuthenticationStatus { Authenticated, Unauthenticated }
pub struct SingleSignature { pub party_id: String, pub signature: SigBody, pub won_indexes: Vec<u64>, pub authentication_status: SingleSignatureAuthenticationStatus }
#[verifier::external_body] pub struct ProtocolMultiSigner { _p: core::marker::PhantomData<u8> }
#[verifier::external_body] pub struct EpochService { _p: core::marker::PhantomData<u8> }
#[verifier::external_body] pub struct ProtocolMessage { _p: core::marker::PhantomData<u8> }
#[verifier::external_body] pub struct AncillaryInput { _p: core::marker::PhantomData<u8> }
#[verifier::external_body] pub struct MultiSignatureWithAncillaryData { _p: core::marker::PhantomData<u8> }
#[verifier::external_body] pub struct AggregateSignatureType { _p: core::marker::PhantomData<u8> }

/// the common verification (mithril-common MultiSigner::verify_single_signature, unit verify_single_signature) accepts this
/// submission for this message
pub uninterp spec fn common_accepts(ms: &ProtocolMultiSigner, message: Seq<char>, s: &SingleSignature) -> bool;
pub uninterp spec fn current_multi_signer(e: &EpochService) -> ProtocolMultiSigner;
pub uninterp spec fn next_multi_signer(e: &EpochService) -> ProtocolMultiSigner;
impl ProtocolMultiSigner {
    #[verifier::external_body]
    pub fn verify_single_signature(&self, message: &&str, s: &SingleSignature) -> (r: Result<(), StdError>)
        ensures (r is Ok) == common_accepts(self, (*message)@, s)
    { unimplemented!() }
}
impl EpochService {
    #[verifier::external_body]
    pub fn protocol_multi_signer(&self) -> (r: Result<&ProtocolMultiSigner, StdError>) ensures r is Ok ==> *r->Ok_0 == current_multi_signer(self) { unimplemented!() }
    #[verifier::external_body]
    pub fn next_protocol_multi_signer(&self) -> (r: Result<&ProtocolMultiSigner, StdError>) ensures r is Ok ==> *r->Ok_0 == next_multi_signer(self) { unimplemented!() }
}
#[verifier::external_body]
fn string_to_string(s: &str) -> (r: String) ensures r@ == s@ { unimplemented!() }

pub struct MultiSignerImpl { pub epoch_service: EpochService }

impl MultiSignerImpl {
    //@extract file=mithril-aggregator/src/multi_signer.rs fn=run_verify_single_signature within="impl MultiSignerImpl"
    //@ rewrite /StdResult<\(\)>/ => /Result<(), StdError>/
    //@ rewrite? /(?s)(?:slog::)?(?:debug|info|warn|trace|error)!\(.*?\);[ \t]*\n/ => //
    //@ rewrite? /(?s)\s*\.with_context\(\|\| \{\s*format!\(.*?\)\s*\}\)/ => //
    //@ rewrite? /(?s)\s*\.with_context\(\|\| format!\(.*?\)\)/ => //
    //@ spec ensures (ret is Ok) == common_accepts(protocol_multi_signer, message@, single_signature)
    //@end

    //@extract file=mithril-aggregator/src/multi_signer.rs fn=verify_single_signature within="impl MultiSigner for MultiSignerImpl"
    //@ rewrite /async fn/ => /fn/
    //@ rewrite /self\.epoch_service\.read\(\)\.await/ => /&self.epoch_service/
    //@ rewrite /StdResult<\(\)>/ => /Result<(), StdError>/
    //@ rewrite? /(?s)\s*\.with_context\(\s*\|\|\s*"[^"]*",?\s*\)/ => //
    //@ spec ensures ret is Ok ==> common_accepts(&current_multi_signer(&self.epoch_service), message@, single_signature)
    //@end

    //@extract file=mithril-aggregator/src/multi_signer.rs fn=verify_single_signature_for_next_stake_distribution within="impl MultiSigner for MultiSignerImpl"
    //@ rewrite /async fn/ => /fn/
    //@ rewrite /self\.epoch_service\.read\(\)\.await/ => /&self.epoch_service/
    //@ rewrite /StdResult<\(\)>/ => /Result<(), StdError>/
    //@ rewrite? /(?s)\s*\.with_context\(\s*\|\|\s*"[^"]*",?\s*\)/ => //
    //@ spec ensures ret is Ok ==> common_accepts(&next_multi_signer(&self.epoch_service), message@, single_signature)
    //@end
}

// ---- the authenticator (it sees the aggregator's MultiSigner as a trait object) ----
#[verifier::external_body] pub struct DynMultiSigner { _p: core::marker::PhantomData<u8> }
/// the contracts proved above on MultiSignerImpl, seen through the trait object
pub uninterp spec fn accepted_current(m: &DynMultiSigner, message: Seq<char>, s: &SingleSignature) -> bool;
pub uninterp spec fn accepted_next(m: &DynMultiSigner, message: Seq<char>, s: &SingleSignature) -> bool;
impl DynMultiSigner {
    #[verifier::external_body]
    pub fn verify_single_signature(&self, message: &str, s: &SingleSignature) -> (r: Result<(), StdError>) ensures (r is Ok) == accepted_current(self, message@, s) { unimplemented!() }
    #[verifier::external_body]
    pub fn verify_single_signature_for_next_stake_distribution(&self, message: &str, s: &SingleSignature) -> (r: Result<(), StdError>) ensures (r is Ok) == accepted_next(self, message@, s) { unimplemented!() }
}
pub struct SingleSignatureAuthenticator { pub multi_signer: DynMultiSigner }

impl SingleSignatureAuthenticator {
    //@extract file=mithril-aggregator/src/tools/single_signature_authenticator.rs fn=authenticate within="impl SingleSignatureAuthenticator"
    //@ rewrite /pub async fn/ => /fn/
    //@ rewrite /\.await/ => //
    //@ rewrite /StdResult<\(\)>/ => /Result<(), StdError>/
    //@ rewrite? /(?s)(?:slog::)?(?:debug|info|warn|trace|error)!\(.*?\);[ \t]*\n/ => //
    //@ spec ensures ret is Ok,
    //@ spec     // Authenticated exactly when the common verification succeeds for the current or the next stake distribution
    //@ spec     (final(single_signature).authentication_status == SingleSignatureAuthenticationStatus::Authenticated)
    //@ spec         == (accepted_current(&self.multi_signer, signed_message@, old(single_signature)) || accepted_next(&self.multi_signer, signed_message@, old(single_signature))),
    //@ spec     final(single_signature).authentication_status != SingleSignatureAuthenticationStatus::Authenticated ==> final(single_signature).authentication_status == SingleSignatureAuthenticationStatus::Unauthenticated,
    //@ spec     // nothing else of the submission is touched
    //@ spec     final(single_signature).party_id == old(single_signature).party_id, final(single_signature).signature == old(single_signature).signature,
    //@ spec     final(single_signature).won_indexes == old(single_signature).won_indexes,
    //@end
}

} // verus!
fn main() {}

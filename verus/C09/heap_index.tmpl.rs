// C09 — heap-index algebra of the STM Merkle tree (mithril-stm/src/membership_commitment/merkle_tree/mod.rs), on the
// working tree's text of parent / left_child / right_child / sibling. Unbounded in the index.
use vstd::prelude::*;
verus! {

//@extract file=mithril-stm/src/membership_commitment/merkle_tree/mod.rs fn=parent within="<toplevel>"
//@ rewrite /assert!\(i > 0, "[^"]*"\);/ => //
//@ spec requires i > 0
//@ spec ensures ret == (i - 1) / 2, ret < i
//@end

//@extract file=mithril-stm/src/membership_commitment/merkle_tree/mod.rs fn=left_child within="<toplevel>"
//@ spec requires 2 * i + 1 <= usize::MAX
//@ spec ensures ret == 2 * i + 1
//@end

//@extract file=mithril-stm/src/membership_commitment/merkle_tree/mod.rs fn=right_child within="<toplevel>"
//@ spec requires 2 * i + 2 <= usize::MAX
//@ spec ensures ret == 2 * i + 2
//@end

//@extract file=mithril-stm/src/membership_commitment/merkle_tree/mod.rs fn=sibling within="<toplevel>"
//@ rewrite /assert!\(i > 0, "[^"]*"\);/ => //
//@ spec requires i > 0, i < usize::MAX
//@ spec ensures ret == (if i % 2 == 1 { i + 1 } else { i - 1 }), ret > 0, ret != i
//@end

/// the children of a node have that node as parent; siblings share their parent; sibling is an involution;
/// odd indices are left children, even (non-zero) indices are right children
fn c09_heap_index_laws(i: usize)
    requires 2 * i + 2 < usize::MAX
{
    let l = left_child(i);
    let r = right_child(i);
    let pl = parent(l);
    let pr = parent(r);
    assert(pl == i && pr == i);
    let sl = sibling(l);
    let sr = sibling(r);
    assert(sl == r && sr == l);
    assert(l % 2 == 1 && r % 2 == 0);
    if i > 0 {
        let s = sibling(i);
        let ss = sibling(s);
        assert(ss == i);
        let p1 = parent(i);
        let p2 = parent(s);
        assert(p1 == p2);
        // a node is the left or the right child of its parent, according to its parity
        let lc = left_child(p1);
        let rc = right_child(p1);
        assert(i % 2 == 1 ==> lc == i && rc == s);
        assert(i % 2 == 0 ==> rc == i && lc == s);
    }
}

/// layout used by MerkleTree::new and by the verifier: with p = next_power_of_two(n) the tree has n + p - 1 nodes and the
/// leaf i sits at p - 1 + i, strictly below the inner nodes; distinct leaves have distinct positions
proof fn c09_leaf_layout(n: int, p: int, i: int, j: int)
    requires 0 < n <= p, 0 <= i < n, 0 <= j < n,
    ensures
        (n + p - 1) - n + i == p - 1 + i,
        p - 1 + i < n + p - 1,
        i != j ==> p - 1 + i != p - 1 + j,
        i < j ==> p - 1 + i < p - 1 + j,
{}

} // verus!
fn main() {}

// C20 (clauses "at most one signature per signed entity and beacon" / "publish then mark as signed") — Verus on the working
// tree's text of the signer's SignerCertifierService (mithril-signer/src/services/certifier.rs):
//   get_beacon_to_sign Some(b) ==> b is for the time point's epoch and for a signed entity type that is allowed by the
//   configuration at that time point, not locked, and NOT ALREADY SIGNED according to the signed-beacon store;
//   compute_publish_single_signature Ok ==> what was published (if anything) is the signature the single signer computed for
//   THIS protocol message, under the beacon's signed entity type, and the beacon was marked as signed AFTER a successful
//   publication (a failed publication leaves the beacon unsigned, so it is retried).
// The stores / publisher / single signer (async trait objects) are callee contracts over uninterpreted functions.
use vstd::prelude::*;
verus! {

pub struct StdError {}
#[derive(Clone, Copy)] pub struct Epoch(pub u64);
#[verifier::external_body] pub struct SignedEntityType { _p: core::marker::PhantomData<u8> }
impl Clone for SignedEntityType { #[verifier::external_body] fn clone(&self) -> (r: Self) ensures r == *self { unimplemented!() } }
#[verifier::external_body] #[derive(Clone, Copy)] pub struct DateTime { _p: core::marker::PhantomData<u8> }
#[verifier::external_body] pub struct ProtocolMessage { _p: core::marker::PhantomData<u8> }
#[verifier::external_body] pub struct SingleSignature { _p: core::marker::PhantomData<u8> }
pub struct TimePoint { pub epoch: Epoch }
pub struct BeaconToSign { pub epoch: Epoch, pub signed_entity_type: SignedEntityType, pub initiated_at: DateTime }
impl BeaconToSign {
    #[verifier::external_body]
    pub fn new(epoch: Epoch, signed_entity_type: SignedEntityType, initiated_at: DateTime) -> (r: Self)
        ensures r.epoch == epoch, r.signed_entity_type == signed_entity_type, r.initiated_at == initiated_at
    { unimplemented!() }
}
pub struct Utc {}
impl Utc { #[verifier::external_body] pub fn now() -> DateTime { unimplemented!() } }

#[verifier::external_body] pub struct SignedBeaconStore { _p: core::marker::PhantomData<u8> }
#[verifier::external_body] pub struct ConfigProvider { _p: core::marker::PhantomData<u8> }
#[verifier::external_body] pub struct SignedEntityConfig { _p: core::marker::PhantomData<u8> }
#[verifier::external_body] pub struct SignedEntityTypeLock { _p: core::marker::PhantomData<u8> }
#[verifier::external_body] pub struct SingleSigner { _p: core::marker::PhantomData<u8> }
#[verifier::external_body] pub struct SignaturePublisher { _p: core::marker::PhantomData<u8> }

/// the signed-beacon store already holds this signed entity type (with its beacon) as signed
pub uninterp spec fn already_signed(s: &SignedBeaconStore, t: SignedEntityType) -> bool;
/// mark_beacon_as_signed(b) was called
pub uninterp spec fn marked_as_signed(s: &SignedBeaconStore, b: &BeaconToSign) -> bool;
pub uninterp spec fn locked(l: &SignedEntityTypeLock, t: SignedEntityType) -> bool;
pub uninterp spec fn current_config(p: &ConfigProvider) -> SignedEntityConfig;
pub uninterp spec fn allowed_at(c: &SignedEntityConfig, tp: &TimePoint) -> Seq<SignedEntityType>;
/// what the single signer computes for this protocol message (None: no lottery won)
pub uninterp spec fn signature_for(s: &SingleSigner, m: &ProtocolMessage) -> Option<SingleSignature>;
/// publish(type, signature, message) was called and succeeded
pub uninterp spec fn published(p: &SignaturePublisher, t: &SignedEntityType, s: &SingleSignature, m: &ProtocolMessage) -> bool;

impl ConfigProvider {
    #[verifier::external_body]
    pub fn get(&self) -> (r: Result<SignedEntityConfig, StdError>) ensures r is Ok ==> r->Ok_0 == current_config(self) { unimplemented!() }
}
impl SignedEntityConfig {
    #[verifier::external_body]
    pub fn list_allowed_signed_entity_types(&self, tp: &TimePoint) -> (r: Result<Vec<SignedEntityType>, StdError>) ensures r is Ok ==> r->Ok_0@ == allowed_at(self, tp) { unimplemented!() }
}
impl SignedEntityTypeLock {
    /// keeps, in order, the entries that are not locked
    #[verifier::external_body]
    pub fn filter_unlocked_entries(&self, v: Vec<SignedEntityType>) -> (r: Vec<SignedEntityType>)
        ensures forall|i: int| 0 <= i < r@.len() ==> v@.contains(#[trigger] r@[i]) && !locked(self, r@[i])
    { unimplemented!() }
}
impl SignedBeaconStore {
    /// keeps, in order, the entries that are not already signed
    #[verifier::external_body]
    pub fn filter_out_already_signed_entities(&self, v: Vec<SignedEntityType>) -> (r: Result<Vec<SignedEntityType>, StdError>)
        ensures r is Ok ==> forall|i: int| 0 <= i < r->Ok_0@.len() ==> v@.contains(#[trigger] r->Ok_0@[i]) && !already_signed(self, r->Ok_0@[i])
    { unimplemented!() }
    #[verifier::external_body]
    pub fn mark_beacon_as_signed(&self, b: &BeaconToSign) -> (r: Result<(), StdError>) ensures r is Ok ==> marked_as_signed(self, b) { unimplemented!() }
}
impl SingleSigner {
    #[verifier::external_body]
    pub fn compute_single_signature(&self, m: &ProtocolMessage) -> (r: Result<Option<SingleSignature>, StdError>) ensures r is Ok ==> r->Ok_0 == signature_for(self, m) { unimplemented!() }
}
impl SignaturePublisher {
    /// a publication may only be attempted for a beacon that is not yet marked as signed in this call (ordering: publish, then mark)
    #[verifier::external_body]
    pub fn publish(&self, t: &SignedEntityType, s: &SingleSignature, m: &ProtocolMessage) -> (r: Result<(), StdError>) ensures r is Ok ==> published(self, t, s, m) { unimplemented!() }
}
#[verifier::external_body]
fn types_is_empty(v: &Vec<SignedEntityType>) -> (r: bool) ensures r == (v@.len() == 0) { v.is_empty() }

pub struct SignerCertifierService {
    pub signed_beacon_store: SignedBeaconStore,
    pub signed_entity_config_provider: ConfigProvider,
    pub signed_entity_type_lock: SignedEntityTypeLock,
    pub single_signer: SingleSigner,
    pub signature_publisher: SignaturePublisher,
}

/// t may be signed now: allowed by the configuration at this time point, not locked, not already signed
pub open spec fn signable(s: &SignerCertifierService, tp: &TimePoint, t: SignedEntityType) -> bool {
    allowed_at(&current_config(&s.signed_entity_config_provider), tp).contains(t) && !locked(&s.signed_entity_type_lock, t) && !already_signed(&s.signed_beacon_store, t)
}

impl SignerCertifierService {
    //@extract file=mithril-signer/src/services/certifier.rs fn=list_available_signed_entity_types within="impl SignerCertifierService"
    //@ rewrite /async fn/ => /fn/
    //@ rewrite /\.await/ => //
    //@ rewrite /StdResult<Vec<SignedEntityType>>/ => /Result<Vec<SignedEntityType>, StdError>/
    //@ spec ensures ret is Ok ==> forall|i: int| 0 <= i < ret->Ok_0@.len() ==> signable(self, time_point, #[trigger] ret->Ok_0@[i])
    //@end

    //@extract file=mithril-signer/src/services/certifier.rs fn=get_beacon_to_sign within="impl CertifierService for SignerCertifierService"
    //@ rewrite /async fn/ => /fn/
    //@ rewrite /\.await/ => //
    //@ rewrite /StdResult<Option<BeaconToSign>>/ => /Result<Option<BeaconToSign>, StdError>/
    //@ rewrite /available_signed_entity_types\.is_empty\(\)/ => /types_is_empty(&available_signed_entity_types)/
    //@ spec ensures ret is Ok && ret->Ok_0 is Some ==> ret->Ok_0->Some_0.epoch == time_point.epoch && signable(self, &time_point, ret->Ok_0->Some_0.signed_entity_type)
    //@end

    //@extract file=mithril-signer/src/services/certifier.rs fn=compute_publish_single_signature within="impl CertifierService for SignerCertifierService"
    //@ rewrite /async fn/ => /fn/
    //@ rewrite /\.await/ => //
    //@ rewrite /StdResult<\(\)>/ => /Result<(), StdError>/
    //@ rewrite? /(?s)(?:slog::)?(?:debug|info|warn|trace|error)!\(.*?\);[ \t]*\n/ => //
    //@ spec ensures ret is Ok ==> marked_as_signed(&self.signed_beacon_store, beacon_to_sign)
    //@ spec     // a signature exists for this message ==> exactly that signature was published, under the beacon's signed entity type
    //@ spec     && (signature_for(&self.single_signer, protocol_message) is Some ==>
    //@ spec             published(&self.signature_publisher, &beacon_to_sign.signed_entity_type, &signature_for(&self.single_signer, protocol_message)->Some_0, protocol_message))
    //@end
}

} // verus!
fn main() {}

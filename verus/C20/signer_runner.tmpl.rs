// C20 (clause "every published signature was made with the key material it registered for the epoch whose stake distribution
// is in force") — Verus on the working tree's text of the signer's runner (mithril-signer/src/runtime/runner.rs):
//   register_signer_to_aggregator Ok ==> if no key material is stored yet for the recording epoch (current + 1): new key
//   material is built for THIS party's stake in the stake distribution stored under that epoch, the registration sent to the
//   aggregator is FOR that epoch and carries the verification key (and key signature) of exactly that key material, and exactly
//   that key material is saved under that epoch - only after the aggregator accepted the registration; if key material is
//   already stored for that epoch nothing is registered or overwritten;
//   update_stake_distribution(e) Ok ==> a stake distribution is stored under the recording epoch e + 1 (the chain's current one
//   if none was stored), never overwritten.
// Stores, chain observer, publisher and key generation are callee contracts over uninterpreted functions.
use vstd::prelude::*;
verus! {

pub struct StdError {}
pub type PartyId = String;
pub type Stake = u64;
#[derive(Clone, Copy)] pub struct Epoch(pub u64);
impl Epoch {
    /// proved on the real function by this property's Kani unit
    #[verifier::external_body]
    pub fn offset_to_recording_epoch(&self) -> (r: Epoch) requires self.0 < u64::MAX, ensures r.0 == self.0 + 1 { unimplemented!() }
}
#[verifier::external_body] pub struct ProtocolParameters { _p: core::marker::PhantomData<u8> }
impl Clone for ProtocolParameters { #[verifier::external_body] fn clone(&self) -> (r: Self) ensures r == *self { unimplemented!() } }
#[verifier::external_body] pub struct StakeDistribution { _p: core::marker::PhantomData<u8> }
#[verifier::external_body] pub struct ProtocolInitializer { _p: core::marker::PhantomData<u8> }
#[verifier::external_body] pub struct KeyBytes { _p: core::marker::PhantomData<u8> }
#[verifier::external_body] pub struct KeySignatureOpt { _p: core::marker::PhantomData<u8> }
#[verifier::external_body] pub struct OpCertOpt { _p: core::marker::PhantomData<u8> }          // Option<OpCert>
#[verifier::external_body] pub struct ProtocolOpCertOpt { _p: core::marker::PhantomData<u8> }  // Option<ProtocolOpCert>
#[verifier::external_body] pub struct KesEvolutionsOpt { _p: core::marker::PhantomData<u8> }
#[verifier::external_body] #[derive(Clone, Copy)] pub struct KesPeriodOpt { _p: core::marker::PhantomData<u8> }
#[verifier::external_body] pub struct KesSigner { _p: core::marker::PhantomData<u8> }
impl Clone for KesSigner { #[verifier::external_body] fn clone(&self) -> (r: Self) ensures r == *self { unimplemented!() } }
#[verifier::external_body] pub struct Configuration { _p: core::marker::PhantomData<u8> }
pub struct Signer {
    pub party_id: PartyId,
    pub verification_key_for_concatenation: KeyBytes,
    pub verification_key_signature_for_concatenation: KeySignatureOpt,
    pub operational_certificate: ProtocolOpCertOpt,
    pub kes_evolutions: KesEvolutionsOpt,
}

pub uninterp spec fn initializer_key(i: &ProtocolInitializer) -> KeyBytes;
pub uninterp spec fn initializer_key_signature(i: &ProtocolInitializer) -> KeySignatureOpt;
/// key material freshly generated for (stake, parameters, KES signer, current KES period)
pub uninterp spec fn built_for(i: &ProtocolInitializer, stake: Stake, p: &ProtocolParameters) -> bool;
impl ProtocolInitializer {
    #[verifier::external_body]
    pub fn verification_key_for_concatenation_into(&self) -> (r: KeyBytes) ensures r == initializer_key(self) { unimplemented!() }
    #[verifier::external_body]
    pub fn verification_key_signature_for_concatenation(&self) -> (r: KeySignatureOpt) ensures r == initializer_key_signature(self) { unimplemented!() }
}
pub struct MithrilProtocolInitializerBuilder {}
impl MithrilProtocolInitializerBuilder {
    #[verifier::external_body]
    pub fn build(stake: &Stake, p: &ProtocolParameters, k: KesSigner, period: KesPeriodOpt) -> (r: Result<ProtocolInitializer, StdError>)
        ensures r is Ok ==> built_for(&r->Ok_0, *stake, p)
    { unimplemented!() }
}

#[verifier::external_body] pub struct EpochService { _p: core::marker::PhantomData<u8> }
#[verifier::external_body] pub struct StakeStore { _p: core::marker::PhantomData<u8> }
#[verifier::external_body] pub struct InitializerStore { _p: core::marker::PhantomData<u8> }
#[verifier::external_body] pub struct SingleSigner { _p: core::marker::PhantomData<u8> }
#[verifier::external_body] pub struct ChainObserver { _p: core::marker::PhantomData<u8> }
#[verifier::external_body] pub struct RegistrationPublisher { _p: core::marker::PhantomData<u8> }
pub uninterp spec fn service_epoch(e: &EpochService) -> Epoch;
pub uninterp spec fn service_registration_parameters(e: &EpochService) -> ProtocolParameters;
pub uninterp spec fn stored_stakes(s: &StakeStore, e: Epoch) -> Option<StakeDistribution>;
pub uninterp spec fn stake_map(d: &StakeDistribution) -> Map<Seq<char>, Stake>;
pub uninterp spec fn stored_initializer(s: &InitializerStore, e: Epoch) -> Option<ProtocolInitializer>;
pub uninterp spec fn own_party_id(s: &SingleSigner) -> Seq<char>;
/// register_signer(epoch, signer) was called on the aggregator client and accepted
pub uninterp spec fn registration_sent(p: &RegistrationPublisher, e: Epoch, s: &Signer) -> bool;
/// save_protocol_initializer(epoch, initializer) was called
pub uninterp spec fn initializer_saved(s: &InitializerStore, e: Epoch, i: ProtocolInitializer) -> bool;
/// the aggregator ACCEPTED a registration for this epoch carrying this verification key (used to order "register, THEN save")
pub uninterp spec fn registration_accepted(e: Epoch, k: KeyBytes) -> bool;
pub uninterp spec fn stakes_saved(s: &StakeStore, e: Epoch, d: StakeDistribution) -> bool;
pub uninterp spec fn chain_stake_distribution(c: &ChainObserver) -> Option<StakeDistribution>;
pub uninterp spec fn distribution_is_empty(d: &StakeDistribution) -> bool;

impl EpochService {
    #[verifier::external_body]
    pub fn epoch_of_current_data(&self) -> (r: Result<Epoch, StdError>) ensures r is Ok ==> r->Ok_0 == service_epoch(self) { unimplemented!() }
    #[verifier::external_body]
    pub fn registration_protocol_parameters(&self) -> (r: Result<&ProtocolParameters, StdError>) ensures r is Ok ==> *r->Ok_0 == service_registration_parameters(self) { unimplemented!() }
}
impl StakeStore {
    #[verifier::external_body]
    pub fn get_stakes(&self, e: Epoch) -> (r: Result<Option<StakeDistribution>, StdError>) ensures r is Ok ==> r->Ok_0 == stored_stakes(self, e) { unimplemented!() }
    #[verifier::external_body]
    pub fn save_stakes(&self, e: Epoch, d: StakeDistribution) -> (r: Result<Option<StakeDistribution>, StdError>) ensures r is Ok ==> stakes_saved(self, e, d) { unimplemented!() }
}
impl StakeDistribution {
    #[verifier::external_body]
    pub fn get(&self, id: &PartyId) -> (r: Option<&Stake>) ensures (r is Some) == stake_map(self).dom().contains(id@), r is Some ==> *r->Some_0 == stake_map(self)[id@] { unimplemented!() }
}
impl InitializerStore {
    #[verifier::external_body]
    pub fn get_protocol_initializer(&self, e: Epoch) -> (r: Result<Option<ProtocolInitializer>, StdError>) ensures r is Ok ==> r->Ok_0 == stored_initializer(self, e) { unimplemented!() }
    #[verifier::external_body]
    /// key material is kept only AFTER the aggregator accepted the registration of its verification key for that epoch (a refused
    /// registration must be retried: keys found in the store make the runner skip the registration)
    pub fn save_protocol_initializer(&self, e: Epoch, i: ProtocolInitializer) -> (r: Result<Option<ProtocolInitializer>, StdError>)
        requires registration_accepted(e, initializer_key(&i))
        ensures r is Ok ==> initializer_saved(self, e, i)
    { unimplemented!() }
}
impl SingleSigner {
    #[verifier::external_body]
    pub fn get_party_id(&self) -> (r: PartyId) ensures r@ == own_party_id(self) { unimplemented!() }
}
impl ChainObserver {
    #[verifier::external_body]
    pub fn get_current_kes_period(&self) -> Result<KesPeriodOpt, StdError> { unimplemented!() }
    #[verifier::external_body]
    pub fn get_current_stake_distribution(&self) -> (r: Result<Option<StakeDistribution>, StdError>) ensures r is Ok ==> r->Ok_0 == chain_stake_distribution(self) { unimplemented!() }
}
impl RegistrationPublisher {
    #[verifier::external_body]
    pub fn register_signer(&self, e: Epoch, s: &Signer) -> (r: Result<(), StdError>)
        ensures r is Ok ==> registration_sent(self, e, s) && registration_accepted(e, s.verification_key_for_concatenation)
    { unimplemented!() }
}
/// the `match &self.config.operational_certificate_path { Some(path) => OpCert::from_file(..) .. }` block (file parsing)
#[verifier::external_body]
fn load_operational_certificate(c: &Configuration) -> Result<(OpCertOpt, ProtocolOpCertOpt), StdError> { unimplemented!() }
/// `operational_certificate.map(|c| current_kes_period.unwrap_or_default() - c.get_start_kes_period())`
#[verifier::external_body]
fn kes_evolutions_of(c: OpCertOpt, period: KesPeriodOpt) -> KesEvolutionsOpt { unimplemented!() }
#[verifier::external_body]
fn initializer_is_none(o: &Option<ProtocolInitializer>) -> (r: bool) ensures r == (o is None) { o.is_none() }
/// `!store.get_stakes(e)?.unwrap_or_default().is_empty()`
#[verifier::external_body]
fn has_stakes(o: Option<StakeDistribution>) -> (r: bool) ensures r == (o is Some && !distribution_is_empty(&o->Some_0)) { unimplemented!() }

pub struct Services {
    pub epoch_service: EpochService, pub stake_store: StakeStore, pub protocol_initializer_store: InitializerStore, pub single_signer: SingleSigner,
    pub chain_observer: ChainObserver, pub signer_registration_publisher: RegistrationPublisher, pub kes_signer: KesSigner,
}
pub struct SignerRunner { pub config: Configuration, pub services: Services }

impl SignerRunner {
    //@extract file=mithril-signer/src/runtime/runner.rs fn=register_signer_to_aggregator within="impl Runner for SignerRunner"
    //@ strip_cfg future_snark
    //@ rewrite /async fn/ => /fn/
    //@ rewrite /self\.services\.epoch_service\.read\(\)\.await/ => /&self.services.epoch_service/
    //@ rewrite /\.await/ => //
    //@ rewrite /StdResult<\(\)>/ => /Result<(), StdError>/
    //@ rewrite? /(?s)(?:slog::)?(?:debug|info|warn|trace|error)!\(.*?\);[ \t]*\n/ => //
    //@ rewrite /(?s)\.ok_or_else\(\|\| \{\s*RunnerError::NoValueError\(format!\(.*?\)\)\s*\}\)\?/ => /.ok_or(StdError {})?/
    //@ rewrite /\.ok_or_else\(RunnerError::NoStakeForSelf\)\?/ => /.ok_or(StdError {})?/
    //@ rewrite /(?s)let \(operational_certificate, protocol_operational_certificate\) = match &self\s*\.config\s*\.operational_certificate_path\s*\{.*?\n        \};/ => /let (operational_certificate, protocol_operational_certificate) = load_operational_certificate(&self.config)?;/
    //@ rewrite /(?s)let kes_evolutions = operational_certificate\.map\(\|operational_certificate\| \{.*?\}\);/ => /let kes_evolutions = kes_evolutions_of(operational_certificate, current_kes_period);/
    //@ rewrite? /(?s)\s*\.with_context\(\s*\|\|\s*"[^"]*",?\s*\)/ => //
    //@ rewrite /protocol_initializer\.is_none\(\)/ => /initializer_is_none(&protocol_initializer)/
    //@ rewrite /(?s)protocol_initializer\s*\.verification_key_for_concatenation\(\)\s*\.into\(\)/ => /protocol_initializer.verification_key_for_concatenation_into()/
    //@ spec requires service_epoch(&self.services.epoch_service).0 < u64::MAX
    //@ spec ensures ret is Ok ==> ({
    //@ spec     let e = Epoch((service_epoch(&self.services.epoch_service).0 + 1) as u64);
    //@ spec     // key material already stored for the recording epoch: nothing to do; otherwise register and save exactly the new key material
    //@ spec     stored_initializer(&self.services.protocol_initializer_store, e) is None ==> exists|i: ProtocolInitializer, s: Signer| ({
    //@ spec         &&& stored_stakes(&self.services.stake_store, e) is Some
    //@ spec         &&& stake_map(&stored_stakes(&self.services.stake_store, e)->Some_0).dom().contains(own_party_id(&self.services.single_signer))
    //@ spec         // built for THIS party's stake in the distribution stored under the recording epoch, with the registration parameters
    //@ spec         &&& built_for(&i, stake_map(&stored_stakes(&self.services.stake_store, e)->Some_0)[own_party_id(&self.services.single_signer)], &service_registration_parameters(&self.services.epoch_service))
    //@ spec         // registered FOR that epoch, under this party's id, with the key (and key signature) of exactly that key material
    //@ spec         &&& #[trigger] registration_sent(&self.services.signer_registration_publisher, e, &s)
    //@ spec         &&& s.party_id@ == own_party_id(&self.services.single_signer) && s.verification_key_for_concatenation == initializer_key(&i)
    //@ spec         &&& s.verification_key_signature_for_concatenation == initializer_key_signature(&i)
    //@ spec         // and exactly that key material is saved under that epoch
    //@ spec         &&& #[trigger] initializer_saved(&self.services.protocol_initializer_store, e, i)
    //@ spec     })
    //@ spec }),
    //@end

    //@extract file=mithril-signer/src/runtime/runner.rs fn=update_stake_distribution within="impl Runner for SignerRunner"
    //@ rewrite /async fn/ => /fn/
    //@ rewrite /\.await/ => //
    //@ rewrite /StdResult<\(\)>/ => /Result<(), StdError>/
    //@ rewrite? /(?s)(?:slog::)?(?:debug|info|warn|trace|error)!\(.*?\);[ \t]*\n/ => //
    //@ rewrite /(?s)let exists_stake_distribution = !self\s*\.services\s*\.stake_store\s*\.get_stakes\((.*?)\)\s*\?\s*\.unwrap_or_default\(\)\s*\.is_empty\(\);/ => /let exists_stake_distribution = has_stakes(self.services.stake_store.get_stakes(\1)?);/
    //@ rewrite /(?s)\.ok_or_else\(\|\| RunnerError::NoValueError\(.*?\)\)\?/ => /.ok_or(StdError {})?/
    //@ spec requires epoch.0 < u64::MAX
    //@ spec ensures ret is Ok ==> ({
    //@ spec     let e = Epoch((epoch.0 + 1) as u64);
    //@ spec     // a non-empty distribution is already stored under the recording epoch (never overwritten), or the chain's current one is saved there
    //@ spec     (stored_stakes(&self.services.stake_store, e) is Some && !distribution_is_empty(&stored_stakes(&self.services.stake_store, e)->Some_0))
    //@ spec     || (chain_stake_distribution(&self.services.chain_observer) is Some && stakes_saved(&self.services.stake_store, e, chain_stake_distribution(&self.services.chain_observer)->Some_0))
    //@ spec }),
    //@end
}

} // verus!
fn main() {}

// C20 (clause "the signer never signs before it has registered keys eligible for the current epoch") — Verus on the working
// tree's text of the signer's gate MithrilEpochService::can_signer_sign_current_epoch and the accessors it uses
// (mithril-signer/src/services/epoch_service.rs): it answers true only when a protocol initializer (key material) is stored
// for the epoch AND the current signer list contains this party with exactly that initializer's verification key.
use vstd::prelude::*;
verus! {

pub type PartyId = String;
#[derive(Clone, Copy)] pub struct Epoch(pub u64);
#[verifier::external_body] pub struct ProtocolInitializer { _p: core::marker::PhantomData<u8> }
#[verifier::external_body] pub struct KeyBytes { _p: core::marker::PhantomData<u8> }
#[verifier::external_body] pub struct KeySignature { _p: core::marker::PhantomData<u8> }   // Option<ProtocolSignerVerificationKeySignature>
#[verifier::external_body] pub struct OpCertOpt { _p: core::marker::PhantomData<u8> }      // Option<ProtocolOpCert>
#[verifier::external_body] pub struct KesEvolutionsOpt { _p: core::marker::PhantomData<u8> } // Option<KesEvolutions>
impl KeyBytes { #[verifier::external_body] pub fn to_owned(&self) -> (r: Self) ensures r == *self { unimplemented!() } }
impl KeySignature { #[verifier::external_body] pub fn to_owned(&self) -> (r: Self) ensures r == *self { unimplemented!() } }
impl OpCertOpt { #[verifier::external_body] pub fn to_owned(&self) -> (r: Self) ensures r == *self { unimplemented!() } }
impl KesEvolutionsOpt { #[verifier::external_body] pub fn to_owned(&self) -> (r: Self) ensures r == *self { unimplemented!() } }
pub type Stake = u64;
pub struct Signer {
    pub party_id: PartyId,
    pub verification_key_for_concatenation: KeyBytes,
    pub verification_key_signature_for_concatenation: KeySignature,
    pub operational_certificate: OpCertOpt,
    pub kes_evolutions: KesEvolutionsOpt,
}
pub struct SignerWithStake {
    pub party_id: PartyId,
    pub verification_key_for_concatenation: KeyBytes,
    pub verification_key_signature_for_concatenation: KeySignature,
    pub operational_certificate: OpCertOpt,
    pub kes_evolutions: KesEvolutionsOpt,
    pub stake: Stake,
}
pub enum EpochServiceError { NotYetInitialized }

pub uninterp spec fn initializer_key(i: &ProtocolInitializer) -> KeyBytes;
pub uninterp spec fn key_eq(a: &KeyBytes, b: &KeyBytes) -> bool;

#[verifier::external_body] #[derive(Clone, Copy)] pub struct SupportedEra { _p: core::marker::PhantomData<u8> }
#[verifier::external_body] pub struct ProtocolParameters { _p: core::marker::PhantomData<u8> }
#[verifier::external_body] pub struct DiscriminantSet { _p: core::marker::PhantomData<u8> }   // BTreeSet<SignedEntityTypeDiscriminants>
#[verifier::external_body] pub struct TxConfig { _p: core::marker::PhantomData<u8> }          // Option<CardanoTransactionsSigningConfig>
#[verifier::external_body] pub struct BlkConfig { _p: core::marker::PhantomData<u8> }         // Option<CardanoBlocksTransactionsSigningConfig>
impl Clone for ProtocolParameters { #[verifier::external_body] fn clone(&self) -> (r: Self) ensures r == *self { unimplemented!() } }
impl Clone for DiscriminantSet { #[verifier::external_body] fn clone(&self) -> (r: Self) ensures r == *self { unimplemented!() } }
impl Clone for TxConfig { #[verifier::external_body] fn clone(&self) -> (r: Self) ensures r == *self { unimplemented!() } }
impl Clone for BlkConfig { #[verifier::external_body] fn clone(&self) -> (r: Self) ensures r == *self { unimplemented!() } }
pub struct SignedEntityTypesConfig { pub cardano_transactions: TxConfig, pub cardano_blocks_transactions: BlkConfig }
pub struct MithrilNetworkConfigurationForEpoch {
    pub protocol_parameters: ProtocolParameters,
    pub enabled_signed_entity_types: DiscriminantSet,
    pub signed_entity_types_config: SignedEntityTypesConfig,
}
pub struct MithrilNetworkConfiguration {
    pub epoch: Epoch,
    pub configuration_for_aggregation: MithrilNetworkConfigurationForEpoch,
    pub configuration_for_registration: MithrilNetworkConfigurationForEpoch,
}

pub struct EpochData {
    pub mithril_era: SupportedEra,
    pub epoch: Epoch,
    pub registration_protocol_parameters: ProtocolParameters,
    pub protocol_initializer: Option<ProtocolInitializer>,
    pub current_signers: Vec<Signer>,
    pub next_signers: Vec<Signer>,
    pub allowed_discriminants: DiscriminantSet,
    pub cardano_transactions_signing_config: TxConfig,
    pub cardano_blocks_transactions_signing_config: BlkConfig,
}

// the signer's stores (async trait objects): contracts over uninterpreted functions of their content
#[verifier::external_body] pub struct ProtocolInitializerStore { _p: core::marker::PhantomData<u8> }
#[verifier::external_body] pub struct EraChecker { _p: core::marker::PhantomData<u8> }
/// the key material (protocol initializer) the signer saved under this epoch
pub uninterp spec fn stored_initializer(s: &ProtocolInitializerStore, e: Epoch) -> Option<ProtocolInitializer>;
impl ProtocolInitializerStore {
    #[verifier::external_body]
    pub fn get_protocol_initializer(&self, e: Epoch) -> (r: Result<Option<ProtocolInitializer>, EpochServiceError>)
        ensures r is Ok ==> r->Ok_0 == stored_initializer(self, e)
    { unimplemented!() }
}
impl EraChecker { #[verifier::external_body] pub fn current_era(&self) -> SupportedEra { unimplemented!() } }
// Epoch offsets: the contracts proved on the real functions by this property's Kani unit (c20_epoch.rs)
impl Epoch {
    #[verifier::external_body]
    pub fn offset_to_signer_retrieval_epoch(&self) -> (r: Result<Epoch, EpochServiceError>)
        ensures (r is Ok) == (self.0 >= 1), r is Ok ==> r->Ok_0.0 == self.0 - 1
    { unimplemented!() }
    #[verifier::external_body]
    pub fn offset_to_next_signer_retrieval_epoch(&self) -> (r: Epoch) ensures r.0 == self.0 { unimplemented!() }
}
// the signer's stake store (async trait object over SQLite): the stake distribution saved under an epoch
#[verifier::external_body] pub struct StakeStorer { _p: core::marker::PhantomData<u8> }
#[verifier::external_body] pub struct StakeDistribution { _p: core::marker::PhantomData<u8> }
pub uninterp spec fn saved_stakes(s: &StakeStorer, e: Epoch) -> Option<Map<Seq<char>, Stake>>;
pub uninterp spec fn stake_map(d: &StakeDistribution) -> Map<Seq<char>, Stake>;
impl StakeStorer {
    #[verifier::external_body]
    pub fn get_stakes(&self, e: Epoch) -> (r: Result<Option<StakeDistribution>, EpochServiceError>)
        ensures r is Ok ==> (r->Ok_0 is Some) == (saved_stakes(self, e) is Some), r is Ok && r->Ok_0 is Some ==> stake_map(&r->Ok_0->Some_0) == saved_stakes(self, e)->Some_0
    { unimplemented!() }
}
impl StakeDistribution {
    #[verifier::external_body]
    pub fn get(&self, id: &PartyId) -> (r: Option<&Stake>)
        ensures (r is Some) == stake_map(self).dom().contains(id@), r is Some ==> *r->Some_0 == stake_map(self)[id@]
    { unimplemented!() }
}
#[verifier::external_body]
fn string_to_owned(s: &String) -> (r: String) ensures r@ == s@ { s.clone() }
/// `out` is `signers`, one for one and in order, each with ITS OWN key material and the stake the store saved under `e` for ITS party id
pub open spec fn with_stakes_of(store: &StakeStorer, e: Epoch, signers: Seq<Signer>, out: Seq<SignerWithStake>) -> bool {
    &&& saved_stakes(store, e) is Some
    &&& out.len() == signers.len()
    &&& forall|i: int| 0 <= i < signers.len() ==> signer_with_stake_of(saved_stakes(store, e)->Some_0, signers[i], #[trigger] out[i])
}
pub open spec fn signer_with_stake_of(stakes: Map<Seq<char>, Stake>, s: Signer, o: SignerWithStake) -> bool {
    &&& o.party_id@ == s.party_id@ && o.verification_key_for_concatenation == s.verification_key_for_concatenation
    &&& o.verification_key_signature_for_concatenation == s.verification_key_signature_for_concatenation
    &&& o.operational_certificate == s.operational_certificate && o.kes_evolutions == s.kes_evolutions
    &&& stakes.dom().contains(s.party_id@) && o.stake == stakes[s.party_id@]
}

pub struct MithrilEpochService {
    pub stake_storer: StakeStorer,
    pub epoch_data: Option<EpochData>,
    pub protocol_initializer_store: ProtocolInitializerStore,
    pub era_checker: EraChecker,
}

/// the party is listed among the current signers with exactly the initializer's verification key
pub open spec fn listed_with_key(signers: Seq<Signer>, party_id: Seq<char>, i: &ProtocolInitializer) -> bool {
    exists|j: int| 0 <= j < signers.len() && (#[trigger] signers[j]).party_id@ == party_id && key_eq(&signers[j].verification_key_for_concatenation, &initializer_key(i))
}
/// contract of `signers.iter().any(|s| s.party_id == party_id && s.verification_key_for_concatenation == initializer.verification_key_for_concatenation().into())`
#[verifier::external_body]
fn any_signer_with(signers: &Vec<Signer>, party_id: &PartyId, i: &ProtocolInitializer) -> (r: bool)
    ensures r == listed_with_key(signers@, party_id@, i)
{ unimplemented!() }

impl MithrilEpochService {
    //@extract file=mithril-signer/src/services/epoch_service.rs fn=associate_signers_with_stake within="impl MithrilEpochService"
    //@ strip_cfg future_snark
    //@ rewrite /async fn/ => /fn/
    //@ rewrite /\.await/ => //
    //@ rewrite /signers: &\[Signer\]/ => /signers: &Vec<Signer>/
    //@ rewrite /StdResult<Vec<SignerWithStake>>/ => /Result<Vec<SignerWithStake>, EpochServiceError>/
    //@ rewrite? /(?s)(?:slog::)?(?:debug|info|warn|trace|error)!\(.*?\);[ \t]*\n/ => //
    //@ rewrite /(?s)\.ok_or_else\(\|\| RunnerError::NoValueError\(format!\(.*?\)\)\)\?/ => /.ok_or(EpochServiceError::NotYetInitialized)?/
    //@ rewrite? /(?s)\.ok_or_else\(\|\| RunnerError::NoStakeForSigner\(signer\.party_id\.to_string\(\)\)\)\?/ => /.ok_or(EpochServiceError::NotYetInitialized)?/
    //@ rewrite /let mut signers_with_stake = vec!\[\];/ => /let mut signers_with_stake: Vec<SignerWithStake> = Vec::new();/
    //@ rewrite /for signer in signers \{/ => /for signer in it: signers.iter() {/
    //@ rewrite /\.get\(&\*signer\.party_id\)/ => /.get(&signer.party_id)/
    //@ rewrite /signer\.party_id\.to_owned\(\)/ => /string_to_owned(&signer.party_id)/
    //@ spec ensures ret is Ok ==> with_stakes_of(&self.stake_storer, epoch, signers@, ret->Ok_0@)
    //@ loop 0 invariant 0 <= it.index@ <= signers@.len(), signers_with_stake@.len() == it.index@, saved_stakes(&self.stake_storer, epoch) is Some,
    //@ loop 0     stake_map(&stakes) == saved_stakes(&self.stake_storer, epoch)->Some_0,
    //@ loop 0     forall|i: int| 0 <= i < it.index@ ==> signer_with_stake_of(saved_stakes(&self.stake_storer, epoch)->Some_0, signers@[i], #[trigger] signers_with_stake@[i]),
    //@end

    //@extract file=mithril-signer/src/services/epoch_service.rs fn=inform_epoch_settings within="impl EpochService for MithrilEpochService"
    //@ rewrite /async fn/ => /fn/
    //@ rewrite /\.await/ => //
    //@ rewrite /StdResult<\(\)>/ => /Result<(), EpochServiceError>/
    //@ rewrite? /(?s)(?:slog::)?(?:debug|info|warn|trace|error)!\(.*?\);[ \t]*\n/ => //
    //@ spec ensures ret is Ok ==> ({
    //@ spec     let d = final(self).epoch_data;
    //@ spec     &&& aggregator_signer_registration_epoch.0 >= 1 && d is Some && d->Some_0.epoch == aggregator_signer_registration_epoch
    //@ spec     // the key material in force for epoch e is what the signer saved under the signer-retrieval epoch e - 1
    //@ spec     &&& d->Some_0.protocol_initializer == stored_initializer(&old(self).protocol_initializer_store, Epoch((aggregator_signer_registration_epoch.0 - 1) as u64))
    //@ spec     &&& d->Some_0.current_signers == current_signers && d->Some_0.next_signers == next_signers
    //@ spec     &&& d->Some_0.registration_protocol_parameters == mithril_network_configuration.configuration_for_registration.protocol_parameters
    //@ spec }),
    //@end

    //@extract file=mithril-signer/src/services/epoch_service.rs fn=current_signers_with_stake within="impl EpochService for MithrilEpochService"
    //@ rewrite /async fn/ => /fn/
    //@ rewrite /\.await/ => //
    //@ rewrite /StdResult<Vec<SignerWithStake>>/ => /Result<Vec<SignerWithStake>, EpochServiceError>/
    //@ spec ensures ret is Ok ==> self.epoch_data is Some && self.epoch_data->Some_0.epoch.0 >= 1
    //@ spec     && with_stakes_of(&self.stake_storer, Epoch((self.epoch_data->Some_0.epoch.0 - 1) as u64), self.epoch_data->Some_0.current_signers@, ret->Ok_0@)
    //@end

    //@extract file=mithril-signer/src/services/epoch_service.rs fn=next_signers_with_stake within="impl EpochService for MithrilEpochService"
    //@ rewrite /async fn/ => /fn/
    //@ rewrite /\.await/ => //
    //@ rewrite /StdResult<Vec<SignerWithStake>>/ => /Result<Vec<SignerWithStake>, EpochServiceError>/
    //@ spec ensures ret is Ok ==> self.epoch_data is Some
    //@ spec     && with_stakes_of(&self.stake_storer, self.epoch_data->Some_0.epoch, self.epoch_data->Some_0.next_signers@, ret->Ok_0@)
    //@end

    //@extract file=mithril-signer/src/services/epoch_service.rs fn=next_signers within="impl EpochService for MithrilEpochService"
    //@ rewrite /StdResult<&Vec<Signer>>/ => /Result<&Vec<Signer>, EpochServiceError>/
    //@ spec ensures ret is Ok ==> self.epoch_data is Some && *ret->Ok_0 == self.epoch_data->Some_0.next_signers
    //@end

    //@extract file=mithril-signer/src/services/epoch_service.rs fn=unwrap_data within="impl MithrilEpochService"
    //@ spec ensures ret is Ok ==> self.epoch_data is Some && *ret->Ok_0 == self.epoch_data->Some_0
    //@end

    //@extract file=mithril-signer/src/services/epoch_service.rs fn=epoch_of_current_data within="impl EpochService for MithrilEpochService"
    //@ rewrite /StdResult<Epoch>/ => /Result<Epoch, EpochServiceError>/
    //@ spec ensures ret is Ok ==> self.epoch_data is Some && ret->Ok_0 == self.epoch_data->Some_0.epoch
    //@end

    //@extract file=mithril-signer/src/services/epoch_service.rs fn=protocol_initializer within="impl EpochService for MithrilEpochService"
    //@ rewrite /StdResult<&Option<ProtocolInitializer>>/ => /Result<&Option<ProtocolInitializer>, EpochServiceError>/
    //@ spec ensures ret is Ok ==> self.epoch_data is Some && *ret->Ok_0 == self.epoch_data->Some_0.protocol_initializer
    //@end

    //@extract file=mithril-signer/src/services/epoch_service.rs fn=current_signers within="impl EpochService for MithrilEpochService"
    //@ rewrite /StdResult<&Vec<Signer>>/ => /Result<&Vec<Signer>, EpochServiceError>/
    //@ spec ensures ret is Ok ==> self.epoch_data is Some && *ret->Ok_0 == self.epoch_data->Some_0.current_signers
    //@end

    //@extract file=mithril-signer/src/services/epoch_service.rs fn=is_signer_included_in_current_stake_distribution within="impl MithrilEpochService"
    //@ rewrite /StdResult<bool>/ => /Result<bool, EpochServiceError>/
    //@ rewrite /(?s)Ok\(self\.current_signers\(\)\?\.iter\(\)\.any\(\|s\| \{\s*s\.party_id == party_id\s*&& s\.verification_key_for_concatenation\s*== protocol_initializer\.verification_key_for_concatenation\(\)\.into\(\)\s*\}\)\)/ => /Ok(any_signer_with(self.current_signers()?, &party_id, protocol_initializer))/
    //@ spec ensures ret is Ok ==> self.epoch_data is Some && ret->Ok_0 == listed_with_key(self.epoch_data->Some_0.current_signers@, party_id@, protocol_initializer)
    //@end

    //@extract file=mithril-signer/src/services/epoch_service.rs fn=can_signer_sign_current_epoch within="impl EpochService for MithrilEpochService"
    //@ rewrite /StdResult<bool>/ => /Result<bool, EpochServiceError>/
    //@ rewrite /(?s)debug!\([^;]*\);/ => //
    //@ rewrite /(?s)warn!\([^;]*\);/ => //
    //@ spec ensures ret is Ok && ret->Ok_0 ==> self.epoch_data is Some
    //@ spec     // key material registered for this epoch exists ...
    //@ spec     && self.epoch_data->Some_0.protocol_initializer is Some
    //@ spec     // ... and the epoch's signer list names this party with exactly that key
    //@ spec     && listed_with_key(self.epoch_data->Some_0.current_signers@, party_id@, &self.epoch_data->Some_0.protocol_initializer->Some_0)
    //@end
}

} // verus!
fn main() {}

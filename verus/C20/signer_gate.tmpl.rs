// C20 (clause "the signer never signs before it has registered keys eligible for the current epoch") — Verus on the working
// tree's text of the signer's gate MithrilEpochService::can_signer_sign_current_epoch and the accessors it uses
// (mithril-signer/src/services/epoch_service.rs): it answers true only when a protocol initializer (key material) is stored
// for the epoch AND the current signer list contains this party with exactly that initializer's verification key.
use vstd::prelude::*;
verus! {

pub type PartyId = String;
#[derive(Clone, Copy)] pub struct Epoch(pub u64);
#[verifier::external_body] pub struct ProtocolInitializer { _p: core::marker::PhantomData<u8> }
#[verifier::external_body] pub struct KeyBytes { _p: core::marker::PhantomData<u8> }
pub struct Signer { pub party_id: PartyId, pub verification_key_for_concatenation: KeyBytes }
pub enum EpochServiceError { NotYetInitialized }

pub uninterp spec fn initializer_key(i: &ProtocolInitializer) -> KeyBytes;
pub uninterp spec fn key_eq(a: &KeyBytes, b: &KeyBytes) -> bool;

pub struct EpochData {
    pub epoch: Epoch,
    pub protocol_initializer: Option<ProtocolInitializer>,
    pub current_signers: Vec<Signer>,
    pub next_signers: Vec<Signer>,
}
pub struct MithrilEpochService { pub epoch_data: Option<EpochData> }

/// the party is listed among the current signers with exactly the initializer's verification key
pub open spec fn listed_with_key(signers: Seq<Signer>, party_id: Seq<char>, i: &ProtocolInitializer) -> bool {
    exists|j: int| 0 <= j < signers.len() && (#[trigger] signers[j]).party_id@ == party_id && key_eq(&signers[j].verification_key_for_concatenation, &initializer_key(i))
}
/// contract of `signers.iter().any(|s| s.party_id == party_id && s.verification_key_for_concatenation == initializer.verification_key_for_concatenation().into())`
#[verifier::external_body]
fn any_signer_with(signers: &Vec<Signer>, party_id: &PartyId, i: &ProtocolInitializer) -> (r: bool)
    ensures r == listed_with_key(signers@, party_id@, i)
{ unimplemented!() }

impl MithrilEpochService {
    //@extract file=mithril-signer/src/services/epoch_service.rs fn=unwrap_data within="impl MithrilEpochService"
    //@ spec ensures ret is Ok ==> self.epoch_data is Some && *ret->Ok_0 == self.epoch_data->Some_0
    //@end

    //@extract file=mithril-signer/src/services/epoch_service.rs fn=epoch_of_current_data within="impl EpochService for MithrilEpochService"
    //@ rewrite /StdResult<Epoch>/ => /Result<Epoch, EpochServiceError>/
    //@ spec ensures ret is Ok ==> self.epoch_data is Some && ret->Ok_0 == self.epoch_data->Some_0.epoch
    //@end

    //@extract file=mithril-signer/src/services/epoch_service.rs fn=protocol_initializer within="impl EpochService for MithrilEpochService"
    //@ rewrite /StdResult<&Option<ProtocolInitializer>>/ => /Result<&Option<ProtocolInitializer>, EpochServiceError>/
    //@ spec ensures ret is Ok ==> self.epoch_data is Some && *ret->Ok_0 == self.epoch_data->Some_0.protocol_initializer
    //@end

    //@extract file=mithril-signer/src/services/epoch_service.rs fn=current_signers within="impl EpochService for MithrilEpochService"
    //@ rewrite /StdResult<&Vec<Signer>>/ => /Result<&Vec<Signer>, EpochServiceError>/
    //@ spec ensures ret is Ok ==> self.epoch_data is Some && *ret->Ok_0 == self.epoch_data->Some_0.current_signers
    //@end

    //@extract file=mithril-signer/src/services/epoch_service.rs fn=is_signer_included_in_current_stake_distribution within="impl MithrilEpochService"
    //@ rewrite /StdResult<bool>/ => /Result<bool, EpochServiceError>/
    //@ rewrite /(?s)Ok\(self\.current_signers\(\)\?\.iter\(\)\.any\(\|s\| \{\s*s\.party_id == party_id\s*&& s\.verification_key_for_concatenation\s*== protocol_initializer\.verification_key_for_concatenation\(\)\.into\(\)\s*\}\)\)/ => /Ok(any_signer_with(self.current_signers()?, &party_id, protocol_initializer))/
    //@ spec ensures ret is Ok ==> self.epoch_data is Some && ret->Ok_0 == listed_with_key(self.epoch_data->Some_0.current_signers@, party_id@, protocol_initializer)
    //@end

    //@extract file=mithril-signer/src/services/epoch_service.rs fn=can_signer_sign_current_epoch within="impl EpochService for MithrilEpochService"
    //@ rewrite /StdResult<bool>/ => /Result<bool, EpochServiceError>/
    //@ rewrite /(?s)debug!\([^;]*\);/ => //
    //@ rewrite /(?s)warn!\([^;]*\);/ => //
    //@ spec ensures ret is Ok && ret->Ok_0 ==> self.epoch_data is Some
    //@ spec     // key material registered for this epoch exists ...
    //@ spec     && self.epoch_data->Some_0.protocol_initializer is Some
    //@ spec     // ... and the epoch's signer list names this party with exactly that key
    //@ spec     && listed_with_key(self.epoch_data->Some_0.current_signers@, party_id@, &self.epoch_data->Some_0.protocol_initializer->Some_0)
    //@end
}

} // verus!
fn main() {}

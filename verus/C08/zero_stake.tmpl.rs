// C08 (clause "always lost for zero stake") — Verus on the working tree's text of the lottery's decision procedure
// (mithril-stm/src/proof_system/concatenation/eligibility.rs, num-integer backend: the default build):
//   taylor_comparison(bound, cmp, x) with x = 0 and cmp >= 1 returns false for EVERY bound (loop with inductive invariant);
//   is_lottery_won(phi_f, ev, 0, total) is false for every draw value ev, every total > 0 and every phi_f that is not 1
//   (and true when phi_f is 1: the clause the Kani unit proves on the real f64 code).
// Rationals (num_rational::Ratio<BigInt>) are specified exactly as fractions n/d with d > 0: every operator's contract gives a
// representative of the exact result (zero is kept as 0/1, x + 0 as x: the library normalises anyway, and comparisons are by
// cross-multiplication, so the representative does not matter). f64 ln / EPSILON test and the 2^512 constant are contract fns.
use vstd::prelude::*;
use core::cmp::Ordering;
use core::ops::{Add, Sub, Mul, Div};
verus! {

pub type Stake = u64;
pub type PhiFValue = f64;
pub struct BigInt { pub v: Ghost<int> }
pub struct Ratio { pub n: Ghost<int>, pub d: Ghost<int> }
pub open spec fn rat(n: int, d: int) -> Ratio { Ratio { n: Ghost(n), d: Ghost(d) } }
pub open spec fn big(v: int) -> BigInt { BigInt { v: Ghost(v) } }

impl Clone for Ratio { #[verifier::external_body] fn clone(&self) -> (r: Self) ensures r == *self { unimplemented!() } }
impl Clone for BigInt { #[verifier::external_body] fn clone(&self) -> (r: Self) ensures r == *self { unimplemented!() } }

impl vstd::std_specs::ops::AddSpecImpl<Ratio> for Ratio {
    open spec fn obeys_add_spec() -> bool { true }
    open spec fn add_req(self, rhs: Ratio) -> bool { true }
    open spec fn add_spec(self, rhs: Ratio) -> Ratio { if rhs.n@ == 0 { self } else if self.n@ == 0 { rhs } else { rat(self.n@ * rhs.d@ + rhs.n@ * self.d@, self.d@ * rhs.d@) } }
}
impl Add<Ratio> for Ratio { type Output = Ratio; #[verifier::external_body] fn add(self, rhs: Ratio) -> Ratio { unimplemented!() } }
impl vstd::std_specs::ops::SubSpecImpl<Ratio> for Ratio {
    open spec fn obeys_sub_spec() -> bool { true }
    open spec fn sub_req(self, rhs: Ratio) -> bool { true }
    open spec fn sub_spec(self, rhs: Ratio) -> Ratio { if rhs.n@ == 0 { self } else { rat(self.n@ * rhs.d@ - rhs.n@ * self.d@, self.d@ * rhs.d@) } }
}
impl Sub<Ratio> for Ratio { type Output = Ratio; #[verifier::external_body] fn sub(self, rhs: Ratio) -> Ratio { unimplemented!() } }
impl vstd::std_specs::ops::MulSpecImpl<Ratio> for Ratio {
    open spec fn obeys_mul_spec() -> bool { true }
    open spec fn mul_req(self, rhs: Ratio) -> bool { true }
    open spec fn mul_spec(self, rhs: Ratio) -> Ratio { if self.n@ == 0 || rhs.n@ == 0 { rat(0, 1) } else { rat(self.n@ * rhs.n@, self.d@ * rhs.d@) } }
}
impl Mul<Ratio> for Ratio { type Output = Ratio; #[verifier::external_body] fn mul(self, rhs: Ratio) -> Ratio { unimplemented!() } }
impl vstd::std_specs::ops::MulSpecImpl<BigInt> for Ratio {
    open spec fn obeys_mul_spec() -> bool { true }
    open spec fn mul_req(self, rhs: BigInt) -> bool { true }
    open spec fn mul_spec(self, rhs: BigInt) -> Ratio { if self.n@ == 0 || rhs.v@ == 0 { rat(0, 1) } else { rat(self.n@ * rhs.v@, self.d@) } }
}
impl Mul<BigInt> for Ratio { type Output = Ratio; #[verifier::external_body] fn mul(self, rhs: BigInt) -> Ratio { unimplemented!() } }
impl vstd::std_specs::ops::DivSpecImpl<BigInt> for Ratio {
    open spec fn obeys_div_spec() -> bool { true }
    open spec fn div_req(self, rhs: BigInt) -> bool { rhs.v@ != 0 }
    open spec fn div_spec(self, rhs: BigInt) -> Ratio { if self.n@ == 0 { rat(0, 1) } else if rhs.v@ > 0 { rat(self.n@, self.d@ * rhs.v@) } else { rat(-self.n@, self.d@ * (-rhs.v@)) } }
}
impl Div<BigInt> for Ratio { type Output = Ratio; #[verifier::external_body] fn div(self, rhs: BigInt) -> Ratio { unimplemented!() } }
impl vstd::std_specs::ops::AddSpecImpl<i32> for BigInt {
    open spec fn obeys_add_spec() -> bool { true }
    open spec fn add_req(self, rhs: i32) -> bool { true }
    open spec fn add_spec(self, rhs: i32) -> BigInt { big(self.v@ + rhs) }
}
impl Add<i32> for BigInt { type Output = BigInt; #[verifier::external_body] fn add(self, rhs: i32) -> BigInt { unimplemented!() } }

pub open spec fn rat_cmp(a: Ratio, b: Ratio) -> Ordering {
    if a.n@ * b.d@ < b.n@ * a.d@ { Ordering::Less } else if a.n@ * b.d@ == b.n@ * a.d@ { Ordering::Equal } else { Ordering::Greater }
}
impl vstd::std_specs::cmp::PartialEqSpecImpl for Ratio {
    open spec fn obeys_eq_spec() -> bool { true }
    open spec fn eq_spec(&self, other: &Ratio) -> bool { rat_cmp(*self, *other) == Ordering::Equal }
}
impl PartialEq for Ratio { #[verifier::external_body] fn eq(&self, other: &Self) -> bool { unimplemented!() } }
impl vstd::std_specs::cmp::PartialOrdSpecImpl for Ratio {
    open spec fn obeys_partial_cmp_spec() -> bool { true }
    open spec fn partial_cmp_spec(&self, other: &Ratio) -> Option<Ordering> { Some(rat_cmp(*self, *other)) }
}
impl PartialOrd for Ratio { #[verifier::external_body] fn partial_cmp(&self, other: &Self) -> Option<Ordering> { unimplemented!() } }

impl Ratio {
    #[verifier::external_body]
    pub fn abs(self) -> (r: Ratio) ensures r == rat(if self.n@ >= 0 { self.n@ } else { -self.n@ }, self.d@) { unimplemented!() }
    #[verifier::external_body]
    pub fn one() -> (r: Ratio) ensures r == rat(1, 1) { unimplemented!() }
}
impl BigInt {
    #[verifier::external_body]
    pub fn one() -> (r: BigInt) ensures r == big(1) { unimplemented!() }
    #[verifier::external_body]
    pub fn from(x: i32) -> (r: BigInt) ensures r == big(x as int) { unimplemented!() }
}


impl vstd::std_specs::ops::SubSpecImpl<BigInt> for BigInt {
    open spec fn obeys_sub_spec() -> bool { true }
    open spec fn sub_req(self, rhs: BigInt) -> bool { true }
    open spec fn sub_spec(self, rhs: BigInt) -> BigInt { big(self.v@ - rhs.v@) }
}
impl Sub<BigInt> for BigInt { type Output = BigInt; #[verifier::external_body] fn sub(self, rhs: BigInt) -> BigInt { unimplemented!() } }
impl Ratio {
    #[verifier::external_body]
    pub fn new_raw(n: BigInt, d: BigInt) -> (r: Ratio) ensures r == rat(n.v@, d.v@) { unimplemented!() }
    #[verifier::external_body]
    pub fn neg(self) -> (r: Ratio) ensures r == rat(-self.n@, self.d@) { unimplemented!() }
}
impl BigInt {
    #[verifier::external_body]
    pub fn from_u64(x: u64) -> (r: BigInt) ensures r == big(x as int) { unimplemented!() }
}
pub uninterp spec fn pow2_512() -> int;
/// `BigInt::from(2u8).pow(512)`
#[verifier::external_body]
fn two_pow_512() -> (r: BigInt) ensures r == big(pow2_512()), pow2_512() > 0 { unimplemented!() }
/// `BigInt::from_bytes_le(Sign::Plus, &ev)`: the 64-byte draw value as a non-negative integer below 2^512
#[verifier::external_body]
fn bigint_from_le(ev: &[u8; 64]) -> (r: BigInt) ensures 0 <= r.v@ < pow2_512() { unimplemented!() }
pub uninterp spec fn phi_f_is_one_spec(phi_f: f64) -> bool;
/// `(phi_f - 1.0).abs() < PhiFValue::EPSILON`
#[verifier::external_body]
fn phi_f_is_one(phi_f: f64) -> (r: bool) ensures r == phi_f_is_one_spec(phi_f) { unimplemented!() }
/// `Ratio::from_float((1.0 - phi_f).ln()).expect(..)`: some rational (f64 ln is not specified)
#[verifier::external_body]
fn ln_one_minus(phi_f: f64) -> (r: Ratio) ensures r.d@ > 0 { unimplemented!() }

//@extract file=mithril-stm/src/proof_system/concatenation/eligibility.rs fn=taylor_comparison
//@ rewrite /Ratio<BigInt>/ => /Ratio/
//@ rewrite /: Ratio = One::one\(\)/ => /: Ratio = Ratio::one()/
//@ rewrite /: BigInt = One::one\(\)/ => /: BigInt = BigInt::one()/
//@ rewrite /for _ in 0\.\.bound \{/ => /for _verif_i in 0..bound {/
//@ rewrite /phi \+= new_x\.clone\(\);/ => /phi = phi + new_x.clone();/
//@ rewrite /divisor \+= 1;/ => /divisor = divisor + 1;/
//@ spec requires cmp.d@ > 0
//@ spec ensures
//@ spec     // x = 0 (zero stake) and a draw ratio q >= 1: never won, whatever the iteration bound
//@ spec     x.n@ == 0 && cmp.n@ >= cmp.d@ ==> !ret
//@ loop 0 invariant cmp.d@ > 0, divisor.v@ >= 1,
//@ loop 0     x.n@ == 0 && cmp.n@ >= cmp.d@ ==> new_x.n@ == 0 && phi.n@ == 1 && phi.d@ == 1,
//@end

//@extract file=mithril-stm/src/proof_system/concatenation/eligibility.rs fn=is_lottery_won
//@ rewrite /pub\(crate\) fn/ => /fn/
//@ rewrite /\(phi_f - 1\.0\)\.abs\(\) < PhiFValue::EPSILON/ => /phi_f_is_one(phi_f)/
//@ rewrite /BigInt::from\(2u8\)\.pow\(512\)/ => /two_pow_512()/
//@ rewrite /BigInt::from_bytes_le\(Sign::Plus, &ev\)/ => /bigint_from_le(&ev)/
//@ rewrite /(?s)Ratio::from_float\(\(1\.0 - phi_f\)\.ln\(\)\)\.expect\("[^"]*"\)/ => /ln_one_minus(phi_f)/
//@ rewrite /BigInt::from\(stake\)/ => /BigInt::from_u64(stake)/
//@ rewrite /BigInt::from\(total_stake\)/ => /BigInt::from_u64(total_stake)/
//@ spec requires total_stake > 0
//@ spec ensures
//@ spec     phi_f_is_one_spec(phi_f) ==> ret,
//@ spec     // always lost for zero stake
//@ spec     stake == 0 && !phi_f_is_one_spec(phi_f) ==> !ret,
//@end

} // verus!
fn main() {}

// C08 (clause "the decision is identical for signer and verifier") — Verus on the working tree's text of
// ConcatenationProofSigner::check_lottery: it proposes EXACTLY the indices in [0, m) for which the lottery predicate holds,
// evaluated on the same operands (phi_f, dense mapping of (sigma, msg||commitment, index), stake, total stake) as the
// verifier's check_indices (C01 unit check_indices). is_lottery_won itself is an uninterpreted function of its operands
// here: one function, called from both sides.
use vstd::prelude::*;
verus! {

pub type Stake = u64;
#[verifier::external_body] pub struct BlsSignature { _p: core::marker::PhantomData<u8> }
pub struct Parameters { pub m: u64, pub k: u64, pub phi_f: f64 }

pub uninterp spec fn dense(sigma: &BlsSignature, msg: Seq<u8>, index: u64) -> Seq<u8>;
pub uninterp spec fn lottery(phi_f: f64, ev: Seq<u8>, stake: u64, total: u64) -> bool;

impl BlsSignature {
    #[verifier::external_body]
    pub fn evaluate_dense_mapping(&self, msg: &[u8], index: u64) -> (r: [u8; 64])
        ensures r@ == dense(self, msg@, index)
    { unimplemented!() }
}

#[verifier::external_body]
fn is_lottery_won(phi_f: f64, ev: [u8; 64], stake: Stake, total_stake: Stake) -> (r: bool)
    ensures r == lottery(phi_f, ev@, stake, total_stake)
{ unimplemented!() }

pub broadcast proof fn lemma_contains_after_push(s: Seq<u64>, v: u64, x: u64)
    ensures #[trigger] s.push(v).contains(x) <==> (v == x || s.contains(x))
{
    if s.contains(x) { let k = choose|k: int| 0 <= k < s.len() && s[k] == x; assert(s.push(v)[k] == x); }
    if v == x { assert(s.push(v)[s.len() as int] == x); }
    if s.push(v).contains(x) { let k = choose|k: int| 0 <= k < s.push(v).len() && s.push(v)[k] == x; if k < s.len() { assert(s[k] == x); } }
}

pub struct ConcatenationProofSigner { pub stake: Stake, pub total_stake: Stake, pub parameters: Parameters }

pub open spec fn won(s: &ConcatenationProofSigner, msg: Seq<u8>, sigma: &BlsSignature, i: u64) -> bool {
    lottery(s.parameters.phi_f, dense(sigma, msg, i), s.stake, s.total_stake)
}

impl ConcatenationProofSigner {
    //@extract file=mithril-stm/src/proof_system/concatenation/signer.rs fn=check_lottery
    //@ rewrite? /let mut indices = Vec::(new\(\)|with_capacity\([^)]*\));/ => /let mut indices: Vec<u64> = Vec::\1;/
    //@ spec ensures
    //@ spec     forall|k: int| 0 <= k < ret@.len() ==> (#[trigger] ret@[k]) < self.parameters.m && won(self, message_with_commitment@, sigma, ret@[k]),
    //@ spec     forall|i: u64| i < self.parameters.m && won(self, message_with_commitment@, sigma, i) ==> ret@.contains(i),
    //@ spec     forall|a: int, b: int| 0 <= a < b < ret@.len() ==> ret@[a] < ret@[b],
    //@ loop_prefix 0 broadcast use lemma_contains_after_push;
    //@ loop 0 invariant
    //@ loop 0     forall|k: int| 0 <= k < indices@.len() ==> (#[trigger] indices@[k]) < index && won(self, message_with_commitment@, sigma, indices@[k]),
    //@ loop 0     forall|i: u64| i < index && won(self, message_with_commitment@, sigma, i) ==> indices@.contains(i),
    //@ loop 0     forall|a: int, b: int| 0 <= a < b < indices@.len() ==> indices@[a] < indices@[b],
    //@ loop 0     index <= self.parameters.m,
    //@end
}

} // verus!
fn main() {}

// C14 (clause "was sealed for an open message ..."; "no signed entity is ever certified twice") — Verus on the working tree's
// text of the aggregator runner's choice of the open message to work on (mithril-aggregator/src/runtime/runner.rs):
//   get_current_open_message_for_signed_entity_type marks the open message expired if it is past its deadline BEFORE reading it;
//   get_current_non_certified_open_message Ok(Some(om)) ==> om is either a NEW open message created (for the protocol message
//   computed for that type) for an available signed entity type that had no open message, or an EXISTING open message that is
//   neither certified nor expired - never a certified or expired one (loop with inductive invariant).
// The certifier service's own contracts are the unit certifier_service.
use vstd::prelude::*;
verus! {

pub struct StdError {}
#[verifier::external_body] pub struct SignedEntityType { _p: core::marker::PhantomData<u8> }
#[verifier::external_body] pub struct ProtocolMessage { _p: core::marker::PhantomData<u8> }
#[verifier::external_body] pub struct TimePoint { _p: core::marker::PhantomData<u8> }
#[verifier::external_body] pub struct OpenMessageId { _p: core::marker::PhantomData<u8> }
pub struct OpenMessage { pub is_certified: bool, pub is_expired: bool, pub id: OpenMessageId }

#[verifier::external_body] pub struct CertifierService { _p: core::marker::PhantomData<u8> }
#[verifier::external_body] pub struct SignableBuilderService { _p: core::marker::PhantomData<u8> }
/// the certifier's answers in this call sequence (its contracts: unit certifier_service)
pub uninterp spec fn stored_open_message(c: &CertifierService, t: &SignedEntityType) -> Option<OpenMessage>;
pub uninterp spec fn expiry_marked(c: &CertifierService, t: &SignedEntityType) -> bool;
pub uninterp spec fn created_open_message(c: &CertifierService, t: &SignedEntityType, m: &ProtocolMessage, om: OpenMessage) -> bool;
pub uninterp spec fn message_for(b: &SignableBuilderService, t: SignedEntityType) -> ProtocolMessage;
impl CertifierService {
    #[verifier::external_body]
    pub fn mark_open_message_if_expired(&self, t: &SignedEntityType) -> (r: Result<Option<OpenMessage>, StdError>) ensures r is Ok ==> expiry_marked(self, t) { unimplemented!() }
    /// reading is only meaningful after the expiry of that type's open message has been recorded (ordering)
    #[verifier::external_body]
    pub fn get_open_message(&self, t: &SignedEntityType) -> (r: Result<Option<OpenMessage>, StdError>)
        requires expiry_marked(self, t)
        ensures r is Ok ==> r->Ok_0 == stored_open_message(self, t)
    { unimplemented!() }
    #[verifier::external_body]
    pub fn create_open_message(&self, t: &SignedEntityType, m: &ProtocolMessage) -> (r: Result<OpenMessage, StdError>) ensures r is Ok ==> created_open_message(self, t, m, r->Ok_0) { unimplemented!() }
}
impl SignedEntityType { #[verifier::external_body] pub fn to_owned(&self) -> (r: Self) ensures r == *self { unimplemented!() } }
impl SignableBuilderService {
    #[verifier::external_body]
    pub fn compute_protocol_message(&self, t: SignedEntityType) -> (r: Result<ProtocolMessage, StdError>) ensures r is Ok ==> r->Ok_0 == message_for(self, t) { unimplemented!() }
}
#[verifier::external_body] pub struct Certificate { _p: core::marker::PhantomData<u8> }
#[derive(Clone, Copy)] pub struct Epoch(pub u64);
pub struct TimePointE { pub epoch: Epoch }
#[verifier::external_body] pub struct EpochServiceA { _p: core::marker::PhantomData<u8> }
#[verifier::external_body] pub struct SignedEntityConfig { _p: core::marker::PhantomData<u8> }
#[verifier::external_body] pub struct Counter { _p: core::marker::PhantomData<u8> }
#[verifier::external_body] pub struct MetricsService { _p: core::marker::PhantomData<u8> }
impl Counter { #[verifier::external_body] pub fn increment(&self) { unimplemented!() } }
impl MetricsService { #[verifier::external_body] pub fn get_certificate_total_produced_since_startup(&self) -> &Counter { unimplemented!() } }
/// the certifier's create_certificate / verify_certificate_chain answers (their contracts: unit certifier_service)
pub uninterp spec fn certificate_created(c: &CertifierService, t: &SignedEntityType) -> Option<Certificate>;
pub uninterp spec fn chain_verified(c: &CertifierService, e: Epoch) -> bool;
/// the signed entity the configuration derives for this type at this time point (C17)
pub uninterp spec fn entity_at(cfg: &SignedEntityConfig, t: &SignedEntityType, tp: &TimePoint) -> SignedEntityType;
pub uninterp spec fn service_config(e: &EpochServiceA) -> SignedEntityConfig;
impl CertifierService {
    #[verifier::external_body]
    pub fn create_certificate(&self, t: &SignedEntityType) -> (r: Result<Option<Certificate>, StdError>) ensures r is Ok ==> r->Ok_0 == certificate_created(self, t) { unimplemented!() }
    #[verifier::external_body]
    pub fn verify_certificate_chain(&self, e: Epoch) -> (r: Result<(), StdError>) ensures r is Ok ==> chain_verified(self, e) { unimplemented!() }
}
impl EpochServiceA {
    #[verifier::external_body]
    pub fn signed_entity_config(&self) -> (r: Result<&SignedEntityConfig, StdError>) ensures r is Ok ==> *r->Ok_0 == service_config(self) { unimplemented!() }
}
impl SignedEntityConfig {
    #[verifier::external_body]
    pub fn time_point_to_signed_entity(&self, t: &SignedEntityType, tp: &TimePoint) -> (r: Result<SignedEntityType, StdError>) ensures r is Ok ==> r->Ok_0 == entity_at(self, t, tp) { unimplemented!() }
}
/// `a != b` on SignedEntityType (derived PartialEq of an opaque type)
#[verifier::external_body]
fn types_differ(a: &SignedEntityType, b: &SignedEntityType) -> (r: bool) ensures r == (*a != *b) { unimplemented!() }
/// `current_open_message.as_ref().map(|om| om.is_expired).unwrap_or(false)`
fn expired_or_false(o: &Option<OpenMessage>) -> (r: bool) ensures r == (o is Some && o->Some_0.is_expired) {
    match o { Some(om) => om.is_expired, None => false }
}
pub struct Dependencies { pub certifier_service: CertifierService, pub signable_builder_service: SignableBuilderService, pub epoch_service: EpochServiceA, pub metrics_service: MetricsService }
pub struct AggregatorRunner { pub dependencies: Dependencies }
pub uninterp spec fn available_types(r: &AggregatorRunner, tp: &TimePoint) -> Seq<SignedEntityType>;

/// what the runner may work on
pub open spec fn workable(r: &AggregatorRunner, tp: &TimePoint, om: OpenMessage) -> bool {
    exists|i: int| 0 <= i < available_types(r, tp).len() && ({
        let t = #[trigger] available_types(r, tp)[i];
        // created now, for a type without open message, for the protocol message computed for that type
        ||| (stored_open_message(&r.dependencies.certifier_service, &t) is None && created_open_message(&r.dependencies.certifier_service, &t, &message_for(&r.dependencies.signable_builder_service, t), om))
        // or existing, and neither certified nor expired
        ||| (stored_open_message(&r.dependencies.certifier_service, &t) == Some(om) && !om.is_certified && !om.is_expired)
    })
}

impl AggregatorRunner {
    /// list_available_signed_entity_types (epoch service configuration + entity locks): contract only
    #[verifier::external_body]
    fn list_available_signed_entity_types(&self, tp: &TimePoint) -> (r: Result<Vec<SignedEntityType>, StdError>) ensures r is Ok ==> r->Ok_0@ == available_types(self, tp) { unimplemented!() }

    //@extract file=mithril-aggregator/src/runtime/runner.rs fn=mark_open_message_if_expired within="impl AggregatorRunnerTrait for AggregatorRunner"
    //@ rewrite /async fn/ => /fn/
    //@ rewrite /\.await/ => //
    //@ rewrite /StdResult<Option<OpenMessage>>/ => /Result<Option<OpenMessage>, StdError>/
    //@ rewrite? /(?s)(?:slog::)?(?:debug|info|warn|trace|error)!\(.*?\);[ \t]*\n/ => //
    //@ rewrite? /\s*\.with_context\(\|\| "[^"]*"\)/ => //
    //@ spec ensures ret is Ok ==> expiry_marked(&self.dependencies.certifier_service, signed_entity_type)
    //@end

    //@extract file=mithril-aggregator/src/runtime/runner.rs fn=get_current_open_message_for_signed_entity_type within="impl AggregatorRunnerTrait for AggregatorRunner"
    //@ rewrite /async fn/ => /fn/
    //@ rewrite /\.await/ => //
    //@ rewrite /StdResult<Option<OpenMessage>>/ => /Result<Option<OpenMessage>, StdError>/
    //@ rewrite? /(?s)(?:slog::)?(?:debug|info|warn|trace|error)!\(.*?\);[ \t]*\n/ => //
    //@ rewrite? /\s*\.with_context\(\|\| format!\("[^"]*"\)\)/ => //
    //@ spec ensures ret is Ok ==> ret->Ok_0 == stored_open_message(&self.dependencies.certifier_service, signed_entity_type)
    //@end

    //@extract file=mithril-aggregator/src/runtime/runner.rs fn=compute_protocol_message within="impl AggregatorRunnerTrait for AggregatorRunner"
    //@ rewrite /async fn/ => /fn/
    //@ rewrite /\.await/ => //
    //@ rewrite /StdResult<ProtocolMessage>/ => /Result<ProtocolMessage, StdError>/
    //@ rewrite? /(?s)(?:slog::)?(?:debug|info|warn|trace|error)!\(.*?\);[ \t]*\n/ => //
    //@ rewrite? /\s*\.with_context\(\|\| format!\("[^"]*"\)\)/ => //
    //@ spec ensures ret is Ok ==> ret->Ok_0 == message_for(&self.dependencies.signable_builder_service, *signed_entity_type)
    //@end

    //@extract file=mithril-aggregator/src/runtime/runner.rs fn=create_open_message within="impl AggregatorRunnerTrait for AggregatorRunner"
    //@ rewrite /async fn/ => /fn/
    //@ rewrite /\.await/ => //
    //@ rewrite /StdResult<OpenMessage>/ => /Result<OpenMessage, StdError>/
    //@ rewrite? /(?s)(?:slog::)?(?:debug|info|warn|trace|error)!\(.*?\);[ \t]*\n/ => //
    //@ spec ensures ret is Ok ==> created_open_message(&self.dependencies.certifier_service, signed_entity_type, protocol_message, ret->Ok_0)
    //@end

    //@extract file=mithril-aggregator/src/runtime/runner.rs fn=is_certificate_chain_valid within="impl AggregatorRunnerTrait for AggregatorRunner"
    //@ rewrite /async fn/ => /fn/
    //@ rewrite /\.await/ => //
    //@ rewrite /time_point: &TimePoint/ => /time_point: &TimePointE/
    //@ rewrite /StdResult<\(\)>/ => /Result<(), StdError>/
    //@ rewrite? /(?s)(?:slog::)?(?:debug|info|warn|trace|error)!\(.*?\);[ \t]*\n/ => //
    //@ rewrite? /(?s)\s*\.with_context\(\|\| "[^"]*"\)/ => //
    //@ spec ensures ret is Ok ==> chain_verified(&self.dependencies.certifier_service, time_point.epoch)
    //@end

    //@extract file=mithril-aggregator/src/runtime/runner.rs fn=create_certificate within="impl AggregatorRunnerTrait for AggregatorRunner"
    //@ rewrite /async fn/ => /fn/
    //@ rewrite /\.await/ => //
    //@ rewrite /StdResult<Option<Certificate>>/ => /Result<Option<Certificate>, StdError>/
    //@ rewrite? /(?s)(?:slog::)?(?:debug|info|warn|trace|error)!\(.*?\);[ \t]*\n/ => //
    //@ rewrite? /(?s)\s*\.with_context\(\|\| \{\s*format!\(.*?\)\s*\}\)/ => //
    //@ spec ensures ret is Ok ==> ret->Ok_0 == certificate_created(&self.dependencies.certifier_service, signed_entity_type)
    //@end

    //@extract file=mithril-aggregator/src/runtime/runner.rs fn=is_open_message_outdated within="impl AggregatorRunnerTrait for AggregatorRunner"
    //@ rewrite /async fn/ => /fn/
    //@ rewrite /(?s)self\s*\.dependencies\s*\.epoch_service\s*\.read\(\)\s*\.await/ => /self.dependencies.epoch_service/
    //@ rewrite /\.await/ => //
    //@ rewrite /StdResult<bool>/ => /Result<bool, StdError>/
    //@ rewrite? /(?s)\s*\.with_context\(\|\| format!\("[^"]*"(?:, \w+)?\)\)/ => //
    //@ rewrite /current_open_message\.as_ref\(\)\.map\(\|om\| om\.is_expired\)\.unwrap_or\(false\)/ => /expired_or_false(&current_open_message)/
    //@ rewrite /new_signed_entity_type != open_message_signed_entity_type/ => /types_differ(&new_signed_entity_type, &open_message_signed_entity_type)/
    //@ spec ensures ret is Ok ==> ret->Ok_0 == (
    //@ spec     // the configuration derives ANOTHER signed entity for this type at the latest time point, or the stored open message has expired
    //@ spec     entity_at(&service_config(&self.dependencies.epoch_service), &open_message_signed_entity_type, last_time_point) != open_message_signed_entity_type
    //@ spec     || (stored_open_message(&self.dependencies.certifier_service, &open_message_signed_entity_type) is Some && stored_open_message(&self.dependencies.certifier_service, &open_message_signed_entity_type)->Some_0.is_expired))
    //@end

    //@extract file=mithril-aggregator/src/runtime/runner.rs fn=get_current_non_certified_open_message within="impl AggregatorRunnerTrait for AggregatorRunner"
    //@ rewrite /async fn/ => /fn/
    //@ rewrite /\.await/ => //
    //@ rewrite /StdResult<Option<OpenMessage>>/ => /Result<Option<OpenMessage>, StdError>/
    //@ rewrite? /(?s)(?:slog::)?(?:debug|info|warn|trace|error)!\(.*?\);[ \t]*\n/ => //
    //@ rewrite? /\s*\.with_context\(\|\| format!\("[^"]*"(?:, \w+)?\)\)/ => //
    //@ rewrite /for signed_entity_type in signed_entity_types \{/ => /for signed_entity_type in it: signed_entity_types.iter() {/
    //@ rewrite /&signed_entity_type\b/ => /signed_entity_type/
    //@ spec ensures ret is Ok && ret->Ok_0 is Some ==> workable(self, current_time_point, ret->Ok_0->Some_0)
    //@ loop 0 invariant 0 <= it.index@ <= signed_entity_types@.len(), signed_entity_types@ == available_types(self, current_time_point),
    //@end
}

} // verus!
fn main() {}

#!/bin/bash
# runs every claimed check's quick (or $1) tier in sequence; prints one line per check
cd "$(dirname "$0")"
TIER=${1:-quick}
for p in $(python3 -c "import json; print(' '.join(c['property_id'] for c in json.load(open('MANIFEST.json'))['checks']))"); do
  ./check $p --tier $TIER > /var/tmp/verif_run_$p.log 2>&1; rc=$?
  echo "$p exit=$rc $(grep -E 'OK:|VIOLATION|UNDECIDED|KNOWN-FINDING|RESOURCE' /var/tmp/verif_run_$p.log | cut -c1-160 | tr '\n' '|')"
done

use mithril_stm::*;
use rand_chacha::ChaCha20Rng;
use rand_core::SeedableRng;

type D = MithrilMembershipDigest;

#[test]
fn duplicate_signature_breaks_aggregation() {
    let params = Parameters { m: 10, k: 3, phi_f: 1.0 };
    let mut rng = ChaCha20Rng::from_seed([0u8; 32]);
    let mut reg = KeyRegistration::initialize();
    let mut inits = vec![];
    for i in 0..2u64 {
        let init = Initializer::new(params, 10 + i, &mut rng);
        reg.register_by_entry(&init.clone().try_into().unwrap()).unwrap();
        inits.push(init);
    }
    let closed = reg.close_registration(&params).unwrap();
    let signers: Vec<Signer<D>> = inits.into_iter().map(|i| i.try_create_signer::<D>(&closed).unwrap()).collect();
    let msg = [7u8; 16];
    let sig = signers[0].create_single_signature(&msg).unwrap();
    let clerk = Clerk::new_clerk_from_signer(&signers[0]);
    let avk = clerk.compute_aggregate_verification_key();
    let one = clerk.aggregate_signatures_with_type(&[sig.clone()], &msg, AggregateSignatureType::Concatenation, AncillaryProofInput::new(None, AncillaryGenesisData::new()));
    println!("single copy: ok={}", one.is_ok());
    let two = clerk.aggregate_signatures_with_type(&[sig.clone(), sig.clone()], &msg, AggregateSignatureType::Concatenation, AncillaryProofInput::new(None, AncillaryGenesisData::new()));
    println!("two copies: ok={} err={:?}", two.is_ok(), two.as_ref().err());
    let _ = avk;
    // index == m acceptance
    let mut forged = sig.clone();
    let mut idx = forged.get_concatenation_signature_indices();
    println!("indices = {:?}", idx);
    idx.push(params.m);
    forged.set_concatenation_signature_indices(&idx);
    let entry = closed.get_registration_entry_for_index(&forged.signer_index).unwrap();
    let r = forged.verify(&params, &entry.get_verification_key_for_concatenation(), &entry.get_stake(), &avk, &msg);
    println!("single sig with index==m verifies: {:?}", r.is_ok());
}

use vstd::prelude::*;
use vstd::arithmetic::div_mod::*;
use vstd::arithmetic::mul::*;
verus! {

// the characterising postcondition, same text as the Kani contract predicate
pub open spec fn post(x: int, s: int, r: int) -> bool { 0 <= r <= x && r % s == 0 && x - r < s }

proof fn lemma_unique(x: int, s: int, r: int)
    requires s >= 1, 0 <= x, post(x, s, r),
    ensures r == (x / s) * s,
{
    lemma_fundamental_div_mod(r, s);            // r == s * (r / s) + r % s
    lemma_fundamental_div_mod(x, s);
    lemma_mod_bound(x, s);
    let q = r / s;
    // x = q*s + (x - r) with 0 <= x - r < s  ==>  x / s == q
    lemma_fundamental_div_mod_converse(x, s, q, x - r);
    lemma_mul_is_commutative(s, q);
}

proof fn lemma_monotone(x1: int, x2: int, s: int, r1: int, r2: int)
    requires s >= 1, 0 <= x1 <= x2, post(x1, s, r1), post(x2, s, r2),
    ensures r1 <= r2,
{
    lemma_unique(x1, s, r1);
    lemma_unique(x2, s, r2);
    lemma_div_is_ordered(x1, x2, s);
    lemma_mul_inequality(x1 / s, x2 / s, s);
}

// transactions entity: s is a positive multiple of 15, result r = b - 1 (b >= 1) ends a block range
proof fn lemma_range_boundary(x: int, s: int, b: int)
    requires s >= 15, s % 15 == 0, 0 <= x, post(x, s, b), x >= s,
    ensures b >= 1, ((b - 1) + 1) % 15 == 0,
{
    lemma_unique(x, s, b);
    lemma_fundamental_div_mod(s, 15);
    lemma_fundamental_div_mod(b, s);
    // b = s * (b/s) = 15 * (s/15) * (b/s)
    assert(b == 15 * ((s / 15) * (b / s))) by {
        lemma_mul_is_associative(15, s / 15, b / s);
    };
    lemma_mod_multiples_basic((s / 15) * (b / s), 15);
    lemma_mul_is_commutative(15, (s / 15) * (b / s));
    // b >= s since x >= s
    lemma_div_is_ordered(s, x, s);
    lemma_div_basics(s);
    lemma_mul_inequality(1, x / s, s);
}

} // verus!
fn main() {}

use vstd::prelude::*;
verus! {

// ---- assumed contract on the dependency: exact rationals (num_rational::Ratio<BigInt>) ----
// View: a pair (num, den) with den > 0, compared/added as mathematical rationals.
pub struct Q { pub n: int, pub d: int }
pub open spec fn wf(q: Q) -> bool { q.d > 0 }
pub open spec fn q_lt(a: Q, b: Q) -> bool { a.n * b.d < b.n * a.d }
pub open spec fn q_eq(a: Q, b: Q) -> bool { a.n * b.d == b.n * a.d }
pub open spec fn q_add(a: Q, b: Q) -> Q { Q { n: a.n * b.d + b.n * a.d, d: a.d * b.d } }
pub open spec fn q_mul(a: Q, b: Q) -> Q { Q { n: a.n * b.n, d: a.d * b.d } }

#[verifier::external_body]
pub struct Ratio { _p: core::marker::PhantomData<u8> }
impl View for Ratio { type V = Q; uninterp spec fn view(&self) -> Q; }

#[verifier::external_body]
pub fn r_clone(a: &Ratio) -> (r: Ratio) ensures r@ == a@ { unimplemented!() }
#[verifier::external_body]
pub fn r_add(a: Ratio, b: Ratio) -> (r: Ratio) requires wf(a@), wf(b@) ensures r@ == q_add(a@, b@), wf(r@) { unimplemented!() }
#[verifier::external_body]
pub fn r_gt(a: &Ratio, b: &Ratio) -> (r: bool) requires wf(a@), wf(b@) ensures r == q_lt(b@, a@) { unimplemented!() }

fn demo(cmp: Ratio, phi: Ratio, err: Ratio) -> (r: bool)
    requires wf(cmp@), wf(phi@), wf(err@),
    ensures r ==> q_lt(q_add(phi@, err@), cmp@),
{
    let s = r_add(r_clone(&phi), r_clone(&err));
    if r_gt(&cmp, &s) { true } else { false }
}

} // verus!
fn main() {}

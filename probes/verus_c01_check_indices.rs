use vstd::prelude::*;
verus! {

pub type LotteryIndex = u64;
pub type Stake = u64;

#[verifier::external_body]
pub struct BlsSignature { _p: core::marker::PhantomData<u8> }

pub struct Parameters { pub m: u64, pub k: u64, pub phi_f: f64 }

pub enum SignatureError { IndexBoundFailed(u64, u64), LotteryLost }

// uninterpreted contracts of the callees
pub uninterp spec fn dense(sigma: &BlsSignature, msg: Seq<u8>, index: u64) -> Seq<u8>;
pub uninterp spec fn lottery(phi_f: f64, ev: Seq<u8>, stake: u64, total: u64) -> bool;

#[verifier::external_body]
fn evaluate_dense_mapping(sigma: &BlsSignature, msg: &[u8], index: LotteryIndex) -> (r: [u8; 64])
    ensures r@ == dense(sigma, msg@, index) { unimplemented!() }
#[verifier::external_body]
fn is_lottery_won(phi_f: f64, ev: [u8; 64], stake: Stake, total_stake: Stake) -> (r: bool)
    ensures r == lottery(phi_f, ev@, stake, total_stake) { unimplemented!() }

pub struct SingleSignatureForConcatenation { pub sigma: BlsSignature, pub indexes: Vec<LotteryIndex> }

pub open spec fn post(s: &SingleSignatureForConcatenation, params: &Parameters, stake: u64, msg: Seq<u8>, total: u64) -> bool {
    forall|j: int| 0 <= j < s.indexes@.len() ==>
        s.indexes@[j] < params.m
        && lottery(params.phi_f, dense(&s.sigma, msg, s.indexes@[j]), stake, total)
}

impl SingleSignatureForConcatenation {
    // ---- extracted text (rewrites: anyhow!(E) -> E ; `for &index in &self.indexes` -> iterator form) ----
    fn check_indices(&self, params: &Parameters, stake: &Stake, msg: &[u8], total_stake: &Stake) -> (r: Result<(), SignatureError>)
        ensures r.is_ok() ==> post(self, params, *stake, msg@, *total_stake),
    {
        for index in it: self.indexes.iter()
            invariant forall|j: int| 0 <= j < it.index@ ==>
                self.indexes@[j] < params.m
                && lottery(params.phi_f, dense(&self.sigma, msg@, self.indexes@[j]), *stake, *total_stake),
        {
            let index = *index;
            if index > params.m {
                return Err(SignatureError::IndexBoundFailed(index, params.m));
            }

            let ev = evaluate_dense_mapping(&self.sigma, msg, index);

            if !is_lottery_won(params.phi_f, ev, *stake, *total_stake) {
                return Err(SignatureError::LotteryLost);
            }
        }
        Ok(())
    }
}

} // verus!
fn main() {}

// C08 — boundary clause "always won when phi_f is 1"; attached (cfg(kani)) to
// mithril-stm/src/proof_system/concatenation/eligibility.rs
use super::*;

/// phi_f == 1.0: won for EVERY draw value, stake and total stake (the function returns before any big-number code)
#[kani::proof]
#[kani::unwind(2)]
fn c08_phi_f_one_always_wins() {
    let ev: [u8; 64] = kani::any();
    let (stake, total): (u64, u64) = (kani::any(), kani::any());
    let r = is_lottery_won(1.0, ev, stake, total);
    assert!(r, "C08 phi_f = 1: the lottery is won for every draw, stake and total stake");
}

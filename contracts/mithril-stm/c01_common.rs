// Shared by the C01 / C02 / C08 harness modules: fabricated (never interpreted) BLS values carrying a tag, and the
// contract stubs for cryptography with a ghost log. Attached (cfg(kani)) as a child module of
// mithril-stm/src/proof_system/concatenation/single_signature.rs
use super::*;
use crate::signature_scheme::BlsVerificationKey;

/// A BLS signature value whose first byte is `tag`. All its consumers are stubbed, so the bytes are never interpreted
/// as a curve point (harness-only unsafe, listed in the trusted base).
pub(crate) fn sig_with_tag(tag: u8) -> BlsSignature {
    let mut raw = [0u8; std::mem::size_of::<BlsSignature>()];
    raw[0] = tag;
    unsafe { std::mem::transmute::<[u8; std::mem::size_of::<BlsSignature>()], BlsSignature>(raw) }
}
pub(crate) fn sig_tag(s: &BlsSignature) -> u8 {
    unsafe { *(s as *const BlsSignature as *const u8) }
}
pub(crate) fn vk_with_tag(tag: u8) -> BlsVerificationKey {
    let mut raw = [0u8; std::mem::size_of::<BlsVerificationKey>()];
    raw[0] = tag;
    unsafe { std::mem::transmute::<[u8; std::mem::size_of::<BlsVerificationKey>()], BlsVerificationKey>(raw) }
}
pub(crate) fn vk_tag(v: &BlsVerificationKey) -> u8 {
    unsafe { *(v as *const BlsVerificationKey as *const u8) }
}

// ---- ghost log of lottery evaluations -----------------------------------------------------------------
#[derive(Clone, Copy, PartialEq, Eq)]
pub(crate) struct LotteryCall {
    pub phi_bits: u64,
    pub sig: u8,        // tag of the signature whose dense mapping was evaluated
    pub msg_len: usize,
    pub msg0: u8,
    pub msg_last: u8,
    pub index: u64,
    pub stake: u64,
    pub total: u64,
    pub won: bool,
}
pub(crate) const LOG_CAP: usize = 4;
pub(crate) static mut LOTTERY_LOG: [Option<LotteryCall>; LOG_CAP] = [None; LOG_CAP];
pub(crate) static mut LOTTERY_N: usize = 0;

/// contract stub of BlsSignature::evaluate_dense_mapping: an injective encoding of (sigma, msg summary, index), i.e. a
/// function of its arguments; the lottery stub decodes it to know what it is being asked about.
pub(crate) fn stub_dense_mapping(s: &BlsSignature, msg: &[u8], index: LotteryIndex) -> [u8; 64] {
    let mut ev = [0u8; 64];
    ev[..8].copy_from_slice(&index.to_le_bytes());
    ev[8] = sig_tag(s);
    ev[9..17].copy_from_slice(&(msg.len() as u64).to_le_bytes());
    ev[17] = if msg.is_empty() { 0 } else { msg[0] };
    ev[18] = if msg.is_empty() { 0 } else { msg[msg.len() - 1] };
    ev
}

/// contract stub of is_lottery_won: an arbitrary boolean per call, recorded in the ghost log.
pub(crate) fn stub_lottery(phi_f: f64, ev: [u8; 64], stake: Stake, total_stake: Stake) -> bool {
    let won: bool = kani::any();
    let mut ix = [0u8; 8];
    ix.copy_from_slice(&ev[..8]);
    let mut ml = [0u8; 8];
    ml.copy_from_slice(&ev[9..17]);
    unsafe {
        if LOTTERY_N < LOG_CAP {
            LOTTERY_LOG[LOTTERY_N] = Some(LotteryCall {
                phi_bits: phi_f.to_bits(),
                sig: ev[8],
                msg_len: u64::from_le_bytes(ml) as usize,
                msg0: ev[17],
                msg_last: ev[18],
                index: u64::from_le_bytes(ix),
                stake,
                total: total_stake,
                won,
            });
        }
        LOTTERY_N += 1;
    }
    won
}

/// "the ghost log contains a WON lottery evaluation for exactly this (phi_f, signature, message, index, stake, total)"
pub(crate) fn lottery_won_logged(phi_f: f64, sig: u8, msg_len: usize, msg0: u8, msg_last: u8, index: u64, stake: u64, total: u64) -> bool {
    let want = LotteryCall { phi_bits: phi_f.to_bits(), sig, msg_len, msg0, msg_last, index, stake, total, won: true };
    let mut found = false;
    let mut i = 0;
    while i < LOG_CAP {
        if unsafe { LOTTERY_LOG[i] } == Some(want) {
            found = true;
        }
        i += 1;
    }
    found
}

// ---- ghost log of single BLS verifications ---------------------------------------------------------------
#[derive(Clone, Copy, PartialEq, Eq)]
pub(crate) struct BlsVerifyCall {
    pub sig: u8,
    pub vk: u8,
    pub msg_len: usize,
    pub msg0: u8,
    pub msg_last: u8,
    pub ok: bool,
}
pub(crate) static mut BLS_VERIFY_LOG: Option<BlsVerifyCall> = None;

/// contract stub of BlsSignature::verify: arbitrary outcome, operands recorded
pub(crate) fn stub_bls_verify(s: &BlsSignature, msg: &[u8], mvk: &BlsVerificationKey) -> StmResult<()> {
    let ok: bool = kani::any();
    unsafe {
        BLS_VERIFY_LOG = Some(BlsVerifyCall {
            sig: sig_tag(s),
            vk: vk_tag(mvk),
            msg_len: msg.len(),
            msg0: if msg.is_empty() { 0 } else { msg[0] },
            msg_last: if msg.is_empty() { 0 } else { msg[msg.len() - 1] },
            ok,
        });
    }
    if ok { Ok(()) } else { Err(anyhow!("bls verify (stub): invalid")) }
}

pub(crate) fn stub_backtrace() -> std::backtrace::Backtrace {
    std::backtrace::Backtrace::disabled()
}

pub(crate) fn stub_format(_args: std::fmt::Arguments<'_>) -> String {
    String::new()
}

pub(crate) fn any_params() -> Parameters {
    let phi_f: f64 = kani::any();
    kani::assume(phi_f > 0.0 && phi_f <= 1.0);
    Parameters { m: kani::any(), k: kani::any(), phi_f }
}

// ---- C01: per-signature obligations ---------------------------------------------------------------------

/// K-bounded twin of the Verus proof of check_indices (2 indices, everything else fully symbolic):
/// Ok ==> every index < m and a WON lottery evaluation was made for that very index, stake and total stake.
#[kani::proof]
#[kani::unwind(6)]
#[kani::stub(crate::signature_scheme::bls_multi_signature::signature::BlsSignature::evaluate_dense_mapping, stub_dense_mapping)]
#[kani::stub(crate::proof_system::concatenation::eligibility::is_lottery_won, stub_lottery)]
#[kani::stub(std::backtrace::Backtrace::capture, stub_backtrace)]
fn c01_check_indices_two_indices() {
    let (i0, i1): (u64, u64) = (kani::any(), kani::any());
    let n: usize = kani::any();
    kani::assume(n <= 2);
    let mut idx = vec![i0, i1];
    idx.truncate(n);
    let s = SingleSignatureForConcatenation::new(sig_with_tag(7), idx);
    let params = any_params();
    let (stake, total): (u64, u64) = (kani::any(), kani::any());
    let msg: [u8; 2] = kani::any();
    let r = s.check_indices(&params, &stake, &msg, &total);
    let ok = r.is_ok();
    std::mem::forget(r);
    if ok {
        kani::cover!(n == 2, "check_indices accepts two indices");
        if n >= 1 {
            assert!(i0 < params.m, "C01 index in [0, m)");
            assert!(lottery_won_logged(params.phi_f, 7, 2, msg[0], msg[1], i0, stake, total), "C01 index genuinely won (stake, total stake, message, this signature)");
        }
        if n >= 2 {
            assert!(i1 < params.m, "C01 index in [0, m)");
            assert!(lottery_won_logged(params.phi_f, 7, 2, msg[0], msg[1], i1, stake, total), "C01 index genuinely won (stake, total stake, message, this signature)");
        }
    }
}

/// SingleSignatureForConcatenation::verify: Ok ==> BLS verification of sigma under THE GIVEN key on msg || avk.root
/// succeeded, and check_indices' postcondition holds for msg || root, the given stake and the avk's total stake.
#[kani::proof]
#[kani::unwind(6)]
#[kani::stub(crate::signature_scheme::bls_multi_signature::signature::BlsSignature::evaluate_dense_mapping, stub_dense_mapping)]
#[kani::stub(crate::signature_scheme::bls_multi_signature::signature::BlsSignature::verify, stub_bls_verify)]
#[kani::stub(crate::proof_system::concatenation::eligibility::is_lottery_won, stub_lottery)]
#[kani::stub(std::backtrace::Backtrace::capture, stub_backtrace)]
#[kani::stub(alloc::fmt::format, stub_format)]
fn c01_single_signature_verify() {
    let i0: u64 = kani::any();
    let s = SingleSignatureForConcatenation::new(sig_with_tag(7), vec![i0]);
    let params = any_params();
    let (stake, total): (u64, u64) = (kani::any(), kani::any());
    let msg: [u8; 1] = kani::any();
    let root: u8 = kani::any();
    let avk = crate::proof_system::concatenation::aggregate_key::verif_c01_avk::make_avk::<crate::MithrilMembershipDigest>(vec![root], 2, total);
    let pk = vk_with_tag(9);
    let r = s.verify(&params, &pk, &stake, &avk, &msg);
    let ok = r.is_ok();
    std::mem::forget(r);
    if ok {
        kani::cover!(true, "single signature accepted");
        let v = unsafe { BLS_VERIFY_LOG };
        assert!(v == Some(BlsVerifyCall { sig: 7, vk: 9, msg_len: 2, msg0: msg[0], msg_last: root, ok: true }),
            "C01 signature valid for msg || commitment root under the claimed key");
        assert!(i0 < params.m, "C01 index in [0, m)");
        assert!(lottery_won_logged(params.phi_f, 7, 2, msg[0], root, i0, stake, total), "C01 index genuinely won for msg || root with the given stake and the avk's total stake");
    }
}

// harness-only constructor of RegistrationEntry (private tuple fields; the public constructor verifies the proof of
// possession, which is blst FFI). Attached to mithril-stm/src/protocol/key_registration/registration_entry.rs
use super::*;
pub(crate) fn make(vk: VerificationKeyForConcatenation, stake: Stake) -> RegistrationEntry {
    RegistrationEntry(vk, stake)
}

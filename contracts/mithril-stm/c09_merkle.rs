// C09 — STM Merkle tree: generate/verify contracts on the REAL generic code (MerkleTree<D, L>, MerkleTreeBatchCommitment<D, L>)
// monomorphised at an IDEAL hash D: a digest::Digest implementation backed by a ghost table - equal inputs give equal
// outputs, different inputs different outputs (collision-freeness is the assumption; everything else is executed).
// Attached (cfg(kani)) as a child module of mithril-stm/src/membership_commitment/merkle_tree/commitment.rs.
use super::*;
use crate::membership_commitment::{MerkleBatchPath, MerkleTree, MerkleTreeLeaf};
use digest::{FixedOutput, HashMarker, Output, OutputSizeUser, Update, consts::U8};

const IN_CAP: usize = 17; // longest input: two 8-byte digests (a 17th byte is kept to detect longer inputs)
const TABLE_CAP: usize = 13;

/// hash input packed into integers (first 16 bytes little-endian in `lo`, a 17th byte in `hi`): comparisons are integer
/// equalities, no byte loops
#[derive(Clone, Copy, PartialEq, Eq)]
struct Entry {
    len: usize,
    lo: u128,
    hi: u8,
    out: u64,
}
static mut TABLE: [Option<Entry>; TABLE_CAP] = [None; TABLE_CAP];
static mut TABLE_N: usize = 0;
static mut OVERFLOW: bool = false;

/// the ideal hash: a function (memoised) that never collides (fresh output for each new input)
fn oracle(len: usize, lo: u128, hi: u8) -> u64 {
    unsafe {
        let mut i = 0;
        while i < TABLE_CAP {
            if i < TABLE_N {
                if let Some(e) = TABLE[i] {
                    if e.len == len && e.lo == lo && e.hi == hi {
                        return e.out;
                    }
                }
            }
            i += 1;
        }
        if TABLE_N >= TABLE_CAP {
            OVERFLOW = true;
            return 0;
        }
        let out = 0x1000 + TABLE_N as u64;
        TABLE[TABLE_N] = Some(Entry { len, lo, hi, out });
        TABLE_N += 1;
        out
    }
}

#[derive(Clone)]
pub(crate) struct IdealHash {
    len: usize,
    lo: u128,
    hi: u8,
}
impl Default for IdealHash {
    fn default() -> Self {
        IdealHash { len: 0, lo: 0, hi: 0 }
    }
}
impl HashMarker for IdealHash {}
impl OutputSizeUser for IdealHash {
    type OutputSize = U8;
}
impl Update for IdealHash {
    fn update(&mut self, d: &[u8]) {
        let mut i = 0;
        while i < d.len() {
            if self.len < 16 {
                self.lo |= (d[i] as u128) << (8 * self.len);
            } else if self.len == 16 {
                self.hi = d[i];
            } else {
                unsafe { OVERFLOW = true };
            }
            self.len += 1;
            i += 1;
        }
    }
}
impl FixedOutput for IdealHash {
    fn finalize_into(self, out: &mut Output<Self>) {
        let o = oracle(self.len, self.lo, self.hi);
        out.copy_from_slice(&o.to_le_bytes());
    }
}

#[derive(Clone, Copy, PartialEq, Eq)]
pub(crate) struct Leaf(u8);
impl MerkleTreeLeaf for Leaf {
    // two bytes, like every real leaf type an encoding that is never the single byte 0: `MerkleTree::new` pads the leaf
    // level with D::digest([0u8]), and the verifier does not compare wire indices with the number of leaves, so a leaf TYPE
    // that could encode to [0] would let the padding slot be claimed (first version of this harness: false alarm at n = 3,
    // index 3). The real leaf types encode to 104 bytes and more (stated as an assumption of C09).
    fn as_bytes_for_merkle_tree(&self) -> Vec<u8> {
        vec![0xA5, self.0]
    }
}

fn stub_backtrace() -> std::backtrace::Backtrace {
    std::backtrace::Backtrace::disabled()
}
fn stub_format(_args: std::fmt::Arguments<'_>) -> String {
    String::new()
}
/// `proof.to_bytes()` is only used to decorate the error value (CBOR); not part of the acceptance decision
fn stub_to_cbor<T: serde::Serialize>(_v: &T) -> StmResult<Vec<u8>> {
    Ok(Vec::new())
}

const N_MAX: usize = 4;

fn any_leaves(n: usize) -> Vec<Leaf> {
    let raw: [u8; N_MAX] = kani::any();
    let mut v = Vec::new();
    let mut i = 0;
    while i < N_MAX {
        if i < n {
            v.push(Leaf(raw[i]));
        }
        i += 1;
    }
    v
}

macro_rules! c09_harness {
    ($(#[$m:meta])* fn $name:ident() $body:block) => {
        #[kani::proof]
        #[kani::stub(std::backtrace::Backtrace::capture, stub_backtrace)]
        #[kani::stub(alloc::fmt::format, stub_format)]
        #[kani::stub(crate::codec::to_cbor_bytes, stub_to_cbor)]
        $(#[$m])*
        fn $name() $body
    };
}

/// completeness: for the tree of `n` symbolic leaves and the (concrete) non-empty selection `mask`, the generated batch
/// proof verifies against the commitment. Shapes (n, mask) are enumerated by the harness list below: symbolic container
/// sizes make CBMC's allocation reasoning explode, symbolic CONTENTS do not.
fn check_completeness(n: usize, mask: u8) {
    let leaves = any_leaves(n);
    let tree = MerkleTree::<IdealHash, Leaf>::new(&leaves);
    let commitment = tree.to_merkle_tree_batch_commitment();
    let mut idx = Vec::new();
    let mut sel = Vec::new();
    let mut i = 0;
    while i < N_MAX {
        if i < n && (mask >> i) & 1 == 1 {
            idx.push(i);
            sel.push(leaves[i]);
        }
        i += 1;
    }
    let proof = tree.compute_merkle_tree_batch_path(idx);
    let r = commitment.verify_leaves_membership_from_batch_path(&sel, &proof);
    let ok = r.is_ok();
    std::mem::forget(r);
    kani::cover!(true, "reachable");
    assert!(!unsafe { OVERFLOW }, "harness: ideal-hash table large enough");
    assert!(ok, "C09 completeness: the generated batch proof verifies against the commitment");
}

/// soundness: an ARBITRARY proof object of the given SHAPE (k claimed leaves at the concrete wire indices i0, i1; nvals
/// path values) with symbolic CONTENTS (path values, claimed leaves, committed leaves) verifies only if the indices are
/// strictly increasing, in range, and every claimed leaf is the committed leaf at the position stated. Symbolic indices
/// drive the number of levels walked and the container sizes and do not terminate in CBMC; index values are enumerated.
fn check_soundness(n: usize, k: usize, nvals: usize, i0: usize, i1: usize) {
    let leaves = any_leaves(n);
    let tree = MerkleTree::<IdealHash, Leaf>::new(&leaves);
    let commitment = tree.to_merkle_tree_batch_commitment();
    let raw_idx: [usize; 2] = [i0, i1];
    let raw_claim: [u8; 2] = kani::any();
    let raw_vals: [u64; 3] = kani::any();
    let mut idx = Vec::new();
    let mut claimed = Vec::new();
    let mut i = 0;
    while i < 2 {
        if i < k {
            idx.push(raw_idx[i]);
            claimed.push(Leaf(raw_claim[i]));
        }
        i += 1;
    }
    let mut vals = Vec::new();
    let mut i = 0;
    while i < 3 {
        if i < nvals {
            vals.push(raw_vals[i].to_le_bytes().to_vec());
        }
        i += 1;
    }
    let proof = MerkleBatchPath::<IdealHash>::new(vals, idx);
    let r = commitment.verify_leaves_membership_from_batch_path(&claimed, &proof);
    let ok = r.is_ok();
    std::mem::forget(r);
    kani::cover!(true, "reachable");
    assert!(!unsafe { OVERFLOW }, "harness: ideal-hash table large enough");
    if ok {
        let mut j = 0;
        while j < 2 {
            if j < k {
                assert!(raw_idx[j] < n, "C09 soundness: accepted index within the committed leaves");
                assert!(raw_claim[j] == leaves[raw_idx[j]].0, "C09 soundness: accepted leaf is the committed leaf at the stated position");
            }
            j += 1;
        }
        if k == 2 {
            assert!(raw_idx[0] < raw_idx[1], "C09 soundness: accepted indices strictly increasing (no duplicates)");
        }
    }
}

/// the number of vouched items is bound to the proof: a proof for `ki` indices presented with `kc != ki` claimed leaves is
/// rejected whatever the contents
fn check_length_binding(n: usize, ki: usize, kc: usize, nvals: usize) {
    let leaves = any_leaves(n);
    let tree = MerkleTree::<IdealHash, Leaf>::new(&leaves);
    let commitment = tree.to_merkle_tree_batch_commitment();
    let raw_claim: [u8; 3] = kani::any();
    let raw_vals: [u64; 3] = kani::any();
    let mut idx = Vec::new();
    let mut i = 0;
    while i < 2 {
        if i < ki {
            idx.push(i);
        }
        i += 1;
    }
    let mut claimed = Vec::new();
    let mut i = 0;
    while i < 3 {
        if i < kc {
            claimed.push(Leaf(raw_claim[i]));
        }
        i += 1;
    }
    let mut vals = Vec::new();
    let mut i = 0;
    while i < 3 {
        if i < nvals {
            vals.push(raw_vals[i].to_le_bytes().to_vec());
        }
        i += 1;
    }
    let proof = MerkleBatchPath::<IdealHash>::new(vals, idx);
    let r = commitment.verify_leaves_membership_from_batch_path(&claimed, &proof);
    let ok = r.is_ok();
    std::mem::forget(r);
    kani::cover!(true, "reachable");
    assert!(!ok, "C09 soundness: the number of claimed leaves is bound to the number of proof indices");
}

c09_harness! { #[kani::unwind(15)] fn c09_length_binding_n2_i1_c2() { check_length_binding(2, 1, 2, 1) } }
c09_harness! { #[kani::unwind(15)] fn c09_length_binding_n2_i2_c1() { check_length_binding(2, 2, 1, 0) } }
c09_harness! { #[kani::unwind(15)] fn c09_length_binding_n3_i1_c2() { check_length_binding(3, 1, 2, 2) } }

macro_rules! c09_completeness { ($($name:ident = ($n:expr, $mask:expr)),* $(,)?) => { $( c09_harness! { #[kani::unwind(15)] fn $name() { check_completeness($n, $mask) } } )* }; }
macro_rules! c09_soundness { ($($name:ident = ($n:expr, $k:expr, $v:expr, $i0:expr, $i1:expr)),* $(,)?) => { $( c09_harness! { #[kani::unwind(15)] fn $name() { check_soundness($n, $k, $v, $i0, $i1) } } )* }; }

c09_soundness!(
    // n = 2, one claimed leaf, the honest number of path values (1): in-range and out-of-range positions
    c09_soundness_n2_k1_v1_i0 = (2, 1, 1, 0, 0), c09_soundness_n2_k1_v1_i1 = (2, 1, 1, 1, 0), c09_soundness_n2_k1_v1_i2 = (2, 1, 1, 2, 0),
    c09_soundness_n2_k1_v0_i0 = (2, 1, 0, 0, 0), c09_soundness_n2_k1_v2_i1 = (2, 1, 2, 1, 0),
    // n = 2, two claimed leaves: honest order, swapped, duplicated, out of range; with and without a (superfluous) path value
    c09_soundness_n2_k2_v0_i01 = (2, 2, 0, 0, 1), c09_soundness_n2_k2_v0_i10 = (2, 2, 0, 1, 0), c09_soundness_n2_k2_v0_i00 = (2, 2, 0, 0, 0),
    c09_soundness_n2_k2_v0_i11 = (2, 2, 0, 1, 1), c09_soundness_n2_k2_v0_i02 = (2, 2, 0, 0, 2),
    c09_soundness_n2_k2_v2_i00 = (2, 2, 2, 0, 0), c09_soundness_n2_k2_v2_i11 = (2, 2, 2, 1, 1), c09_soundness_n2_k2_v1_i01 = (2, 2, 1, 0, 1),
    // n = 3 (padding node next to leaf 2)
    c09_soundness_n3_k1_v2_i0 = (3, 1, 2, 0, 0), c09_soundness_n3_k1_v2_i2 = (3, 1, 2, 2, 0), c09_soundness_n3_k1_v1_i2 = (3, 1, 1, 2, 0), c09_soundness_n3_k1_v2_i3 = (3, 1, 2, 3, 0),
    c09_soundness_n3_k2_v1_i01 = (3, 2, 1, 0, 1), c09_soundness_n3_k2_v1_i23 = (3, 2, 1, 2, 3), c09_soundness_n3_k2_v2_i02 = (3, 2, 2, 0, 2), c09_soundness_n3_k2_v3_i22 = (3, 2, 3, 2, 2),
);

c09_completeness!(
    c09_completeness_n1_m1 = (1, 1),
    c09_completeness_n2_m1 = (2, 1), c09_completeness_n2_m2 = (2, 2), c09_completeness_n2_m3 = (2, 3),
    c09_completeness_n3_m1 = (3, 1), c09_completeness_n3_m2 = (3, 2), c09_completeness_n3_m3 = (3, 3), c09_completeness_n3_m4 = (3, 4),
    c09_completeness_n3_m5 = (3, 5), c09_completeness_n3_m6 = (3, 6), c09_completeness_n3_m7 = (3, 7),
    c09_completeness_n4_m5 = (4, 5), c09_completeness_n4_m10 = (4, 10), c09_completeness_n4_m15 = (4, 15),
);

/// Kani twin of the Verus unit heap_index on the real index helpers, loop-free over the whole usize domain (complete):
/// children have their node as parent, siblings share their parent, sibling is an involution, parity <=> left/right child
#[kani::proof]
fn c09_heap_index_laws_all_indices() {
    use super::super::{left_child, parent, right_child, sibling};
    let i: usize = kani::any();
    kani::assume(i < (usize::MAX - 2) / 2);
    let (l, r) = (left_child(i), right_child(i));
    assert!(l == 2 * i + 1 && r == 2 * i + 2, "C09 children positions");
    assert!(parent(l) == i && parent(r) == i, "C09 parent of both children is the node");
    assert!(sibling(l) == r && sibling(r) == l, "C09 the two children are siblings");
    if i > 0 {
        let s = sibling(i);
        assert!(s != i && s > 0 && sibling(s) == i, "C09 sibling is an involution");
        assert!(parent(s) == parent(i), "C09 siblings share their parent");
        assert!((i % 2 == 1) == (left_child(parent(i)) == i), "C09 odd index <=> left child");
        assert!((i % 2 == 0) == (right_child(parent(i)) == i), "C09 even index <=> right child");
        assert!(parent(i) < i, "C09 parent is closer to the root");
    }
}

// C09 — STM Merkle tree: generate/verify contracts on the REAL generic code (MerkleTree<D, L>, MerkleTreeBatchCommitment<D, L>)
// monomorphised at an IDEAL hash D: a digest::Digest implementation backed by a ghost table - equal inputs give equal
// outputs, different inputs different outputs (collision-freeness is the assumption; everything else is executed).
// Attached (cfg(kani)) as a child module of mithril-stm/src/membership_commitment/merkle_tree/commitment.rs.
use super::*;
use crate::membership_commitment::{MerkleBatchPath, MerkleTree, MerkleTreeLeaf};
use digest::{FixedOutput, HashMarker, Output, OutputSizeUser, Update, consts::U2};

const IN_CAP: usize = 5; // longest input: two 2-byte digests (short digests keep every byte loop short)
const TABLE_CAP: usize = 16;

#[derive(Clone, Copy, PartialEq, Eq)]
struct Entry {
    len: usize,
    data: [u8; IN_CAP],
    out: u16,
}
static mut TABLE: [Option<Entry>; TABLE_CAP] = [None; TABLE_CAP];
static mut TABLE_N: usize = 0;
static mut OVERFLOW: bool = false;

/// the ideal hash: a function (memoised) that never collides (fresh output for each new input).
/// Written without a loop (table slots compared by straight-line code) so that no unwinding bound applies to it.
fn oracle(len: usize, data: [u8; IN_CAP]) -> u16 {
    macro_rules! slot {
        ($i:expr) => {
            if $i < unsafe { TABLE_N } {
                if let Some(e) = unsafe { TABLE[$i] } {
                    if e.len == len && e.data == data {
                        return e.out;
                    }
                }
            }
        };
    }
    slot!(0); slot!(1); slot!(2); slot!(3); slot!(4); slot!(5); slot!(6); slot!(7);
    slot!(8); slot!(9); slot!(10); slot!(11); slot!(12); slot!(13); slot!(14); slot!(15);
    unsafe {
        if TABLE_N >= TABLE_CAP {
            OVERFLOW = true;
            return 0;
        }
        let out = 0x100 + TABLE_N as u16;
        TABLE[TABLE_N] = Some(Entry { len, data, out });
        TABLE_N += 1;
        out
    }
}

#[derive(Clone)]
pub(crate) struct IdealHash {
    len: usize,
    data: [u8; IN_CAP],
}
impl Default for IdealHash {
    fn default() -> Self {
        IdealHash { len: 0, data: [0; IN_CAP] }
    }
}
impl HashMarker for IdealHash {}
impl OutputSizeUser for IdealHash {
    type OutputSize = U2;
}
impl Update for IdealHash {
    fn update(&mut self, d: &[u8]) {
        let mut i = 0;
        while i < d.len() {
            if self.len < IN_CAP {
                self.data[self.len] = d[i];
            } else {
                unsafe { OVERFLOW = true };
            }
            self.len += 1;
            i += 1;
        }
    }
}
impl FixedOutput for IdealHash {
    fn finalize_into(self, out: &mut Output<Self>) {
        let o = oracle(self.len, self.data);
        out.copy_from_slice(&o.to_le_bytes());
    }
}

#[derive(Clone, Copy, PartialEq, Eq)]
pub(crate) struct Leaf(u8);
impl MerkleTreeLeaf for Leaf {
    fn as_bytes_for_merkle_tree(&self) -> Vec<u8> {
        vec![self.0]
    }
}

fn stub_backtrace() -> std::backtrace::Backtrace {
    std::backtrace::Backtrace::disabled()
}
fn stub_format(_args: std::fmt::Arguments<'_>) -> String {
    String::new()
}
/// `proof.to_bytes()` is only used to decorate the error value (CBOR); not part of the acceptance decision
fn stub_to_cbor<T: serde::Serialize>(_v: &T) -> StmResult<Vec<u8>> {
    Ok(Vec::new())
}

const N_MAX: usize = 4;

fn any_leaves(n: usize) -> Vec<Leaf> {
    let raw: [u8; N_MAX] = kani::any();
    let mut v = Vec::new();
    let mut i = 0;
    while i < N_MAX {
        if i < n {
            v.push(Leaf(raw[i]));
        }
        i += 1;
    }
    v
}

macro_rules! c09_harness {
    ($(#[$m:meta])* fn $name:ident() $body:block) => {
        #[kani::proof]
        #[kani::stub(std::backtrace::Backtrace::capture, stub_backtrace)]
        #[kani::stub(alloc::fmt::format, stub_format)]
        #[kani::stub(crate::codec::to_cbor_bytes, stub_to_cbor)]
        $(#[$m])*
        fn $name() $body
    };
}

/// completeness: for every tree size n <= N_MAX and every non-empty sorted selection of leaves the generated batch proof
/// verifies against the commitment
fn check_completeness(n: usize) {
    let leaves = any_leaves(n);
    let tree = MerkleTree::<IdealHash, Leaf>::new(&leaves);
    let commitment = tree.to_merkle_tree_batch_commitment();
    let mask: u8 = kani::any();
    kani::assume(mask != 0 && (mask as usize) < (1usize << n));
    let mut idx = Vec::new();
    let mut sel = Vec::new();
    let mut i = 0;
    while i < N_MAX {
        if i < n && (mask >> i) & 1 == 1 {
            idx.push(i);
            sel.push(leaves[i]);
        }
        i += 1;
    }
    let proof = tree.compute_merkle_tree_batch_path(idx);
    let r = commitment.verify_leaves_membership_from_batch_path(&sel, &proof);
    let ok = r.is_ok();
    std::mem::forget(r);
    kani::cover!(sel.len() == 2, "two leaves selected");
    assert!(!unsafe { OVERFLOW }, "harness: ideal-hash table large enough");
    assert!(ok, "C09 completeness: the generated batch proof verifies against the commitment");
}

/// soundness: an ARBITRARY proof object (symbolic path values, symbolic indices) and arbitrary claimed leaves verify only
/// if the indices are strictly increasing, in range, and every claimed leaf is the committed leaf at the position stated
fn check_soundness(n: usize, k: usize, nvals: usize) {
    let leaves = any_leaves(n);
    let tree = MerkleTree::<IdealHash, Leaf>::new(&leaves);
    let commitment = tree.to_merkle_tree_batch_commitment();
    // arbitrary proof
    let raw_idx: [usize; 2] = kani::any();
    let raw_claim: [u8; 2] = kani::any();
    let raw_vals: [u16; 3] = kani::any();
    // keep the index arithmetic `i + next_power_of_two - 1` from overflowing (decided separately, C05)
    kani::assume(raw_idx[0] < 64 && raw_idx[1] < 64);
    let mut idx = Vec::new();
    let mut claimed = Vec::new();
    let mut i = 0;
    while i < 2 {
        if i < k {
            idx.push(raw_idx[i]);
            claimed.push(Leaf(raw_claim[i]));
        }
        i += 1;
    }
    let mut vals = Vec::new();
    let mut i = 0;
    while i < 3 {
        if i < nvals {
            vals.push(raw_vals[i].to_le_bytes().to_vec());
        }
        i += 1;
    }
    let proof = MerkleBatchPath::<IdealHash>::new(vals, idx);
    let r = commitment.verify_leaves_membership_from_batch_path(&claimed, &proof);
    let ok = r.is_ok();
    std::mem::forget(r);
    assert!(!unsafe { OVERFLOW }, "harness: ideal-hash table large enough");
    if ok {
        kani::cover!(true, "some proof is accepted");
        let mut j = 0;
        while j < 2 {
            if j < k {
                assert!(raw_idx[j] < n, "C09 soundness: accepted index within the committed leaves");
                assert!(raw_claim[j] == leaves[raw_idx[j]].0, "C09 soundness: accepted leaf is the committed leaf at the stated position");
            }
            j += 1;
        }
        if k == 2 {
            assert!(raw_idx[0] < raw_idx[1], "C09 soundness: accepted indices strictly increasing (no duplicates)");
        }
    }
}

c09_harness! { #[kani::unwind(8)] fn c09_completeness_n1() { check_completeness(1) } }
c09_harness! { #[kani::unwind(8)] fn c09_completeness_n2() { check_completeness(2) } }
c09_harness! { #[kani::unwind(8)] fn c09_completeness_n3() { check_completeness(3) } }
c09_harness! { #[kani::unwind(8)] fn c09_completeness_n4() { check_completeness(4) } }
c09_harness! { #[kani::unwind(8)] fn c09_soundness_n2_k1() { check_soundness(2, 1, kani::any::<u8>() as usize % 3) } }
c09_harness! { #[kani::unwind(8)] fn c09_soundness_n3_k1() { check_soundness(3, 1, kani::any::<u8>() as usize % 4) } }
c09_harness! { #[kani::unwind(8)] fn c09_soundness_n3_k2() { check_soundness(3, 2, kani::any::<u8>() as usize % 4) } }
c09_harness! { #[kani::unwind(8)] fn c09_soundness_n4_k2() { check_soundness(4, 2, kani::any::<u8>() as usize % 4) } }

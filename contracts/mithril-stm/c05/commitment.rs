// C05 — MerkleTreeBatchCommitment::from_bytes_legacy and the wire-index arithmetic of
// verify_leaves_membership_from_batch_path; attached to mithril-stm/src/membership_commitment/merkle_tree/commitment.rs
use super::*;
use crate::membership_commitment::MerkleTreeConcatenationLeaf as Leaf;
type H = <crate::MithrilMembershipDigest as crate::MembershipDigest>::ConcatenationHash;
include!("common.inc");

never_panics!(c05_batch_commitment_legacy_len0, 0, 3, MerkleTreeBatchCommitment::<H, Leaf>::from_bytes_legacy);
never_panics!(c05_batch_commitment_legacy_len8, 8, 3, MerkleTreeBatchCommitment::<H, Leaf>::from_bytes_legacy);
never_panics!(c05_batch_commitment_legacy_len40, 40, 3, MerkleTreeBatchCommitment::<H, Leaf>::from_bytes_legacy);
never_panics!(c05_batch_commitment_dispatch_len9, 9, 3, MerkleTreeBatchCommitment::<H, Leaf>::from_bytes);

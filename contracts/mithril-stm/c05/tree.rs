// C05 — MerkleTree::from_bytes_legacy; attached to mithril-stm/src/membership_commitment/merkle_tree/tree.rs
use super::*;
use crate::membership_commitment::MerkleTreeConcatenationLeaf as Leaf;
type H = <crate::MithrilMembershipDigest as crate::MembershipDigest>::ConcatenationHash;
include!("common.inc");

never_panics!(c05_merkle_tree_legacy_len0, 0, 3, MerkleTree::<H, Leaf>::from_bytes_legacy);
never_panics!(c05_merkle_tree_legacy_len8, 8, 3, MerkleTree::<H, Leaf>::from_bytes_legacy);
never_panics!(c05_merkle_tree_legacy_len40, 40, 4, MerkleTree::<H, Leaf>::from_bytes_legacy);

// C05 — contract stubs shared by every decoder harness (one stub set => one Kani compilation). Attached (cfg(kani)) as a
// child module of mithril-stm/src/codec.rs
use crate::membership_commitment::MerkleBatchPath;
use crate::signature_scheme::{BlsSignature, BlsVerificationKey};
use crate::{ClosedRegistrationEntry, MembershipDigest, SingleSignature, SingleSignatureWithRegisteredParty, StmResult};

pub(crate) fn stub_backtrace() -> std::backtrace::Backtrace {
    std::backtrace::Backtrace::disabled()
}
/// ciborium is an external crate: "returns Ok or Err, never panics" is an assumed contract; the CBOR branch is not entered
pub(crate) fn stub_from_cbor<T: serde::de::DeserializeOwned>(_bytes: &[u8]) -> StmResult<T> {
    Err(anyhow::anyhow!("cbor (stub)"))
}
/// nested decoders (their own harnesses decide them): arbitrary outcome, never panic
pub(crate) fn stub_sig_reg_from_bytes<D: MembershipDigest>(_bytes: &[u8]) -> StmResult<SingleSignatureWithRegisteredParty> {
    Err(anyhow::anyhow!("sig_reg (stub)"))
}
pub(crate) fn stub_batch_path_from_bytes<D: digest::Digest + digest::FixedOutput>(_bytes: &[u8]) -> StmResult<MerkleBatchPath<D>> {
    if kani::any() { Ok(MerkleBatchPath::new(vec![], vec![])) } else { Err(anyhow::anyhow!("path (stub)")) }
}
pub(crate) fn stub_entry_from_bytes(_bytes: &[u8]) -> StmResult<ClosedRegistrationEntry> {
    if kani::any() {
        let vk: crate::VerificationKeyForConcatenation = unsafe { std::mem::zeroed() };
        Ok(ClosedRegistrationEntry::new(vk, kani::any()))
    } else {
        Err(anyhow::anyhow!("entry (stub)"))
    }
}
pub(crate) fn stub_sig_from_bytes<D: MembershipDigest>(_bytes: &[u8]) -> StmResult<SingleSignature> {
    Err(anyhow::anyhow!("sig (stub)"))
}
/// blst point validation (FFI): arbitrary outcome, never panics (assumed)
pub(crate) fn stub_bls_sig_from_bytes(_bytes: &[u8]) -> StmResult<BlsSignature> {
    if kani::any() { Ok(unsafe { std::mem::zeroed() }) } else { Err(anyhow::anyhow!("bls (stub)")) }
}
pub(crate) fn stub_vk_from_bytes(_bytes: &[u8]) -> StmResult<BlsVerificationKey> {
    if kani::any() { Ok(unsafe { std::mem::zeroed() }) } else { Err(anyhow::anyhow!("bls vk (stub)")) }
}

// C05 — MerkleBatchPath / MerklePath ::from_bytes_legacy; attached to mithril-stm/src/membership_commitment/merkle_tree/path.rs
use super::*;
type H = <crate::MithrilMembershipDigest as crate::MembershipDigest>::ConcatenationHash;
include!("common.inc");

never_panics!(c05_batch_path_legacy_len0, 0, 4, MerkleBatchPath::<H>::from_bytes_legacy);
never_panics!(c05_batch_path_legacy_len16, 16, 4, MerkleBatchPath::<H>::from_bytes_legacy);
never_panics!(c05_batch_path_legacy_len24, 24, 5, MerkleBatchPath::<H>::from_bytes_legacy);
never_panics!(c05_batch_path_legacy_len56, 56, 6, MerkleBatchPath::<H>::from_bytes_legacy);
// MerklePath (single path) is only compiled with the future_snark feature: not covered

// C05 — SingleSignatureWithRegisteredParty::from_bytes_legacy; attached to
// mithril-stm/src/protocol/single_signature/signature_registered_party.rs
use super::*;
use crate::MithrilMembershipDigest as MD;
include!("common.inc");


never_panics_sig_reg!(c05_sig_reg_legacy_len0, 0, 3, SingleSignatureWithRegisteredParty::from_bytes_legacy::<MD>);
never_panics_sig_reg!(c05_sig_reg_legacy_len8, 8, 3, SingleSignatureWithRegisteredParty::from_bytes_legacy::<MD>);
never_panics_sig_reg!(c05_sig_reg_legacy_len24, 24, 3, SingleSignatureWithRegisteredParty::from_bytes_legacy::<MD>);
never_panics_sig_reg!(c05_sig_reg_dispatch_len9, 9, 3, SingleSignatureWithRegisteredParty::from_bytes::<MD>);

// C05 — SingleSignatureWithRegisteredParty::from_bytes_legacy; attached to
// mithril-stm/src/protocol/single_signature/signature_registered_party.rs
use super::*;
use crate::MithrilMembershipDigest as MD;
include!("common.inc");

fn stub_entry_from_bytes(_bytes: &[u8]) -> StmResult<ClosedRegistrationEntry> {
    if kani::any() {
        let vk: crate::VerificationKeyForConcatenation = unsafe { std::mem::zeroed() };
        Ok(ClosedRegistrationEntry::new(vk, kani::any()))
    } else {
        Err(anyhow::anyhow!("entry (stub)"))
    }
}
fn stub_sig_from_bytes<D: MembershipDigest>(_bytes: &[u8]) -> StmResult<SingleSignature> {
    Err(anyhow::anyhow!("sig (stub)"))
}

never_panics!(c05_sig_reg_legacy_len0, 0, 3, SingleSignatureWithRegisteredParty::from_bytes_legacy::<MD>,
    kani::stub(crate::protocol::key_registration::closed_registration_entry::ClosedRegistrationEntry::from_bytes, stub_entry_from_bytes),
    kani::stub(crate::protocol::single_signature::signature::SingleSignature::from_bytes, stub_sig_from_bytes));
never_panics!(c05_sig_reg_legacy_len8, 8, 3, SingleSignatureWithRegisteredParty::from_bytes_legacy::<MD>,
    kani::stub(crate::protocol::key_registration::closed_registration_entry::ClosedRegistrationEntry::from_bytes, stub_entry_from_bytes),
    kani::stub(crate::protocol::single_signature::signature::SingleSignature::from_bytes, stub_sig_from_bytes));
never_panics!(c05_sig_reg_legacy_len24, 24, 3, SingleSignatureWithRegisteredParty::from_bytes_legacy::<MD>,
    kani::stub(crate::protocol::key_registration::closed_registration_entry::ClosedRegistrationEntry::from_bytes, stub_entry_from_bytes),
    kani::stub(crate::protocol::single_signature::signature::SingleSignature::from_bytes, stub_sig_from_bytes));
never_panics!(c05_sig_reg_dispatch_len9, 9, 3, SingleSignatureWithRegisteredParty::from_bytes::<MD>,
    kani::stub(crate::protocol::key_registration::closed_registration_entry::ClosedRegistrationEntry::from_bytes, stub_entry_from_bytes),
    kani::stub(crate::protocol::single_signature::signature::SingleSignature::from_bytes, stub_sig_from_bytes));

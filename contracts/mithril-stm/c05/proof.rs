// C05 — ConcatenationProof::from_bytes_legacy; attached (cfg(kani)) to mithril-stm/src/proof_system/concatenation/proof.rs
use super::*;
use crate::MithrilMembershipDigest as MD;
include!("common.inc");

/// callee contracts (their own harnesses: sig_reg.rs, path.rs): arbitrary outcome, never panic
fn stub_sig_reg_from_bytes<D: MembershipDigest>(_bytes: &[u8]) -> StmResult<SingleSignatureWithRegisteredParty> {
    Err(anyhow!("sig_reg (stub)"))
}
fn stub_batch_path_from_bytes<D: digest::Digest + digest::FixedOutput>(_bytes: &[u8]) -> StmResult<MerkleBatchPath<D>> {
    if kani::any() { Ok(MerkleBatchPath::new(vec![], vec![])) } else { Err(anyhow!("path (stub)")) }
}

never_panics!(c05_concatenation_proof_legacy_len0, 0, 3, ConcatenationProof::<MD>::from_bytes_legacy,
    kani::stub(crate::protocol::single_signature::signature_registered_party::SingleSignatureWithRegisteredParty::from_bytes, stub_sig_reg_from_bytes),
    kani::stub(crate::membership_commitment::merkle_tree::path::MerkleBatchPath::from_bytes, stub_batch_path_from_bytes));
never_panics!(c05_concatenation_proof_legacy_len8, 8, 3, ConcatenationProof::<MD>::from_bytes_legacy,
    kani::stub(crate::protocol::single_signature::signature_registered_party::SingleSignatureWithRegisteredParty::from_bytes, stub_sig_reg_from_bytes),
    kani::stub(crate::membership_commitment::merkle_tree::path::MerkleBatchPath::from_bytes, stub_batch_path_from_bytes));
never_panics!(c05_concatenation_proof_legacy_len20, 20, 3, ConcatenationProof::<MD>::from_bytes_legacy,
    kani::stub(crate::protocol::single_signature::signature_registered_party::SingleSignatureWithRegisteredParty::from_bytes, stub_sig_reg_from_bytes),
    kani::stub(crate::membership_commitment::merkle_tree::path::MerkleBatchPath::from_bytes, stub_batch_path_from_bytes));
never_panics!(c05_concatenation_proof_dispatch_len9, 9, 3, ConcatenationProof::<MD>::from_bytes,
    kani::stub(crate::protocol::single_signature::signature_registered_party::SingleSignatureWithRegisteredParty::from_bytes, stub_sig_reg_from_bytes),
    kani::stub(crate::membership_commitment::merkle_tree::path::MerkleBatchPath::from_bytes, stub_batch_path_from_bytes));

// C05 — ConcatenationProof::from_bytes_legacy; attached (cfg(kani)) to mithril-stm/src/proof_system/concatenation/proof.rs
use super::*;
use crate::MithrilMembershipDigest as MD;
include!("common.inc");


never_panics_nested!(c05_concatenation_proof_legacy_len0, 0, 3, ConcatenationProof::<MD>::from_bytes_legacy);
never_panics_nested!(c05_concatenation_proof_legacy_len8, 8, 3, ConcatenationProof::<MD>::from_bytes_legacy);
never_panics_nested!(c05_concatenation_proof_legacy_len20, 20, 3, ConcatenationProof::<MD>::from_bytes_legacy);
never_panics_nested!(c05_concatenation_proof_dispatch_len9, 9, 3, ConcatenationProof::<MD>::from_bytes);

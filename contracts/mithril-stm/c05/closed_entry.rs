// C05 — ClosedRegistrationEntry::from_bytes_legacy; attached to
// mithril-stm/src/protocol/key_registration/closed_registration_entry.rs
use super::*;
include!("common.inc");

fn stub_vk_from_bytes(_bytes: &[u8]) -> StmResult<crate::signature_scheme::BlsVerificationKey> {
    if kani::any() { Ok(unsafe { std::mem::zeroed() }) } else { Err(anyhow::anyhow!("bls vk (stub)")) }
}

never_panics!(c05_closed_entry_legacy_len0, 0, 3, ClosedRegistrationEntry::from_bytes_legacy,
    kani::stub(crate::signature_scheme::bls_multi_signature::verification_key::BlsVerificationKey::from_bytes, stub_vk_from_bytes));
never_panics!(c05_closed_entry_legacy_len100, 100, 3, ClosedRegistrationEntry::from_bytes_legacy,
    kani::stub(crate::signature_scheme::bls_multi_signature::verification_key::BlsVerificationKey::from_bytes, stub_vk_from_bytes));
never_panics!(c05_closed_entry_legacy_len104, 104, 3, ClosedRegistrationEntry::from_bytes_legacy,
    kani::stub(crate::signature_scheme::bls_multi_signature::verification_key::BlsVerificationKey::from_bytes, stub_vk_from_bytes));

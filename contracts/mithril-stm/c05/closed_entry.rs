// C05 — ClosedRegistrationEntry::from_bytes_legacy; attached to
// mithril-stm/src/protocol/key_registration/closed_registration_entry.rs
use super::*;
include!("common.inc");


never_panics!(c05_closed_entry_legacy_len0, 0, 3, ClosedRegistrationEntry::from_bytes_legacy);
never_panics!(c05_closed_entry_legacy_len100, 100, 3, ClosedRegistrationEntry::from_bytes_legacy);
never_panics!(c05_closed_entry_legacy_len104, 104, 3, ClosedRegistrationEntry::from_bytes_legacy);

// C05 — SingleSignature::from_bytes_legacy; attached to mithril-stm/src/protocol/single_signature/signature.rs
use super::*;
include!("common.inc");


never_panics!(c05_single_signature_legacy_len0, 0, 6, SingleSignature::from_bytes_legacy);
never_panics!(c05_single_signature_legacy_len8, 8, 6, SingleSignature::from_bytes_legacy);
never_panics!(c05_single_signature_legacy_len32, 32, 6, SingleSignature::from_bytes_legacy);
never_panics!(c05_single_signature_legacy_len72, 72, 10, SingleSignature::from_bytes_legacy);

// C05 — SingleSignature::from_bytes_legacy; attached to mithril-stm/src/protocol/single_signature/signature.rs
use super::*;
include!("common.inc");

/// blst point validation (FFI): arbitrary outcome, never panics (assumed)
fn stub_bls_sig_from_bytes(_bytes: &[u8]) -> StmResult<BlsSignature> {
    if kani::any() { Ok(unsafe { std::mem::zeroed() }) } else { Err(anyhow::anyhow!("bls (stub)")) }
}

never_panics!(c05_single_signature_legacy_len0, 0, 6, SingleSignature::from_bytes_legacy,
    kani::stub(crate::signature_scheme::bls_multi_signature::signature::BlsSignature::from_bytes, stub_bls_sig_from_bytes));
never_panics!(c05_single_signature_legacy_len8, 8, 6, SingleSignature::from_bytes_legacy,
    kani::stub(crate::signature_scheme::bls_multi_signature::signature::BlsSignature::from_bytes, stub_bls_sig_from_bytes));
never_panics!(c05_single_signature_legacy_len32, 32, 6, SingleSignature::from_bytes_legacy,
    kani::stub(crate::signature_scheme::bls_multi_signature::signature::BlsSignature::from_bytes, stub_bls_sig_from_bytes));
never_panics!(c05_single_signature_legacy_len72, 72, 10, SingleSignature::from_bytes_legacy,
    kani::stub(crate::signature_scheme::bls_multi_signature::signature::BlsSignature::from_bytes, stub_bls_sig_from_bytes));

// C05 — AggregateVerificationKeyForConcatenation::from_bytes_legacy; attached to
// mithril-stm/src/proof_system/concatenation/aggregate_key.rs
use super::*;
use crate::MithrilMembershipDigest as MD;
include!("common.inc");

never_panics!(c05_avk_legacy_len0, 0, 3, AggregateVerificationKeyForConcatenation::<MD>::from_bytes_legacy);
never_panics!(c05_avk_legacy_len7, 7, 3, AggregateVerificationKeyForConcatenation::<MD>::from_bytes_legacy);
never_panics!(c05_avk_legacy_len16, 16, 3, AggregateVerificationKeyForConcatenation::<MD>::from_bytes_legacy);
never_panics!(c05_avk_legacy_len48, 48, 3, AggregateVerificationKeyForConcatenation::<MD>::from_bytes_legacy);

// C05 — codec::from_versioned_bytes dispatch; attached to mithril-stm/src/codec.rs
use super::*;
use crate::codec::verif_c05_stubs::*;

/// first byte 1 => CBOR decoder on the rest, anything else (including empty input) => legacy decoder on the whole input
#[kani::proof]
#[kani::unwind(3)]
#[kani::stub(std::backtrace::Backtrace::capture, stub_backtrace)]
#[kani::stub(crate::codec::from_cbor_bytes, stub_from_cbor)]
fn c05_versioned_bytes_dispatch() {
    let bytes: [u8; 3] = kani::any();
    let n: usize = kani::any();
    kani::assume(n <= 3);
    let mut legacy_called_with = usize::MAX;
    let r: StmResult<u8> = from_versioned_bytes(&bytes[..n], |b| {
        legacy_called_with = b.len();
        Ok(0u8)
    });
    let is_cbor = n > 0 && bytes[0] == CODEC_VERSION_CBOR_V1;
    assert!(has_cbor_v1_prefix(&bytes[..n]) == is_cbor, "C05 version prefix test");
    if is_cbor {
        assert!(legacy_called_with == usize::MAX && r.is_err(), "C05 version byte 1 goes to the CBOR decoder only");
    } else {
        assert!(legacy_called_with == n && r.is_ok(), "C05 anything else goes to the legacy decoder with the whole input");
    }
    kani::cover!(is_cbor, "cbor branch");
    kani::cover!(!is_cbor && n > 0, "legacy branch");
    std::mem::forget(r);
}

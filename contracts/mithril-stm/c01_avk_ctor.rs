// Harness-only constructor for AggregateVerificationKeyForConcatenation (its fields are private to aggregate_key.rs).
// Attached (cfg(kani)) as a child module of mithril-stm/src/proof_system/concatenation/aggregate_key.rs.
use super::*;

pub(crate) fn make_avk<D: MembershipDigest>(root: Vec<u8>, nr_leaves: usize, total_stake: Stake) -> AggregateVerificationKeyForConcatenation<D> {
    AggregateVerificationKeyForConcatenation {
        mt_commitment: MerkleTreeBatchCommitment::new(root, nr_leaves),
        total_stake,
    }
}

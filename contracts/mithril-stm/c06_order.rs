// C06 — ordering laws that make the BTreeSet iteration order (hence Merkle leaves, signer slots, aggregate key) a function
// of the SET of registrations. Attached (cfg(kani)) as a child module of
// mithril-stm/src/protocol/key_registration/registration_entry.rs (RegistrationEntry's tuple fields are private to it)
use super::*;
use crate::membership_commitment::MerkleTreeConcatenationLeaf;
use crate::signature_scheme::BlsVerificationKey;
use crate::ClosedRegistrationEntry;
use std::cmp::Ordering;

/// fabricated key values identified by a tag; their compressed encoding (blst FFI) is a contract stub returning 96
/// symbolic bytes per key; blst point equality is assumed to coincide with equality of the canonical encoding.
static mut KEY_BYTES: [[u8; 96]; 3] = [[0; 96]; 3];

fn vk(tag: u8) -> BlsVerificationKey {
    let mut raw = [0u8; std::mem::size_of::<BlsVerificationKey>()];
    raw[0] = tag;
    unsafe { std::mem::transmute::<[u8; std::mem::size_of::<BlsVerificationKey>()], BlsVerificationKey>(raw) }
}
fn tag_of(v: &BlsVerificationKey) -> usize {
    unsafe { *(v as *const BlsVerificationKey as *const u8) as usize }
}
fn stub_to_bytes(v: BlsVerificationKey) -> [u8; 96] {
    unsafe { KEY_BYTES[tag_of(&v)] }
}
fn init_keys() {
    unsafe {
        KEY_BYTES = kani::any();
    }
}
/// reference: lexicographic comparison of the encodings
fn lex(a: usize, b: usize) -> Ordering {
    unsafe { KEY_BYTES[a].cmp(&KEY_BYTES[b]) }
}

macro_rules! c06_harness {
    (fn $name:ident() $body:block) => {
        #[kani::proof]
        #[kani::unwind(98)]
        #[kani::stub(crate::signature_scheme::bls_multi_signature::verification_key::BlsVerificationKey::to_bytes, stub_to_bytes)]
        fn $name() $body
    };
}

c06_harness! {
    fn c06_key_order_is_lexicographic_on_encoding() {
        init_keys();
        let (a, b) = (vk(0), vk(1));
        let c = a.cmp(&b);
        assert!(c == lex(0, 1), "C06 key order == lexicographic order of the 96-byte encoding");
        assert!(a.partial_cmp(&b) == Some(c), "C06 PartialOrd agrees with Ord");
        // "cmp == Equal <=> ==" : BlsVerificationKey::eq is blst point equality (FFI); equal points have equal canonical
        // encodings and vice versa - assumed, not checked here
        assert!(b.cmp(&a) == c.reverse(), "C06 antisymmetry");
        kani::cover!(c == Ordering::Less, "keys can be ordered");
    }
}

c06_harness! {
    fn c06_key_order_is_transitive() {
        init_keys();
        let (a, b, c) = (vk(0), vk(1), vk(2));
        if a.cmp(&b) != Ordering::Greater && b.cmp(&c) != Ordering::Greater {
            assert!(a.cmp(&c) != Ordering::Greater, "C06 transitivity");
            kani::cover!(a.cmp(&c) == Ordering::Less, "strict chain");
        }
    }
}

/// entries are ordered by (stake, key); the three entry types agree
c06_harness! {
    fn c06_entry_orders_are_stake_then_key() {
        init_keys();
        let (s0, s1): (u64, u64) = (kani::any(), kani::any());
        let want = s0.cmp(&s1).then(lex(0, 1));
        let (c0, c1) = (ClosedRegistrationEntry::new(vk(0), s0), ClosedRegistrationEntry::new(vk(1), s1));
        assert!(c0.cmp(&c1) == want && c0.partial_cmp(&c1) == Some(want), "C06 ClosedRegistrationEntry ordered by (stake, key encoding)");
        assert!(c1.cmp(&c0) == want.reverse(), "C06 ClosedRegistrationEntry antisymmetry");
        let (l0, l1) = (MerkleTreeConcatenationLeaf(vk(0), s0), MerkleTreeConcatenationLeaf(vk(1), s1));
        assert!(l0.cmp(&l1) == want && l0.partial_cmp(&l1) == Some(want), "C06 Merkle leaf ordered by (stake, key encoding)");
        let (r0, r1) = (RegistrationEntry(vk(0), s0), RegistrationEntry(vk(1), s1));
        assert!(r0.cmp(&r1) == want && r0.partial_cmp(&r1) == Some(want), "C06 RegistrationEntry ordered by (stake, key encoding)");
        kani::cover!(want == Ordering::Greater && s0 == s1, "equal stakes ordered by key");
    }
}

// C01 — contracts for ConcatenationProof::{preliminary_verify, verify, batch_verify}; attached (cfg(kani)) as a child
// module of mithril-stm/src/proof_system/concatenation/proof.rs. Cryptography and Merkle membership are contract stubs
// with a ghost log (their own contracts: BLS assumed, Merkle membership decided under C09, lottery under C08).
use super::*;
use crate::proof_system::concatenation::single_signature::verif_c01_common::*;
use crate::proof_system::concatenation::aggregate_key::verif_c01_avk::make_avk;
use crate::proof_system::SingleSignatureForConcatenation;
use crate::membership_commitment::{MerkleTreeBatchCommitment, MerkleTreeConcatenationLeaf, MerkleTreeLeaf};
use crate::{ClosedRegistrationEntry, MithrilMembershipDigest};
use digest::{Digest, FixedOutput};

type MD = MithrilMembershipDigest;

// ---- ghost log: Merkle membership ------------------------------------------------------------------------
#[derive(Clone, Copy, PartialEq, Eq)]
pub(crate) struct MerkleCall {
    pub root0: u8,
    pub n_leaves: usize,
    pub leaf_vk: [u8; 2],
    pub leaf_stake: [u64; 2],
    pub proof_ptr: usize,
    pub ok: bool,
}
static mut MERKLE_LOG: Option<MerkleCall> = None;
static mut MERKLE_CALLS: usize = 0;

/// contract stub of MerkleTreeBatchCommitment::verify_leaves_membership_from_batch_path (real contract: C09)
fn stub_merkle_verify<D: Digest + FixedOutput, L: MerkleTreeLeaf>(
    c: &MerkleTreeBatchCommitment<D, L>,
    batch_val: &[L],
    proof: &MerkleBatchPath<D>,
) -> StmResult<()>
where
    D: FixedOutput + Clone,
    L: MerkleTreeLeaf,
{
    let ok: bool = kani::any();
    let mut call = MerkleCall { root0: c.root[0], n_leaves: batch_val.len(), leaf_vk: [0; 2], leaf_stake: [0; 2], proof_ptr: proof as *const _ as usize, ok };
    // L is MerkleTreeConcatenationLeaf in every instantiation reached from ConcatenationProof
    let leaves = unsafe { std::slice::from_raw_parts(batch_val.as_ptr() as *const MerkleTreeConcatenationLeaf, batch_val.len()) };
    let mut i = 0;
    while i < leaves.len() && i < 2 {
        call.leaf_vk[i] = vk_tag(&leaves[i].0);
        call.leaf_stake[i] = leaves[i].1;
        i += 1;
    }
    unsafe {
        MERKLE_LOG = Some(call);
        MERKLE_CALLS += 1;
    }
    if ok { Ok(()) } else { Err(anyhow!("merkle (stub): invalid")) }
}

// ---- ghost log: aggregate BLS verification ---------------------------------------------------------------------
#[derive(Clone, Copy, PartialEq, Eq)]
pub(crate) struct AggVerifyCall {
    pub msg_len: usize,
    pub msg0: u8,
    pub msg_last: u8,
    pub n: usize,
    pub vks: [u8; 2],
    pub sigs: [u8; 2],
    pub ok: bool,
}
static mut AGG_LOG: Option<AggVerifyCall> = None;

fn stub_verify_aggregate(msg: &[u8], vks: &[BlsVerificationKey], sigs: &[BlsSignature]) -> StmResult<()> {
    let ok: bool = kani::any();
    let mut call = AggVerifyCall { msg_len: msg.len(), msg0: msg[0], msg_last: msg[msg.len() - 1], n: sigs.len(), vks: [0; 2], sigs: [0; 2], ok };
    assert!(vks.len() == sigs.len(), "C01 aggregate verification gets one key per signature");
    let mut i = 0;
    while i < sigs.len() && i < 2 {
        call.vks[i] = vk_tag(&vks[i]);
        call.sigs[i] = sig_tag(&sigs[i]);
        i += 1;
    }
    unsafe { AGG_LOG = Some(call) };
    if ok { Ok(()) } else { Err(anyhow!("aggregate verify (stub): invalid")) }
}

use crate::signature_scheme::BlsVerificationKey;

fn stub_random_state() -> std::hash::RandomState {
    // fixed keys: HashSet::new becomes executable (no OS randomness)
    unsafe { std::mem::transmute::<(u64, u64), std::hash::RandomState>((0u64, 0u64)) }
}

// ---- contract stubs of std::collections::HashSet<u64> (assumed contract on the dependency: it implements a finite set) ----
// preliminary_verify uses exactly one set (unique_indices) and only new / insert / len. Executing hashbrown symbolically
// (SipHash + SIMD group probing) does not finish; the set's contents are kept in a ghost array instead.
const SET_CAP: usize = 4;
static mut SET: [u64; SET_CAP] = [0; SET_CAP];
static mut SET_N: usize = 0;

fn stub_hashset_insert<T: Eq + std::hash::Hash, S: std::hash::BuildHasher, A: std::alloc::Allocator>(_set: &mut HashSet<T, S, A>, value: T) -> bool {
    assert!(std::mem::size_of::<T>() == 8);
    let v: u64 = unsafe { std::mem::transmute_copy(&value) };
    std::mem::forget(value);
    unsafe {
        let mut i = 0;
        while i < SET_CAP {
            if i < SET_N && SET[i] == v {
                return false;
            }
            i += 1;
        }
        assert!(SET_N < SET_CAP, "harness: ghost set large enough");
        SET[SET_N] = v;
        SET_N += 1;
    }
    true
}

fn stub_hashset_len<T, S, A: std::alloc::Allocator>(_set: &HashSet<T, S, A>) -> usize {
    unsafe { SET_N }
}

/// A proof with `n` (<= 2) signatures; signature j has tag 10+j, key tag 20+j, symbolic stake, symbolic signer slot and
/// `cnt[j]` (<= 2) symbolic indices.
struct Sym {
    n: usize,
    cnt: [usize; 2],
    idx: [[u64; 2]; 2],
    stake: [u64; 2],
}

/// `n` signatures with `c0`, `c1` indices: the SHAPE is concrete (symbolic container sizes make CBMC's allocation /
/// memcpy reasoning explode), every VALUE (indices, stakes, signer slots, k, m, phi_f, message, root) is symbolic.
fn any_proof(n: usize, c0: usize, c1: usize) -> (ConcatenationProof<MD>, Sym) {
    let cnt: [usize; 2] = [c0, c1];
    let idx: [[u64; 2]; 2] = kani::any();
    let stake: [u64; 2] = kani::any();
    let mut signatures = Vec::new();
    let mut j = 0;
    while j < n {
        let mut v = vec![idx[j][0], idx[j][1]];
        v.truncate(cnt[j]);
        signatures.push(SingleSignatureWithRegisteredParty {
            sig: SingleSignature {
                concatenation_signature: SingleSignatureForConcatenation::new(sig_with_tag(10 + j as u8), v),
                signer_index: kani::any(),
            },
            reg_party: ClosedRegistrationEntry::new(vk_with_tag(20 + j as u8), stake[j]),
        });
        j += 1;
    }
    let proof = ConcatenationProof { signatures, batch_proof: MerkleBatchPath::new(vec![], vec![]) };
    (proof, Sym { n, cnt, idx, stake })
}

/// The postcondition of preliminary_verify, from the statement of C01, over the ghost logs.
fn preliminary_post(p: &ConcatenationProof<MD>, s: &Sym, params: &Parameters, msg0: u8, root: u8, total: u64) -> bool {
    let mut ok = true;
    let mut count: u64 = 0;
    let mut j = 0;
    while j < s.n {
        let mut a = 0;
        while a < s.cnt[j] {
            let i = s.idx[j][a];
            // every index lies in [0, m)
            ok = ok && i < params.m;
            // every index was genuinely won for msg || root by THIS signature with ITS OWN committed stake and the avk's total stake
            ok = ok && lottery_won_logged(params.phi_f, 10 + j as u8, 2, msg0, root, i, s.stake[j], total);
            // pairwise distinct over all signatures
            let mut j2 = 0;
            while j2 < s.n {
                let mut b = 0;
                while b < s.cnt[j2] {
                    if (j2, b) != (j, a) {
                        ok = ok && s.idx[j2][b] != i;
                    }
                    b += 1;
                }
                j2 += 1;
            }
            count += 1;
            a += 1;
        }
        j += 1;
    }
    // at least k of them
    ok = ok && count >= params.k;
    // the (key, stake) pairs of all signatures, in order, were checked against the avk's commitment with THIS proof's batch path
    let want = MerkleCall {
        root0: root,
        n_leaves: s.n,
        leaf_vk: [if s.n > 0 { 20 } else { 0 }, if s.n > 1 { 21 } else { 0 }],
        leaf_stake: [if s.n > 0 { s.stake[0] } else { 0 }, if s.n > 1 { s.stake[1] } else { 0 }],
        proof_ptr: &p.batch_proof as *const _ as usize,
        ok: true,
    };
    ok = ok && unsafe { MERKLE_LOG } == Some(want) && unsafe { MERKLE_CALLS } == 1;
    ok
}

macro_rules! c01_stubs {
    ($(#[$m:meta])* fn $name:ident() $body:block) => {
        #[kani::proof]
        #[kani::stub(crate::signature_scheme::bls_multi_signature::signature::BlsSignature::evaluate_dense_mapping, stub_dense_mapping)]
        #[kani::stub(crate::proof_system::concatenation::eligibility::is_lottery_won, stub_lottery)]
        #[kani::stub(crate::membership_commitment::merkle_tree::commitment::MerkleTreeBatchCommitment::verify_leaves_membership_from_batch_path, stub_merkle_verify)]
        #[kani::stub(crate::signature_scheme::bls_multi_signature::signature::BlsSignature::verify_aggregate, stub_verify_aggregate)]
        #[kani::stub(std::backtrace::Backtrace::capture, stub_backtrace)]
        #[kani::stub(std::hash::RandomState::new, stub_random_state)]
        #[kani::stub(std::collections::HashSet::insert, stub_hashset_insert)]
        #[kani::stub(std::collections::HashSet::len, stub_hashset_len)]
        #[kani::stub(alloc::fmt::format, stub_format)]
        $(#[$m])*
        fn $name() $body
    };
}

fn check_preliminary_verify(n: usize, c0: usize, c1: usize) {
    let (proof, s) = any_proof(n, c0, c1);
    let params = any_params();
    let msg: [u8; 1] = kani::any();
    let (root, total): (u8, u64) = (kani::any(), kani::any());
    let avk = make_avk::<MD>(vec![root], 4, total);
    let r = proof.preliminary_verify(&msg, &avk, &params);
    if let Ok((sigs, vks)) = &r {
        kani::cover!(true, "a proof of this shape can be accepted");
        assert!(preliminary_post(&proof, &s, &params, msg[0], root, total), "C01 preliminary_verify: >= k distinct indices in [0,m), each won by its committed (key, stake); membership checked");
        // returned operands for the aggregate check are exactly (sigma_j, vk_j) in order
        assert!(sigs.len() == s.n && vks.len() == s.n, "C01 one (signature, key) pair per contained signature");
        let mut j = 0;
        while j < s.n {
            assert!(sig_tag(&sigs[j]) == 10 + j as u8 && vk_tag(&vks[j]) == 20 + j as u8, "C01 (signature, key) pairs returned in order");
            j += 1;
        }
    }
    std::mem::forget(r);
}

fn check_verify(n: usize, c0: usize, c1: usize) {
    let (proof, s) = any_proof(n, c0, c1);
    let params = any_params();
    let msg: [u8; 1] = kani::any();
    let (root, total): (u8, u64) = (kani::any(), kani::any());
    let avk = make_avk::<MD>(vec![root], 4, total);
    let r = proof.verify(&msg, &avk, &params);
    let ok = r.is_ok();
    std::mem::forget(r);
    if ok {
        kani::cover!(true, "a proof of this shape can be accepted");
        assert!(preliminary_post(&proof, &s, &params, msg[0], root, total), "C01 verify: preliminary checks hold");
        let want = AggVerifyCall {
            msg_len: 2, msg0: msg[0], msg_last: root, n: s.n,
            vks: [if s.n > 0 { 20 } else { 0 }, if s.n > 1 { 21 } else { 0 }],
            sigs: [if s.n > 0 { 10 } else { 0 }, if s.n > 1 { 11 } else { 0 }],
            ok: true,
        };
        assert!(unsafe { AGG_LOG } == Some(want), "C01 verify: aggregate BLS verification of msg || root succeeded on exactly the contained (signature, committed key) pairs");
    }
}

c01_stubs! {
    #[kani::unwind(6)]
    fn c01_preliminary_verify_n0_0_0() {
        check_preliminary_verify(0, 0, 0);
    }
}
c01_stubs! {
    #[kani::unwind(6)]
    fn c01_preliminary_verify_n1_1_0() {
        check_preliminary_verify(1, 1, 0);
    }
}
c01_stubs! {
    #[kani::unwind(6)]
    fn c01_preliminary_verify_n1_2_0() {
        check_preliminary_verify(1, 2, 0);
    }
}
c01_stubs! {
    #[kani::unwind(6)]
    fn c01_preliminary_verify_n2_1_1() {
        check_preliminary_verify(2, 1, 1);
    }
}
c01_stubs! {
    #[kani::unwind(6)]
    fn c01_preliminary_verify_n2_2_1() {
        check_preliminary_verify(2, 2, 1);
    }
}
c01_stubs! {
    #[kani::unwind(6)]
    fn c01_preliminary_verify_n2_2_2() {
        check_preliminary_verify(2, 2, 2);
    }
}
c01_stubs! {
    #[kani::unwind(6)]
    fn c01_verify_n1_1_0() {
        check_verify(1, 1, 0);
    }
}
c01_stubs! {
    #[kani::unwind(6)]
    fn c01_verify_n2_1_1() {
        check_verify(2, 1, 1);
    }
}
c01_stubs! {
    #[kani::unwind(6)]
    fn c01_verify_n2_2_1() {
        check_verify(2, 2, 1);
    }
}

/// contract used by the Verus unit preliminary_verify for the iterator expressions of collect_signatures_verification_keys:
/// the j-th returned pair is (sigma_j, committed key_j), in signature order
#[kani::proof]
#[kani::unwind(4)]
fn c01_collect_signatures_verification_keys_in_order() {
    let (proof, s) = any_proof(2, 1, 1);
    let (sigs, vks) = proof.collect_signatures_verification_keys();
    assert!(sigs.len() == s.n && vks.len() == s.n, "C01 one (signature, key) pair per contained signature");
    let mut j = 0;
    while j < 2 {
        assert!(sig_tag(&sigs[j]) == 10 + j as u8 && vk_tag(&vks[j]) == 20 + j as u8, "C01 (signature, key) pairs returned in signature order");
        j += 1;
    }
}

/// contract used by the Verus unit preliminary_verify for the iterator expression that builds the Merkle leaves
/// (`self.signatures.iter().filter_map(|r| r.reg_party.clone().into()).collect()`): the membership check receives exactly
/// the (committed key, committed stake) pair of EVERY signature, in signature order, together with this proof's batch path
/// and the aggregate key's commitment. The per-index checks are stubbed out (their contract: Verus unit check_indices).
fn stub_check_indices_ok(_s: &SingleSignature, _p: &Parameters, _stake: &crate::Stake, _msg: &[u8], _total: &crate::Stake) -> StmResult<()> {
    Ok(())
}

#[kani::proof]
#[kani::unwind(6)]
#[kani::stub(crate::protocol::single_signature::signature::SingleSignature::check_indices, stub_check_indices_ok)]
#[kani::stub(crate::membership_commitment::merkle_tree::commitment::MerkleTreeBatchCommitment::verify_leaves_membership_from_batch_path, stub_merkle_verify)]
#[kani::stub(std::backtrace::Backtrace::capture, stub_backtrace)]
#[kani::stub(std::hash::RandomState::new, stub_random_state)]
#[kani::stub(std::collections::HashSet::insert, stub_hashset_insert)]
#[kani::stub(std::collections::HashSet::len, stub_hashset_len)]
#[kani::stub(alloc::fmt::format, stub_format)]
fn c01_preliminary_verify_membership_operands() {
    let stake: u64 = kani::any();
    let signatures = vec![SingleSignatureWithRegisteredParty {
        sig: SingleSignature {
            concatenation_signature: SingleSignatureForConcatenation::new(sig_with_tag(10), vec![3u64]),
            signer_index: 0,
        },
        reg_party: ClosedRegistrationEntry::new(vk_with_tag(20), stake),
    }];
    // a batch path of arbitrary (here: mismatching, empty) shape: the leaves must not depend on it
    let proof: ConcatenationProof<MD> = ConcatenationProof { signatures, batch_proof: MerkleBatchPath::new(vec![], vec![]) };
    let params = Parameters { m: 10, k: 0, phi_f: 0.5 };
    let root: u8 = kani::any();
    let avk = make_avk::<MD>(vec![root], 4, kani::any());
    let r = proof.preliminary_verify(&[1u8], &avk, &params);
    let ok = r.is_ok();
    std::mem::forget(r);
    assert!(unsafe { MERKLE_CALLS } == 1, "C01 Merkle membership is checked exactly once");
    let want = MerkleCall { root0: root, n_leaves: 1, leaf_vk: [20, 0], leaf_stake: [stake, 0], proof_ptr: &proof.batch_proof as *const _ as usize, ok };
    assert!(unsafe { MERKLE_LOG } == Some(want), "C01 membership check gets the (key, stake) of every signature, in order, with this proof's batch path and the avk's commitment");
    kani::cover!(ok, "accepted when membership holds");
}

// C20 (offset algebra only) and the Epoch part of C03 / C17 — attached (cfg(kani)) as a child module of
// mithril-common/src/entities/epoch.rs. Loop-free harnesses over the full u64 domain (below the overflow boundary).
use super::*;

const TOP: u64 = (1u64 << 63) - 8; // epochs are far below this; offset_by casts to i64

fn any_epoch() -> Epoch {
    let e: u64 = kani::any();
    kani::assume(e < TOP);
    Epoch(e)
}

/// A key recorded while the chain is at epoch e is the key retrieved for signing exactly SIGNER_SIGNING_OFFSET epochs
/// later - on the signer and on the aggregator, which share these functions.
#[kani::proof]
fn c20_recording_epoch_is_retrieved_at_signing_offset() {
    let e = any_epoch();
    let recorded_at = e.offset_to_recording_epoch();
    let signing_epoch = e.offset_to_signer_signing_offset();
    let retrieved = signing_epoch.offset_to_signer_retrieval_epoch();
    kani::cover!(retrieved.is_ok(), "retrieval succeeds");
    assert!(retrieved.is_ok() && retrieved.unwrap() == recorded_at, "C20 key recorded at e is the one retrieved for signing at e + signing offset");
}

/// "next signers" of epoch e are "current signers" of epoch e + 1
#[kani::proof]
fn c20_next_signers_become_current_signers() {
    let e = any_epoch();
    let next_of_e = e.offset_to_next_signer_retrieval_epoch();
    let current_of_next = e.next().offset_to_signer_retrieval_epoch();
    assert!(current_of_next.is_ok() && current_of_next.unwrap() == next_of_e, "C20 next signers of e == current signers of e+1");
    // and the registration round open during e records keys that become next signers one epoch later
    assert!(e.offset_to_recording_epoch() == e.next().offset_to_next_signer_retrieval_epoch(), "C20 keys recorded during e are the next signers of e+1");
}

/// signer retrieval fails exactly at epoch 0 (no epoch -1) and never silently wraps
#[kani::proof]
fn c20_signer_retrieval_fails_exactly_at_epoch_zero() {
    let e = any_epoch();
    let r = e.offset_to_signer_retrieval_epoch();
    assert!(r.is_ok() == (e.0 >= 1), "C20 retrieval epoch undefined exactly for epoch 0");
    if let Ok(x) = r {
        assert!(x.0 + 1 == e.0, "C20 retrieval epoch is the previous epoch");
    }
    let p = e.previous();
    assert!(p.is_ok() == (e.0 >= 1));
    if let Ok(x) = p {
        assert!(x.0 + 1 == e.0 && x.next() == e, "previous/next are inverse");
    }
}

/// offset_by: exact signed addition, error iff the result would be negative
#[kani::proof]
fn c20_offset_by_is_exact() {
    let e = any_epoch();
    kani::assume(e.0 < (1u64 << 62)); // e + d must be representable in i64 (real epochs are < 2^32)
    let d: i64 = kani::any();
    kani::assume(d > -(1i64 << 62) && d < (1i64 << 62));
    let r = e.offset_by(d);
    let want = e.0 as i128 + d as i128;
    assert!(r.is_ok() == (want >= 0), "offset_by fails iff the epoch would be negative");
    if let Ok(x) = r {
        assert!(x.0 as i128 == want, "offset_by adds exactly");
    }
}

/// the unsigned offsets are plain additions of the documented constants (relationally: recording < signing, etc.)
#[kani::proof]
fn c20_offsets_are_monotone_additions() {
    let e = any_epoch();
    assert!(e.offset_to_recording_epoch().0 == e.0 + Epoch::SIGNER_RECORDING_OFFSET);
    assert!(e.offset_to_signer_signing_offset().0 == e.0 + Epoch::SIGNER_SIGNING_OFFSET);
    assert!(e.offset_to_next_signer_retrieval_epoch().0 == e.0 + Epoch::NEXT_SIGNER_RETRIEVAL_OFFSET);
    assert!(e.offset_to_epoch_settings_recording_epoch().0 == e.0 + Epoch::EPOCH_SETTINGS_RECORDING_OFFSET);
    assert!(e.offset_to_cardano_stake_distribution_snapshot_epoch().0 == e.0 + Epoch::CARDANO_STAKE_DISTRIBUTION_SNAPSHOT_OFFSET);
    assert!(e.offset_to_leader_synchronization_epoch().0 == e.0 + Epoch::SIGNER_LEADER_SYNCHRONIZATION_OFFSET);
    assert!(e.next().0 == e.0 + 1);
    // protocol relation between the constants: signing offset = recording offset - retrieval offset
    assert!(Epoch::SIGNER_SIGNING_OFFSET as i64 == Epoch::SIGNER_RECORDING_OFFSET as i64 - Epoch::SIGNER_RETRIEVAL_OFFSET);
}

/// C03: has_gap_with is "more than one epoch apart" (function contract on the real function)
#[kani::proof_for_contract(Epoch::has_gap_with)]
fn c03_has_gap_with_contract() {
    let a = Epoch(kani::any());
    let b = Epoch(kani::any());
    a.has_gap_with(&b);
}

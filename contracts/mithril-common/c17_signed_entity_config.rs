// C17 — Kani contracts / harnesses attached (cfg(kani)) as a child module of
// mithril-common/src/entities/signed_entity_config.rs. Everything called here is the real code.
use super::*;
use crate::entities::{ChainPoint, Epoch, SlotNumber};

/// x = tip − security, floored at zero (the statement's "tip minus the configured security parameter")
fn margin(tip: u64, sec: u64) -> u64 {
    tip.saturating_sub(sec)
}

/// The characterising predicate shared with Verus (verus/C17): r is a multiple-of-s candidate that is
/// not above x and less than one step below it. (r % s == 0 is derived in Verus from the operator contracts.)
fn post_within_one_step(x: u64, s: u64, r: u64) -> bool {
    r <= x && x - r < s
}

// ---- blocks entity -----------------------------------------------------------------------------
#[kani::proof]
fn c17_blocks_le_margin_and_within_one_step() {
    let (tip, sec, step): (u64, u64, u64) = (kani::any(), kani::any(), kani::any());
    let cfg = CardanoBlocksTransactionsSigningConfig {
        security_parameter: BlockNumberOffset(sec),
        step: BlockNumber(step),
    };
    let r = *cfg.compute_block_number_to_be_signed(BlockNumber(tip));
    let s = std::cmp::max(step, 1);
    let x = margin(tip, sec);
    kani::cover!(r > 0 && step > 1, "non-trivial beacon reachable");
    assert!(r <= x, "C17.1 blocks: beacon <= tip - security (floored at 0)");
    assert!(post_within_one_step(x, s, r), "C17.post blocks: beacon within one step of the margin");
}

// ---- transactions entity -----------------------------------------------------------------------
fn check_transactions(tip: u64, sec: u64, step: u64, s: u64) {
    let cfg = CardanoTransactionsSigningConfig {
        security_parameter: BlockNumberOffset(sec),
        step: BlockNumber(step),
    };
    let r = *cfg.compute_block_number_to_be_signed(BlockNumber(tip));
    let x = margin(tip, sec);
    kani::cover!(r > 0 && step > 15, "non-trivial beacon reachable");
    assert!(r <= x, "C17.1 transactions: beacon <= tip - security (floored at 0)");
    if x >= s {
        // the first signing step lies behind the security margin: r + 1 is the multiple
        assert!(r < u64::MAX && post_within_one_step(x, s, r + 1), "C17.post transactions: beacon+1 within one step of the margin");
    } else {
        assert!(r == 0, "C17.post transactions: nothing to sign before the first step");
    }
}

// Modular proof of the transactions method: the private free function `compute_block_number_to_be_signed` is replaced
// by a contract stub (an arbitrary result, operands recorded); its own contract is what the blocks harness proves, since
// CardanoBlocksTransactionsSigningConfig::compute_block_number_to_be_signed calls it with (tip, security, step) unchanged.
static mut FREE_FN_LOG: Option<(u64, u64, u64, u64)> = None; // (block number, security, step, result)
fn stub_free_compute(block_number: BlockNumber, security_parameter: BlockNumberOffset, step: BlockNumber) -> BlockNumber {
    let r: u64 = kani::any();
    unsafe { FREE_FN_LOG = Some((*block_number, *security_parameter, *step, r)) };
    BlockNumber(r)
}

/// transactions method == free_fn(tip, security, max(15*floor(step/15), 15)) - 1 (saturating), for all inputs;
/// step written as 15*k + rem so that the harness needs no division of its own
#[kani::proof]
#[kani::stub(compute_block_number_to_be_signed, stub_free_compute)]
fn c17_transactions_adjusts_step_and_subtracts_one() {
    let (tip, sec, k, rem): (u64, u64, u64, u64) = (kani::any(), kani::any(), kani::any(), kani::any());
    kani::assume(rem < 15 && k <= (u64::MAX - rem) / 15);
    let step = 15 * k + rem; // every u64 is of this form exactly once
    let cfg = CardanoTransactionsSigningConfig {
        security_parameter: BlockNumberOffset(sec),
        step: BlockNumber(step),
    };
    let r = *cfg.compute_block_number_to_be_signed(BlockNumber(tip));
    let log = unsafe { FREE_FN_LOG };
    kani::cover!(k > 1, "step above one block range");
    assert!(log.is_some(), "C17 transactions: delegates to the shared beacon formula");
    let (b, s, st, res) = log.unwrap();
    assert!(b == tip && s == sec, "C17 transactions: tip and security parameter passed unchanged");
    assert!(st == std::cmp::max(15 * k, 15), "C17 transactions: step rounded down to a multiple of the block range length, at least one range");
    assert!(r == res.saturating_sub(1), "C17 transactions: last block of the range before the multiple");
}

/// the same obligation with the adjusted step recomputed by division in the harness (slow: thorough tier)
#[kani::proof]
fn c17_transactions_le_margin_and_within_one_step() {
    let (tip, sec, step): (u64, u64, u64) = (kani::any(), kani::any(), kani::any());
    check_transactions(tip, sec, step, std::cmp::max(step / 15 * 15, 15));
}

#[kani::proof]
#[kani::stub(std::backtrace::Backtrace::capture, stub_backtrace)]
fn c17_transactions_no_panic_any_step() {
    let (tip, sec, step): (u64, u64, u64) = (kani::any(), kani::any(), kani::any());
    let cfg = CardanoTransactionsSigningConfig {
        security_parameter: BlockNumberOffset(sec),
        step: BlockNumber(step),
    };
    let r = *cfg.compute_block_number_to_be_signed(BlockNumber(tip));
    assert!(r <= margin(tip, sec), "C17.5 transactions: a beacon is selected for every step value");
}

// ---- operator / helper contracts used by the Verus proof of the extracted callers ---------------------
// Each is the contract of one real impl (macro-generated in arithmetic_operation_wrapper.rs or block_number.rs),
// in characterising form (no second division circuit). Verus (verus/C17) assumes exactly these.
#[kani::proof]
fn c17_op_sub_offset_is_saturating() {
    let (a, b): (u64, u64) = (kani::any(), kani::any());
    assert!(*(BlockNumber(a) - BlockNumberOffset(b)) == a.saturating_sub(b));
}

#[kani::proof]
fn c17_op_sub_u64_is_saturating() {
    let (a, b): (u64, u64) = (kani::any(), kani::any());
    assert!(*(BlockNumber(a) - b) == a.saturating_sub(b));
}

#[kani::proof]
fn c17_op_div_characterised() {
    let (a, b): (u64, u64) = (kani::any(), kani::any());
    kani::assume(b != 0);
    let q = *(BlockNumber(a) / BlockNumber(b));
    // q == a / b  <=>  q*b <= a < q*b + b   (uniqueness: Verus lemma_div_unique)
    let p = (q as u128) * (b as u128);
    assert!(p <= a as u128 && (a as u128) - p < b as u128);
}

#[kani::proof]
fn c17_op_mul_exact_when_no_overflow() {
    let (a, b): (u64, u64) = (kani::any(), kani::any());
    let p = (a as u128) * (b as u128);
    kani::assume(p <= u64::MAX as u128);
    assert!(*(BlockNumber(a) * BlockNumber(b)) as u128 == p);
}

#[kani::proof]
fn c17_op_add_exact_when_no_overflow() {
    let (a, b): (u64, u64) = (kani::any(), kani::any());
    kani::assume(a.checked_add(b).is_some());
    assert!(*(BlockNumber(a) + BlockNumber(b)) == a + b);
}

#[kani::proof]
fn c17_op_max_and_ge() {
    let (a, b): (u64, u64) = (kani::any(), kani::any());
    assert!(*std::cmp::max(BlockNumber(a), BlockNumber(b)) == std::cmp::max(a, b));
    assert!((BlockNumber(a) >= BlockNumber(b)) == (a >= b));
    assert!((BlockNumber(a) == b) == (a == b));
}

#[kani::proof]
#[kani::stub(std::backtrace::Backtrace::capture, stub_backtrace)]
fn c17_block_range_from_block_number_start_end() {
    let n: u64 = kani::any();
    kani::assume(n < u64::MAX);
    let range = BlockRange::from_block_number(BlockNumber(n));
    let s = *BlockRange::start(BlockNumber(n));
    // contract used by Verus: from_block_number(n) == [start(n), start(n) + LENGTH)
    assert!(*range.start == s && *range.end == s + 15);
    assert!(*BlockRange::LENGTH == 15);
}

// ---- time point -> signed entity is a pure function -------------------------------------------------
// The two `compute_block_number_to_be_signed` methods are replaced by *contract stubs*: an uninterpreted function
// (memoised: equal arguments give equal results) that records its operands. The caller is thereby checked against
// the callee's contract ("a function of (config, block number)"), and no division circuit has to be compared.
static mut TX_LOG: Option<(u64, u64, u64, u64)> = None; // (security, step, block number, result)
static mut BLOCKS_LOG: Option<(u64, u64, u64, u64)> = None;

fn stub_tx_compute(cfg: &CardanoTransactionsSigningConfig, block_number: BlockNumber) -> BlockNumber {
    unsafe {
        if let Some((sec, step, b, r)) = TX_LOG {
            if sec == *cfg.security_parameter && step == *cfg.step && b == *block_number {
                return BlockNumber(r);
            }
        }
        let r: u64 = kani::any();
        TX_LOG = Some((*cfg.security_parameter, *cfg.step, *block_number, r));
        BlockNumber(r)
    }
}

fn stub_blocks_compute(cfg: &CardanoBlocksTransactionsSigningConfig, block_number: BlockNumber) -> BlockNumber {
    unsafe {
        if let Some((sec, step, b, r)) = BLOCKS_LOG {
            if sec == *cfg.security_parameter && step == *cfg.step && b == *block_number {
                return BlockNumber(r);
            }
        }
        let r: u64 = kani::any();
        BLOCKS_LOG = Some((*cfg.security_parameter, *cfg.step, *block_number, r));
        BlockNumber(r)
    }
}

fn any_time_point() -> TimePoint {
    TimePoint {
        epoch: Epoch(kani::any()),
        immutable_file_number: kani::any(),
        chain_point: ChainPoint {
            slot_number: SlotNumber(kani::any()),
            block_number: BlockNumber(kani::any()),
            block_hash: String::new(),
        },
    }
}

fn any_config() -> SignedEntityConfig {
    SignedEntityConfig {
        allowed_discriminants: BTreeSet::new(),
        cardano_transactions_signing_config: if kani::any() {
            Some(CardanoTransactionsSigningConfig {
                security_parameter: BlockNumberOffset(kani::any()),
                step: BlockNumber(kani::any()),
            })
        } else {
            None
        },
        cardano_blocks_transactions_signing_config: if kani::any() {
            Some(CardanoBlocksTransactionsSigningConfig {
                security_parameter: BlockNumberOffset(kani::any()),
                step: BlockNumber(kani::any()),
            })
        } else {
            None
        },
    }
}

fn stub_backtrace() -> std::backtrace::Backtrace {
    std::backtrace::Backtrace::disabled()
}

/// Same (config, discriminant, time point) => same signed entity; the beacon inside it is the one computed by
/// the signing config from the time point's block number; epochs are copied (or previous epoch for the Cardano
/// stake distribution, failing exactly at epoch 0).
fn check_time_point_to_signed_entity(d: SignedEntityTypeDiscriminants) {
    let cfg = any_config();
    let tp = any_time_point();
    kani::assume(tp.epoch.0 < (1u64 << 63));
    let r1 = cfg.time_point_to_signed_entity(d, &tp);
    let r2 = cfg.time_point_to_signed_entity(d, &tp);
    let (ok1, ok2) = (r1.is_ok(), r2.is_ok());
    assert!(ok1 == ok2, "C17.6 same inputs, same outcome");
    if let (Ok(e1), Ok(e2)) = (&r1, &r2) {
        assert!(e1 == e2, "C17.6 same inputs, same signed entity");
        kani::cover!(true, "conversion succeeds");
        match e1 {
            SignedEntityType::MithrilStakeDistribution(e) => {
                assert!(d == SignedEntityTypeDiscriminants::MithrilStakeDistribution && *e == tp.epoch, "C17.6 mithril stake distribution: epoch copied");
            }
            SignedEntityType::CardanoStakeDistribution(e) => {
                assert!(d == SignedEntityTypeDiscriminants::CardanoStakeDistribution && tp.epoch.0 >= 1 && e.0 == tp.epoch.0 - 1, "C17.6 cardano stake distribution: previous epoch");
            }
            SignedEntityType::CardanoTransactions(e, b) => {
                assert!(d == SignedEntityTypeDiscriminants::CardanoTransactions && *e == tp.epoch, "C17.6 transactions: epoch copied");
                let c = cfg.cardano_transactions_signing_config.as_ref().unwrap();
                let log = unsafe { TX_LOG };
                assert!(log == Some((*c.security_parameter, *c.step, *tp.chain_point.block_number, **b)),
                    "C17.6 transactions: beacon is compute_block_number_to_be_signed(config, time point block number)");
            }
            SignedEntityType::CardanoBlocksTransactions(e, b, o) => {
                assert!(d == SignedEntityTypeDiscriminants::CardanoBlocksTransactions && *e == tp.epoch, "C17.6 blocks: epoch copied");
                let c = cfg.cardano_blocks_transactions_signing_config.as_ref().unwrap();
                let log = unsafe { BLOCKS_LOG };
                assert!(log == Some((*c.security_parameter, *c.step, *tp.chain_point.block_number, **b)),
                    "C17.6 blocks: beacon is compute_block_number_to_be_signed(config, time point block number)");
                assert!(*o == c.security_parameter, "C17.6 blocks: security offset copied from the config");
            }
            SignedEntityType::CardanoDatabase(beacon) => {
                assert!(d == SignedEntityTypeDiscriminants::CardanoDatabase, "C17.6 database discriminant");
                assert!(beacon.epoch == tp.epoch && beacon.immutable_file_number == tp.immutable_file_number, "C17.6 database: epoch and immutable file number copied");
            }
            #[allow(unreachable_patterns)]
            _ => assert!(false, "C17.6 unexpected signed entity type for the discriminant"),
        }
    } else {
        // failure only: epoch 0 for the Cardano stake distribution, or a missing signing config
        let missing_tx = d == SignedEntityTypeDiscriminants::CardanoTransactions && cfg.cardano_transactions_signing_config.is_none();
        let missing_blocks = d == SignedEntityTypeDiscriminants::CardanoBlocksTransactions && cfg.cardano_blocks_transactions_signing_config.is_none();
        let epoch0 = d == SignedEntityTypeDiscriminants::CardanoStakeDistribution && tp.epoch.0 == 0;
        assert!(missing_tx || missing_blocks || epoch0, "C17.6 conversion fails only for a missing config or epoch 0");
    }
    std::mem::forget(r1);
    std::mem::forget(r2);
}

macro_rules! time_point_harness {
    ($name:ident, $d:ident) => {
        #[kani::proof]
        #[kani::stub(std::backtrace::Backtrace::capture, stub_backtrace)]
        #[kani::stub(CardanoTransactionsSigningConfig::compute_block_number_to_be_signed, stub_tx_compute)]
        #[kani::stub(CardanoBlocksTransactionsSigningConfig::compute_block_number_to_be_signed, stub_blocks_compute)]
        fn $name() {
            check_time_point_to_signed_entity(SignedEntityTypeDiscriminants::$d);
        }
    };
}
time_point_harness!(c17_time_point_fn_mithril_stake_distribution, MithrilStakeDistribution);
time_point_harness!(c17_time_point_fn_cardano_stake_distribution, CardanoStakeDistribution);
time_point_harness!(c17_time_point_fn_cardano_transactions, CardanoTransactions);
time_point_harness!(c17_time_point_fn_cardano_blocks_transactions, CardanoBlocksTransactions);
time_point_harness!(c17_time_point_fn_cardano_database, CardanoDatabase);

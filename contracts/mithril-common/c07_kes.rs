// C07 — KES verification window; attached (cfg(kani)) as a child module of
// mithril-common/src/crypto_helper/cardano/kes/verifier_standard.rs
use super::*;
use crate::crypto_helper::cardano::ProtocolRegistrationErrorWrapper;
use kes_summed_ed25519::PublicKey as KesPublicKey;

#[derive(Clone, Copy, PartialEq, Eq)]
struct KesTry {
    period: u32,
    ok: bool,
}
static mut VALIDATE_LOG: Option<bool> = None;
static mut TRIES: [Option<KesTry>; 4] = [None; 4];
static mut TRIES_N: usize = 0;

/// contract stub of OpCert::validate (its own contract: c07_opcert_validate): arbitrary outcome, recorded
fn stub_validate(_o: &OpCert) -> Result<(), ProtocolRegistrationErrorWrapper> {
    let ok: bool = kani::any();
    unsafe { VALIDATE_LOG = Some(ok) };
    if ok { Ok(()) } else { Err(ProtocolRegistrationErrorWrapper::OpCertInvalid) }
}

/// contract stub of Sum6KesSig::verify (Sum6KES assumed sound): arbitrary outcome per evolution tried, recorded
fn stub_kes_verify(_s: &Sum6KesSig, period: u32, _pk: &KesPublicKey, _m: &[u8]) -> Result<(), kes_summed_ed25519::errors::Error> {
    let ok: bool = kani::any();
    unsafe {
        if TRIES_N < 4 {
            TRIES[TRIES_N] = Some(KesTry { period, ok });
        }
        TRIES_N += 1;
    }
    if ok { Ok(()) } else { Err(kes_summed_ed25519::errors::Error::InvalidHashComparison) }
}

fn stub_backtrace() -> std::backtrace::Backtrace {
    std::backtrace::Backtrace::disabled()
}

#[kani::proof]
#[kani::unwind(5)]
#[kani::stub(crate::crypto_helper::cardano::opcert::OpCert::validate, stub_validate)]
#[kani::stub(<kes_summed_ed25519::kes::Sum6KesSig as kes_summed_ed25519::traits::KesSig>::verify, stub_kes_verify)]
#[kani::stub(std::backtrace::Backtrace::capture, stub_backtrace)]
fn c07_kes_verify_window() {
    let sig: Sum6KesSig = unsafe { std::mem::zeroed() };
    let opcert: OpCert = unsafe { std::mem::zeroed() };
    let e: u64 = kani::any();
    let msg: [u8; 2] = kani::any();
    let r = KesVerifierStandard.verify(&msg, &sig, &opcert, KesEvolutions(e));
    let ok = r.is_ok();
    std::mem::forget(r);
    let n = unsafe { TRIES_N };
    assert!(n <= 3, "C07 at most three KES evolutions are tried");
    // every evolution tried lies within one period of the announced one (and inside the key's 0..=64 range)
    let mut i = 0;
    let mut accepted_in_window = false;
    while i < 4 {
        if let Some(t) = unsafe { TRIES[i] } {
            let p = t.period as u64;
            assert!(p + 1 >= e && p <= e.saturating_add(1) && p <= 64, "C07 KES evolution tried is within one period of the announced one");
            if t.ok {
                accepted_in_window = true;
            }
        }
        i += 1;
    }
    if ok {
        kani::cover!(e == 0, "accepted at evolution 0");
        kani::cover!(e == 64, "accepted at the last evolution");
        assert!(unsafe { VALIDATE_LOG } == Some(true), "C07 operational certificate validated (signed by the cold key)");
        assert!(accepted_in_window, "C07 the KES signature verified at an evolution within one period of the announced one");
    }
}

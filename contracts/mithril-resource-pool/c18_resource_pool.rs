// C18 — data-structure invariant and per-operation contracts of ResourcePool, attached (cfg(kani)) as a child module of
// internal/mithril-resource-pool/src/resource_pool.rs. The pool is instantiated with resources that carry, as ghost
// data, the generation they were created for.
use super::*;

#[derive(Clone, Copy, PartialEq, Eq, Debug)]
struct Tagged {
    generation: u64,
    id: u8,
}
impl Reset for Tagged {}

const MAX_SIZE: usize = 3;

fn stub_notify(_c: &Condvar) {}
fn stub_backtrace() -> std::backtrace::Backtrace {
    std::backtrace::Backtrace::disabled()
}

/// Inv(pool): the queue never exceeds the configured size and holds only resources of the current generation.
fn inv(pool: &ResourcePool<Tagged>) -> bool {
    let d = *pool.discriminant.lock().unwrap();
    let q = pool.resources.lock().unwrap();
    let mut ok = q.len() <= pool.size;
    let mut i = 0;
    while i < MAX_SIZE {
        if i < q.len() {
            ok = ok && q[i].generation == d;
        }
        i += 1;
    }
    ok
}

fn snapshot(pool: &ResourcePool<Tagged>) -> (usize, [Option<Tagged>; MAX_SIZE], u64) {
    let d = *pool.discriminant.lock().unwrap();
    let q = pool.resources.lock().unwrap();
    let mut a = [None; MAX_SIZE];
    let mut i = 0;
    while i < MAX_SIZE {
        if i < q.len() {
            a[i] = Some(q[i]);
        }
        i += 1;
    }
    (q.len(), a, d)
}

/// An arbitrary pool state satisfying Inv of the given shape (capacity, queue length): resources of the current
/// generation with symbolic identities, symbolic generation. The shapes are enumerated by the harness macros below
/// (symbolic capacity makes CBMC run out of memory on VecDeque's growth paths).
fn any_pool_in_inv(size: usize, len: usize) -> ResourcePool<Tagged> {
    let d: u64 = kani::any();
    let mut v = Vec::new();
    let mut i = 0;
    while i < MAX_SIZE {
        if i < len {
            v.push(Tagged { generation: d, id: kani::any() });
        }
        i += 1;
    }
    let pool = ResourcePool::<Tagged>::new(size, v);
    pool.set_discriminant(d).unwrap();
    pool
}

macro_rules! c18_harness {
    (fn $name:ident() $body:block) => {
        #[kani::proof]
        #[kani::unwind(5)]
        #[kani::stub(std::sync::Condvar::notify_one, stub_notify)]
        #[kani::stub(std::backtrace::Backtrace::capture, stub_backtrace)]
        fn $name() $body
    };
}
/// one harness per pool shape (capacity, queue length)
macro_rules! c18_shapes {
    ($check:ident: $($name:ident = ($size:expr, $len:expr)),* $(,)?) => {
        $( c18_harness! { fn $name() { $check($size, $len) } } )*
    };
}

c18_harness! {
    fn c18_new_establishes_inv() {
        // both call sites pass vec![] (prover.rs, prover_legacy.rs): precondition resources.len() <= size, generation 0
        let size: usize = kani::any();
        kani::assume(size <= MAX_SIZE);
        let pool = ResourcePool::<Tagged>::new(size, vec![]);
        assert!(inv(&pool) && pool.size() == size && pool.count().unwrap() == 0 && pool.discriminant().unwrap() == 0, "C18 new() establishes the invariant");
    }
}

fn check_give_back_resource(size: usize, len: usize) {
    {
        let pool = any_pool_in_inv(size, len);
        let (len0, q0, d0) = snapshot(&pool);
        let r = Tagged { generation: kani::any(), id: kani::any() };
        // contract precondition (from the call sites): the discriminant handed in is the generation the resource belongs to
        let d = r.generation;
        let res = pool.give_back_resource(r, d);
        assert!(res.is_ok(), "C18 give_back_resource does not fail");
        std::mem::forget(res);
        let (len1, q1, d1) = snapshot(&pool);
        assert!(inv(&pool), "C18 give_back_resource keeps Inv (size bound, single generation)");
        assert!(d1 == d0, "C18 give_back_resource does not change the generation");
        let may_admit = d == d0 && len0 < pool.size();
        kani::cover!(len1 == len0 + 1 || len0 >= pool.size(), "a current-generation resource is admitted (when there is room)");
        kani::cover!(d != d0, "a stale resource is offered");
        // the statement forbids admitting a stale or surplus resource; it does not oblige the pool to admit (only Inv, the
        // generation rule and the frame are demanded - a pool that drops more is not a violation of C18)
        assert!(len1 == len0 || (len1 == len0 + 1 && may_admit && q1[len0] == Some(r)), "C18 only a current-generation resource is admitted, only when there is room, and it is the one given back");
        let mut i = 0;
        while i < MAX_SIZE {
            if i < len0 {
                assert!(q1[i] == q0[i], "C18 frame: queued resources untouched");
            }
            i += 1;
        }
    }
}

c18_shapes!(check_give_back_resource:
    c18_give_back_resource_contract_1_0 = (1, 0), c18_give_back_resource_contract_1_1 = (1, 1),
    c18_give_back_resource_contract_2_1 = (2, 1), c18_give_back_resource_contract_2_2 = (2, 2), c18_give_back_resource_contract_0_0 = (0, 0));

fn check_acquire(size: usize, len: usize) {
    {
        let pool = any_pool_in_inv(size, len);
        let (len0, q0, d0) = snapshot(&pool);
        kani::assume(len0 > 0); // empty pool: Condvar::wait_timeout (futex) - wake-up clause not decided
        let item = pool.acquire_resource(Duration::from_millis(1)).unwrap();
        kani::cover!(true, "acquire succeeds");
        assert!(item.discriminant() == d0, "C18 item remembers the generation at acquisition");
        assert!(Some(*item) == q0[0] && item.generation == d0, "C18 acquire hands out the front resource, which belongs to the current generation");
        let (len1, q1, d1) = snapshot(&pool);
        assert!(len1 == len0 - 1 && d1 == d0 && inv(&pool), "C18 acquire keeps Inv");
        let mut i = 0;
        while i + 1 < MAX_SIZE {
            if i < len1 {
                assert!(q1[i] == q0[i + 1], "C18 frame: remaining resources keep their order");
            }
            i += 1;
        }
        std::mem::forget(item);
    }
}

c18_shapes!(check_acquire: c18_acquire_contract_1_1 = (1, 1), c18_acquire_contract_2_1 = (2, 1), c18_acquire_contract_2_2 = (2, 2));

/// The three ways of returning a checked-out item, after an arbitrary change of generation in between:
/// a resource checked out under an older generation is never re-admitted.
fn check_return_after_refresh(way: u8, size: usize, len: usize) {
    let pool = any_pool_in_inv(size, len);
    let (len0, _, d0) = snapshot(&pool);
    kani::assume(len0 > 0);
    let item = pool.acquire_resource(Duration::from_millis(1)).unwrap();
    let checked_out = *item;
    // refresh: new generation, clear, refill with 0..=size resources of the new generation (prover.rs compute_cache)
    let d_new: u64 = kani::any();
    let refresh: bool = kani::any();
    if refresh {
        kani::assume(d_new != d0);
        pool.set_discriminant(d_new).unwrap();
        pool.clear();
        let refill: usize = kani::any();
        kani::assume(refill <= size);
        let mut i = 0;
        while i < MAX_SIZE {
            if i < refill && i < size {
                let r = pool.give_back_resource(Tagged { generation: d_new, id: kani::any() }, d_new);
                std::mem::forget(r);
            }
            i += 1;
        }
    }
    assert!(inv(&pool), "C18 refresh keeps Inv");
    let (len1, q1, d1) = snapshot(&pool);
    match way {
        0 => {
            let r = pool.give_back_resource_pool_item(item);
            std::mem::forget(r);
        }
        1 => drop(item),
        _ => {
            // explicit give-back of the resource with the discriminant the item recorded
            let d = item.discriminant();
            std::mem::forget(item);
            let r = pool.give_back_resource(checked_out, d);
            std::mem::forget(r);
        }
    }
    let (len2, q2, d2) = snapshot(&pool);
    kani::cover!(refresh, "return after a refresh");
    kani::cover!(!refresh && len2 == len1 + 1, "return without refresh re-admits");
    assert!(inv(&pool), "C18 after returning an item every queued resource belongs to the current generation and len <= size");
    assert!(d2 == d1, "C18 returning an item does not change the generation");
    if refresh {
        assert!(len2 == len1, "C18 a resource checked out under an older generation is not re-admitted");
    }
    let mut i = 0;
    while i < MAX_SIZE {
        if i < len1 {
            assert!(q2[i] == q1[i], "C18 frame: queued resources untouched");
        }
        i += 1;
    }
}

fn check_return_item(size: usize, len: usize) { check_return_after_refresh(0, size, len) }
fn check_return_drop(size: usize, len: usize) { check_return_after_refresh(1, size, len) }
fn check_return_explicit(size: usize, len: usize) { check_return_after_refresh(2, size, len) }
c18_shapes!(check_return_item: c18_return_by_give_back_resource_pool_item_1_1 = (1, 1), c18_return_by_give_back_resource_pool_item_2_1 = (2, 1), c18_return_by_give_back_resource_pool_item_2_2 = (2, 2));
c18_shapes!(check_return_drop: c18_return_by_drop_1_1 = (1, 1), c18_return_by_drop_2_1 = (2, 1), c18_return_by_drop_2_2 = (2, 2));
c18_shapes!(check_return_explicit: c18_return_by_give_back_resource_1_1 = (1, 1), c18_return_by_give_back_resource_2_2 = (2, 2));

fn check_refresh_and_reset(size: usize, len: usize) {
    {
        let pool = any_pool_in_inv(size, len);
        let (len0, q0, d0) = snapshot(&pool);
        let r = pool.reset_available_resources();
        assert!(r.is_ok());
        std::mem::forget(r);
        assert!(snapshot(&pool) == (len0, q0, d0), "C18 reset_available_resources changes neither queue membership nor generation");
        assert!(pool.count().unwrap() == len0 && pool.size() == size, "C18 count/size are observers");
        let d_new: u64 = kani::any();
        pool.set_discriminant(d_new).unwrap();
        pool.clear();
        assert!(inv(&pool) && pool.count().unwrap() == 0 && pool.discriminant().unwrap() == d_new, "C18 set_discriminant + clear establishes an empty pool of the new generation");
    }
}

c18_shapes!(check_refresh_and_reset: c18_refresh_and_reset_keep_inv_1_1 = (1, 1), c18_refresh_and_reset_keep_inv_2_2 = (2, 2));

/// Cross-check of the induction: any 3 operations from any Inv state keep Inv, and every resource handed out belongs to
/// the generation current at that moment.
fn check_three_operations(size: usize, len: usize) {
    {
        let pool = any_pool_in_inv(size, len);
        let mut held: Option<ResourcePoolItem<'_, Tagged>> = None;
        let mut step = 0;
        while step < 3 {
            let op: u8 = kani::any();
            kani::assume(op < 5);
            match op {
                0 => {
                    if held.is_none() && pool.count().unwrap() > 0 {
                        let item = pool.acquire_resource(Duration::from_millis(1)).unwrap();
                        assert!(item.generation == pool.discriminant().unwrap(), "C18 every resource handed out belongs to the current generation");
                        held = Some(item);
                    }
                }
                1 => {
                    if let Some(item) = held.take() {
                        let r = pool.give_back_resource_pool_item(item);
                        std::mem::forget(r);
                    }
                }
                2 => {
                    if let Some(item) = held.take() {
                        drop(item);
                    }
                }
                3 => {
                    let d_new: u64 = kani::any();
                    pool.set_discriminant(d_new).unwrap();
                    pool.clear();
                    let r = pool.give_back_resource(Tagged { generation: d_new, id: kani::any() }, d_new);
                    std::mem::forget(r);
                }
                _ => {
                    let r = pool.reset_available_resources();
                    std::mem::forget(r);
                }
            }
            assert!(inv(&pool), "C18 Inv after every operation");
            step += 1;
        }
        std::mem::forget(held);
    }
}
c18_shapes!(check_three_operations: c18_three_operations_keep_inv_1_1 = (1, 1), c18_three_operations_keep_inv_2_1 = (2, 1));
